"""C05 — the result depends only on year, forms and input values (premises)."""
from ..core import get_core
from .. import corerules as R
from ..linerules import l1_access, l2_effects, l2b_shared_iterators, l2c_generators_consumed_once
from ..lines import get_analysis


def check(tree, rep, tier='quick', seed=0):
    rep.explanation = ('Premises of order independence decided structurally: line definitions are pure (L1, L2), stores are write-once and '
                       'read through one gate (K6, K7, K8), nothing in the package consults time, randomness, the environment, object identity or '
                       'the iteration order of a set (K16 over the core and every form module), and a prompted answer is written into the same store '
                       'entry the file populates and read back through the same validation gate (K8, K11, K18); the failure report prints every item of every diagnostic, so its content does not depend on the order in which lines were attempted (K27).')
    rep.rule_text = 'obligation = one rule instance (L1 L2 K6 K7 K8 K11 K16 K18 K27) on one construct'
    rep.exhaustive = True
    rep.assumptions = ['NOT decided: independence from the attempt order for all schedules additionally needs "no waiter is lost" (C06, not decided by this family); the schedule-permutation hook of the property is a dynamic device and is not used']
    core = get_core(tree)
    R.k36_mutable_defaults_untouched(core, rep)   # nothing survives from one solve / fill to the next through a default argument
    R.k40_state_belongs_to_the_instance(core, rep)   # ... nor through a table written in a class body
    R.k38_solver_object(core, rep)
    R.k0_solve_shape(core, rep)          # every requested form is known before the first line is attempted
    an = get_analysis(tree)
    forms = [rel for y in an.cat.years for rel in tree.form_modules(y)]
    l1_access(tree, rep)
    l2_effects(tree, rep)
    l2b_shared_iterators(tree, rep)
    l2c_generators_consumed_once(tree, rep)
    from ..linerules import l6_iterated_sequences_are_not_edited
    l6_iterated_sequences_are_not_edited(tree, rep)
    R.k6_single_value_writer(core, rep)
    R.k12_schedule_once(core, rep)
    R.k13_add_form(core, rep)            # what a form load registers does not depend on how the form was first reached
    R.k7_missing_key_raises(core, rep)
    R.k8_input_store_writes(core, rep)
    R.k11_input_gate(core, rep)
    R.k16_determinism(core, rep, extra_modules=forms)
    R.k18_cli_store_identity(core, rep)
    R.k10_refusal(core, rep)             # only a declined prompt stops the questions: file and prompt stay equivalent
    R.k20_ctrl_c(core, rep)              # a typed answer reaches the store as typed: the same text in the file is used as it is
    R.k11g_parser_objects_untouched(core, rep)
    R.k27_complete_diagnostics(core, rep)
    from .c17 import shared_rule
    shared_rule(an.cat, rep, rule='R17.7')
    rep.floor('core rule obligations', sum(v[0] for k, v in rep.rules.items() if k.startswith('K')), 100)
