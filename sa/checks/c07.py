"""C07 — income tax follows the year's statutory rate schedule (all reals)."""
import ast
from fractions import Fraction

from ..interp import Closure, EnumV
from ..lineabs import E
from ..lines import get_analysis, load_data
from ..pwaffine import PW, Aff, Interval, frac
from ..src import AnalysisError
from .c17 import get_catalogue


def round_half_up(q):
    return (q * 2 + 1) // 2          # floor(q + 1/2) for q >= 0


def oracle_pieces(edges, rates, max_income):
    """[(Interval, Aff)] covering [0, max_income]."""
    rates = [Fraction(r) for r in rates]
    edges = [Fraction(e) for e in edges]

    def T(x):
        tax = Fraction(0)
        lo = Fraction(0)
        for r, hi in zip(rates, edges + [None]):
            if hi is None or x <= hi:
                return tax + r * (x - lo)
            tax += r * (hi - lo)
            lo = hi
    pieces = []
    rows = [(0, 5), (5, 15), (15, 25)]
    a = 25
    while a < 3000:
        rows.append((a, a + 25))
        a += 25
    while a < 100000:
        rows.append((a, a + 50))
        a += 50
    for (lo, hi) in rows:
        mid = Fraction(lo + hi, 2)
        pieces.append((Interval(lo, hi, False, True), Aff(0, round_half_up(T(mid)))))
    # exact formula at or above 100000
    bounds = [Fraction(100000)] + [e for e in edges if e > 100000] + [Fraction(max_income)]
    for k in range(len(bounds) - 1):
        lo, hi = bounds[k], bounds[k + 1]
        # marginal rate on (lo, hi]
        idx = sum(1 for e in edges if e <= lo)
        r = rates[idx]
        # T(x) = T(lo) + r (x - lo)
        pieces.append((Interval(lo, hi, k != 0, False), Aff(r, T(lo) - r * lo)))
    return pieces, T


def breakpoints(pieces):
    pts = set()
    for iv, _ in pieces:
        pts.add(iv.lo)
        pts.add(iv.hi)
    return pts


def value_at(pieces, x):
    for iv, f in pieces:
        if (iv.lo < x or (iv.lo == x and not iv.lo_open)) and (x < iv.hi or (x == iv.hi and not iv.hi_open)):
            return f
    return None


def check(tree, rep, tier='quick', seed=0):
    rep.explanation = ('figure_tax of each year is abstractly interpreted over "piecewise-affine functions of one real variable": '
                       'the filing status is concretised to each member, every comparison with the income splits the real line, '
                       'every leaf is a constant or b*x-d with exact rational coefficients. The resulting partition of [0, 1e12] is '
                       'compared piece by piece (common refinement, every break point and every open piece) with the statutory '
                       'schedule built from an independent table of bracket edges. All reals, all statuses, all years; nothing is executed.')
    rep.rule_text = ('obligation = one elementary interval or break point of the common refinement of code pieces and oracle pieces, '
                     'per (year, status): defined (D1), equal to the oracle piece (D2); plus monotonicity/step/QSS=MFJ on the computed '
                     'function (D3) and call-site wiring (D4)')
    rep.exhaustive = True
    rep.assumptions = ['bracket edges in sa/data/tax_schedules.json are the published ones (they reproduce every table cell and worksheet row of the tree except the reported ones)',
                       'float rounding of x*b-d (<= 1 ulp) is not modelled; the line is rounded to cents afterwards']
    cat = get_catalogue(tree)
    ip = cat.interp
    sched = load_data('tax_schedules.json')
    maxinc = Fraction(sched['max_income'])
    n_pieces = n_status = n_unfoldable = 0
    for y in cat.years:
        rel = f'habutax/forms/ty{y}/f1040_figure_tax.py'
        if not tree.exists(rel):
            raise AnalysisError(f'{rel} missing (anchor vanished)')
        ns = ip.module_ns(rel)
        fv, found = ip.ns_lookup(ns, 'figure_tax', rel)
        if not found or not isinstance(fv, Closure) or not isinstance(fv.node, ast.FunctionDef):
            raise AnalysisError(f'{rel}: figure_tax is not a module-level function')
        # D0: the helpers must be functions of their arguments only
        impure = []
        mod = tree.module(rel)
        for fn in [x for x in mod.body if isinstance(x, ast.FunctionDef)]:
            for x in ast.walk(fn):
                if isinstance(x, (ast.Global, ast.Nonlocal)):
                    impure.append((fn.name, f'{type(x).__name__.lower()} {", ".join(x.names)}', x.lineno))
                if isinstance(x, (ast.Assign, ast.AugAssign)):
                    for t in (x.targets if isinstance(x, ast.Assign) else [x.target]):
                        if isinstance(t, (ast.Attribute, ast.Subscript)):
                            impure.append((fn.name, f'store to {ast.unparse(t)}', x.lineno))
                if isinstance(x, ast.Call) and isinstance(x.func, ast.Attribute) and x.func.attr in ('append', 'update', 'setdefault', 'pop', 'clear', 'add') \
                        and isinstance(x.func.value, ast.Name) and x.func.value.id.isupper() or (isinstance(x, ast.Call) and isinstance(x.func, ast.Attribute)
                                                                                            and x.func.attr in ('setdefault', 'update') and isinstance(x.func.value, ast.Name) and x.func.value.id.startswith('_')):
                    impure.append((fn.name, f'mutation {ast.unparse(x.func)}()', x.lineno))
            if any(isinstance(d, (ast.Name, ast.Attribute, ast.Call)) for d in fn.decorator_list):
                impure.append((fn.name, 'decorated (e.g. a cache): results may depend on earlier calls', fn.lineno))
        rep.ob('D0', f'{y}/figure_tax-is-a-function-of-its-arguments', not impure,
               f'the tax helpers of {y} keep state between calls: {impure[:3]}; the tax for an income could depend on what was looked up before', rel)
        if impure:
            n_unfoldable += 1
            continue
        f1040 = cat.find(y, '1040')
        fs = f1040.input_map().get('filing_status') if f1040 else None
        if fs is None or not isinstance(fs.attrs.get('enum'), EnumV):
            raise AnalysisError(f'{y}: Form 1040 filing_status enum not found')
        enum = fs.attrs['enum']
        if str(y) not in sched['edges']:
            raise AnalysisError(f'no statutory schedule recorded for {y} in sa/data/tax_schedules.json')
        results = {}
        for mname in enum.members:
            n_status += 1
            member = enum.member(mname)
            oname = 'MarriedFilingJointly' if mname in sched['joint_like'] else mname
            if oname not in sched['edges'][str(y)]:
                rep.ob('D1', f'{y}/{mname}/status-known', False, f'filing status {mname} has no statutory schedule', rel)
                continue
            pw = PW(ip, rel)
            dom = [Interval(0, maxinc)]
            try:
                outs = pw.run_function(fv.node, [Aff(1, 0), member], dom)
            except AnalysisError as e:
                raise AnalysisError(f'figure_tax({y}, {mname}) cannot be folded to a piecewise-affine function: {e}')
            code = []
            for o in outs:
                for iv in o.dom:
                    if o.kind == 'ret' and isinstance(o.value, Aff):
                        code.append((iv, o.value, None))
                    elif o.kind == 'ret' and isinstance(o.value, (int, float)) and not isinstance(o.value, bool):
                        code.append((iv, Aff(0, frac(o.value), isinstance(o.value, float)), None))
                    else:
                        what = {'assert': f'assert {o.value} fails', 'raise': f'raises {o.value}', 'ret': f'returns {o.value!r}'}[o.kind]
                        code.append((iv, None, f'{what} at {rel}:{getattr(o.node, "lineno", 0)}'))
            code.sort(key=lambda t: (t[0].lo, t[0].lo_open))
            results[mname] = code
            # the tax must be *defined*: line 16 and the worksheet lines are money lines, and the type check of a money
            # line rejects an int (0 instead of 0.0) with a TypeError - the return is then not computed at all
            ints = [(iv, f) for iv, f, w in code if f is not None and not f.is_float]
            rep.ob('D1', f'{y}/{mname}/result-is-a-float', not ints,
                   f'figure_tax({y}, {mname}) returns the int {ints[0][1]!r} on incomes {ints[0][0]!r}: the money line that returns it (1040 line 16, worksheet lines 22/24) '
                   'is rejected by the type check, so the tax is not defined there' if ints else '', rel)
            orc, T = oracle_pieces(sched['edges'][str(y)][oname], sched['rates'], maxinc)
            pts = sorted(breakpoints([(iv, f) for iv, f, _ in code]) | breakpoints(orc))
            key0 = f'{y}/{mname}'
            # group adjacent failures into ranges so that a hole is one finding
            bad_undefined = []
            bad_value = []

            import bisect
            code_los = [iv.lo for iv, f, w in code]
            orc_los = [iv.lo for iv, f in orc]

            def _find(lst, los, x, get_iv):
                i = bisect.bisect_right(los, x) - 1
                for j in (i, i - 1, i + 1):
                    if 0 <= j < len(lst):
                        iv = get_iv(lst[j])
                        if (iv.lo < x or (iv.lo == x and not iv.lo_open)) and (x < iv.hi or (x == iv.hi and not iv.hi_open)):
                            return lst[j]
                return None

            def probe(x, label):
                nonlocal n_pieces
                n_pieces += 1
                hit = _find(code, code_los, x, lambda t: t[0])
                if hit is None:
                    c, why = None, 'no branch of figure_tax covers this income'
                else:
                    c, why = hit[1], hit[2]
                oh = _find(orc, orc_los, x, lambda t: t[0])
                return c, why, (oh[1] if oh is not None else None)
            elems = []
            for i, p in enumerate(pts):
                elems.append(('pt', p, p))
                if i + 1 < len(pts):
                    elems.append(('open', p, pts[i + 1]))
            for kind, lo, hi in elems:
                x = lo if kind == 'pt' else (lo + hi) / 2
                c, why, o = probe(x, kind)
                if o is None:
                    continue
                if c is None:
                    bad_undefined.append((lo, hi, why))
                    rep.obligations += 1
                    continue
                same = (c.at(x) == o.at(x)) if kind == 'pt' else c.same(o)
                if same:
                    rep.obligations += 1
                    rep.discharged += 1
                else:
                    rep.obligations += 1
                    bad_value.append((lo, hi, c, o))
            rep.rules.setdefault('D1+D2 pieces', [0, 0])
            rep.rules['D1+D2 pieces'][0] += len(elems)
            rep.rules['D1+D2 pieces'][1] += len(elems) - len(bad_undefined) - len(bad_value)
            rep.distinct.add(('pieces', key0, len(elems)))
            # report ranges
            for (lo, hi, why) in _ranges(bad_undefined):
                rep.fail('D1', f'{key0}/undefined[{int(lo)},{int(hi)})',
                         f'figure_tax({y}) is undefined for {mname} on incomes [{float(lo):.2f}, {float(hi):.2f}): {why}', rel)
            for (lo, hi, c, o) in bad_value[:12]:
                rep.fail('D2', f'{key0}/value[{float(lo):g},{float(hi):g}]',
                         f'figure_tax({y}, {mname}) on [{float(lo):g}, {float(hi):g}] is {c!r} but the statutory schedule gives {o!r}', rel)
            if len(bad_value) > 12:
                rep.fail('D2', f'{key0}/value-many', f'{len(bad_value)} pieces of figure_tax({y}, {mname}) differ from the statutory schedule', rel)
            if not bad_undefined and not bad_value:
                rep.samples.append({'year': y, 'status': mname, 'pieces': len(code),
                                    'example': [repr(code[0][0]), repr(code[0][1]), repr(code[-1][0]), repr(code[-1][1])]})
            # ---- D3 on the computed function itself
            defined = []
            for iv, f, w in code:
                if f is None:
                    continue
                # the properties below are properties of the function, not of how the code happens to cut its domain:
                # adjacent pieces with the same formula are one piece
                if defined and defined[-1][1].same(f) and defined[-1][0].hi == iv.lo and not (defined[-1][0].hi_open and iv.lo_open):
                    last = defined[-1][0]
                    defined[-1] = (Interval(last.lo, iv.hi, last.lo_open, iv.hi_open), f)
                else:
                    defined.append((iv, f))
            mono_ok = True
            step_ok = True
            top = Fraction(sched['rates'][-1])
            worst = None
            for (iv1, f1), (iv2, f2) in zip(defined, defined[1:]):
                if f1.a < 0:
                    mono_ok = False
                    worst = (iv1, f1)
                if iv1.hi == iv2.lo:
                    left = f1.at(iv1.hi)
                    right = f2.at(iv2.lo)
                    if right < left:
                        mono_ok = False
                        worst = (iv2, f2)
                    width = max(iv2.hi - iv2.lo, iv1.hi - iv1.lo) if iv2.hi < INFINITY else 0
                    if right - left > top * min(width, 50) + 1:
                        step_ok = False
                if f2.a > top:
                    step_ok = False
            rep.ob('D3', f'{key0}/non-decreasing', mono_ok, f'figure_tax({y}, {mname}) decreases at {worst}', rel)
            rep.ob('D3', f'{key0}/step-bounded', step_ok, f'figure_tax({y}, {mname}) jumps by more than the top rate per dollar plus one table step', rel)
        # QSS == MFJ
        joint = [m for m in enum.members if m in sched['joint_like']]
        for j in joint:
            a = results.get(j)
            b = results.get('MarriedFilingJointly')
            same = a is not None and b is not None and len(a) == len(b) and all(
                x[0].lo == z[0].lo and x[0].hi == z[0].hi and ((x[1] is None and z[1] is None) or (x[1] is not None and z[1] is not None and x[1].same(z[1])))
                for x, z in zip(a, b))
            rep.ob('D3', f'{y}/{j}==MarriedFilingJointly', same, f'figure_tax({y}) treats {j} differently from married filing jointly', rel)
    # ---- D4 wiring: call sites pass (a line of the same form year, the filing-status input) to the same year's figure_tax
    an = get_analysis(tree)
    n_calls = 0
    taxed = {}
    for d in an.defs.values():
        for p in d.paths:
            for (kind, data, node, rel) in p.events:
                if kind != 'modcall' or data[1] != 'figure_tax':
                    continue
                n_calls += 1
                crel, name = data
                ok_year = crel == f'habutax/forms/ty{d.year}/f1040_figure_tax.py'
                rep.ob('D4', f'{d.key}/same-year-figure_tax', ok_year, f'{d.key} calls figure_tax from {crel}', f'{rel}:{node.lineno}')
            v = p.outcome.value if p.outcome.kind == 'ret' else None
            if isinstance(v, E) and v.op == 'call' and str(v.args[0]).endswith(':figure_tax'):
                amt, st = (list(v.args[1:]) + [None, None])[:2]
                ok = isinstance(amt, E) and amt.op == 'v' and isinstance(st, E) and st.op == 'i' and st.args[0] == '1040.filing_status'
                rep.ob('D4', f'{d.key}/arguments', ok, f'{d.key} calls figure_tax({amt!r}, {st!r}); expected (a line value, the Form 1040 filing status input)', d.where,
                       sample={'line': d.key, 'amount': repr(amt), 'status': repr(st)})
                if ok:
                    taxed.setdefault((d.fr.name, d.name), {}).setdefault(repr(amt), []).append((d.year, d.where))
    # ... and the same line of the same form taxes the same amount in every year that has it (the worksheet's "tax on line 5"
    # is the tax on line 5 in 2021, 2022 and 2023: a year that taxes another line was edited alone)
    for (fname, lname), per in sorted(taxed.items()):
        years = sorted({y for v_ in per.values() for (y, _w) in v_})
        if len(years) < 2:
            continue
        major = max(per.items(), key=lambda kv: (len({y for (y, _w) in kv[1]}), kv[0]))[0]
        for amt_s, sites in sorted(per.items()):
            for (y, where_) in sorted(set(sites)):
                rep.ob('D4', f'{y}/{fname}.{lname}/taxes-the-amount-its-sibling-years-tax', amt_s == major or len(per) == 1,
                       f'{y} {fname}.{lname} is the tax on {amt_s}; in the other years ({[yy for yy in years if yy != y]}) the same line is the tax on {major}', where_)
    rep.floor('years analysed (folded or reported as stateful)', n_status // 5 + n_unfoldable, 3)
    rep.floor('statuses x years folded', n_status, 15 - 5 * n_unfoldable)
    rep.floor('elementary pieces and break points compared', n_pieces, 16000 * (3 - n_unfoldable))
    rep.floor('figure_tax call sites', n_calls, 9)
    # ---- the year's schedule is the schedule of the year the user named: the command line hands that year to the solver
    from ..core import get_core
    from .. import corerules as R
    R.k39_cli_options_defined_once(get_core(tree), rep)


INFINITY = Fraction(10) ** 29


def _ranges(bad):
    """merge adjacent (lo, hi, why) items"""
    out = []
    for lo, hi, why in sorted(bad, key=lambda t: (t[0], t[1])):
        if out and out[-1][1] >= lo and out[-1][2] == why:
            out[-1] = (out[-1][0], max(out[-1][1], hi), why)
        else:
            out.append((lo, hi, why))
    return out
