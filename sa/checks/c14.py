"""C14 — a written solution reads back (agreement clauses)."""
from ..core import get_core
from .. import corerules as R
from .c17 import get_catalogue
from ..interp import EnumV, Rec


def check(tree, rep, tier='quick', seed=0):
    rep.explanation = ('Writer/reader agreement rules: the section and key under which `solve` records the tax year are the ones `fill-pdfs` '
                       'reads with getint, that year indexes the form catalogue, the section is removed before filling (K22a); every concrete line '
                       'class implements to_string and from_string consistently (same decimal places, fixed-point format, None<->"", '
                       'member<->enum()[name], str(bool) recognised) and the filler re-types every entry through from_string (K22b); every '
                       'enumeration reaching an EnumField/EnumInput of any catalogued form is built so that str(member) is the member name; every '
                       'parser carrying user text is created without %-interpolation (K22c); to_config writes every stored value (K14).')
    rep.rule_text = 'obligation = one rule instance (K22a K22b K22c K14) on one construct; plus one obligation per (year, form, enum-typed input or line)'
    rep.exhaustive = True
    rep.assumptions = ['NOT decided: exact round trip of every float/int/str value (numeric formatting, multi-line text) - runtime values']
    core = get_core(tree)
    R.k22e_integer_lines_read_back_exactly(core, rep)
    R.k22f_solution_written_unfiltered(core, rep)
    R.k11e_parser_options(core, rep)
    R.k22g_every_section_read_back(core, rep)
    R.k11g_parser_objects_untouched(core, rep)
    R.k22_solution_agreement(core, rep)
    R.k39_cli_options_defined_once(core, rep)   # the year stamped into the solution is the year the user named
    R.k40_state_belongs_to_the_instance(core, rep)   # the values read back are this solution's: the filler's tables are not shared with an earlier filler
    R.k14_solution_lists_all(core, rep)
    cat = get_catalogue(tree)
    n = 0
    for fr in cat.all_forms():
        for r in list(fr.inputs) + list(fr.fields):
            if not isinstance(r, Rec):
                continue
            e = r.attrs.get('enum') if r.cls.is_sub_named('EnumInput') else (r.attrs.get('_type') if r.cls.is_sub_named('EnumField') else None)
            if e is None:
                continue
            n += 1
            rep.ob('K22b', f'{fr.year}/{fr.name}.{r.attrs.get("_name")}/enum-prints-member-name', isinstance(e, EnumV) and e.via_make,
                   f'{fr.name}.{r.attrs.get("_name")} uses an enumeration whose str(member) is not the member name: the solution text would not read back', r.where)
    rep.floor('enum-typed inputs and lines', n, 100)
    rep.floor('core rule obligations', sum(v[0] for k, v in rep.rules.items() if k.startswith('K')), 30)
