"""C20 — interrupting an interactive solve never loses input already given (structural clauses)."""
from ..core import get_core
from .. import corerules as R


def check(tree, rep, tier='quick', seed=0):
    rep.explanation = ('Structural rules on the CLI and the solver: Solver.solve() runs inside a try whose finally writes the input store '
                       'back under no condition other than --writeback-input, no handler around it swallows, nothing interactive happens before '
                       'the protected region (K19); Ctrl-C at the prompt becomes "not supplied" and only that, other interruptions propagate '
                       'through the finally (K20); an answer is stored immediately after it is received (K20) into the store object the CLI later '
                       'writes (K8, K18); refusal stops all further prompting (K10).')
    rep.rule_text = 'obligation = one rule instance (K19 K20 K8 K10 K18) on one construct of habutax/__init__.py or solver.py'
    rep.exhaustive = True
    rep.assumptions = ['NOT decided: well-formedness of the written file for arbitrary answer text and atomicity of write() itself (truncate-then-write) - runtime/OS behaviour']
    core = get_core(tree)
    R.k19_writeback_finally(core, rep)
    R.k20_ctrl_c(core, rep)
    R.k8_input_store_writes(core, rep)
    R.k10_refusal(core, rep)
    R.k18_cli_store_identity(core, rep)
    R.k18b_write_reaches_the_file(core, rep)
    R.k35_store_loaded_eagerly(core, rep)
    R.k11_input_gate(core, rep)          # nothing outside InputStore edits the configuration that is written back
    R.k11e_parser_options(core, rep)     # what write-back wrote is read back whole by the next sitting
    R.k11g_parser_objects_untouched(core, rep)
    rep.floor('core rule obligations', sum(v[0] for k, v in rep.rules.items() if k.startswith('K')), 25)
