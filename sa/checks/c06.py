"""C06 — termination, bounded work, no lost waiter (four structural clauses)."""
from ..core import get_core
from .. import corerules as R


def check(tree, rep, tier='quick', seed=0):
    rep.explanation = ('Only the clauses visible in the code shape are decided: a stored value/input is immediately announced to its tracker '
                       '(K9 store => meet), refusal is monotone and re-tested between prompts and the prompt is called from one place (K10), a '
                       'dependency is scheduled once and marked as being solved (K12), and every loop that attempts lines iterates over a '
                       'materialised sequence, never over the live met_dependents() generator (K15); the tracker records every waiter and drains them all (K24a-d) and nothing but the tracker changes its waiter lists (K24e).')
    rep.rule_text = 'obligation = one rule instance (K9 K10 K12 K15 K24a-e) on one statement, loop or call site of the solver'
    rep.exhaustive = True
    rep.assumptions = ['NOT decided (quantifies over all histories of register/meet/drain): termination of the work list, the bound on evaluations per line, and that every registered wait is released exactly once']
    core = get_core(tree)
    R.k0_solve_shape(core, rep)          # every requested form is known before the first line is attempted
    R.k9_store_then_meet(core, rep)
    R.k10_refusal(core, rep)
    R.k12_schedule_once(core, rep)
    R.k12c_who_calls(core, rep)
    R.k13c_unknown_line_aborts(core, rep)
    R.k2_signal_discipline(core, rep)    # each signal is handled once, in place (load the specification, retry the same line - no re-queueing)
    R.k15_no_live_generator(core, rep)
    R.k8_input_store_writes(core, rep)
    R.k7_missing_key_raises(core, rep)   # a stored line never reads as missing again (a released waiter would wait forever)
    R.k20_ctrl_c(core, rep)              # the prompt loop ends on end-of-input instead of asking again for ever
    R.k18_cli_store_identity(core, rep)  # an answer marked met is really stored: otherwise the same question returns every round
    R.k11_input_gate(core, rep)          # ... and is found again by the very test that reported it missing (provides() and the read look in the same place): asked at most once
    R.k31_loops_end(core, rep)           # no loop of the core walks a possibly cyclic table without remembering where it has been
    R.k13_add_form(core, rep)            # the set of lines being solved only grows: a line that dropped out of it is queued - and evaluated - a second time when somebody reads it
    R.k24_tracker_shape(core, rep)
    R.k24e_waiters_only_tracker_mutates(core, rep)
    rep.floor('core rule obligations', sum(v[0] for k, v in rep.rules.items() if k.startswith('K')), 25)
