"""C11 — lines only see validated, typed, finite inputs (gate clauses)."""
from ..core import get_core
from .. import corerules as R
from ..linerules import l1_access


def check(tree, rep, tier='quick', seed=0):
    rep.explanation = ('Dominance rules on InputStore.__getitem__: the converted value is returned only after "specification known", '
                       '"supplied" and "valid(text)" held, in this order, on the same unmodified text read once from the configuration, each '
                       'failing check raising its own exception (K11); the raw configuration is reachable only inside InputStore and lines reach '
                       'inputs only by subscripting the accessor (K11b, L1); every valid() goes through its own value() and returns False on '
                       'conversion errors (K11c); a float input passes a finiteness test before it is returned (K11d); supplied <=> found, no '
                       'fallback or defaults on any parser (K11e); every value() returns its declared kind on every return statement, and enumeration members are looked up by subscripting the enumeration, whose range is exactly the members (K11f); the prompt loop returns only validated answers (K20).')
    rep.rule_text = 'obligation = one rule instance (K11 K11b K11c K11d K11e K11f K20 L1) on one construct'
    rep.exhaustive = True
    rep.assumptions = ['NOT decided: the accepted language of each validator for arbitrary strings (unicode digits, underscores, case) - a runtime string domain']
    core = get_core(tree)
    R.k11_input_gate(core, rep)
    R.k11f_value_kinds(core, rep)
    R.k11g_parser_objects_untouched(core, rep)
    R.k11h_ascii_validators(core, rep)
    R.k17b_validation_on_demand(core, rep)
    R.k2_signal_discipline(core, rep)    # InvalidInput is not converted into 'missing' or anything else on the solve path
    R.k20_ctrl_c(core, rep)
    R.k8_input_store_writes(core, rep)
    l1_access(tree, rep)
    R.k32_solve_single_exit(core, rep)   # an answered input reaches its lines: the loop is never left with met dependencies undrained
    R.k11i_strict_decoding(core, rep)    # no byte of the input file is dropped or replaced before the validators see the text
    R.k35_store_loaded_eagerly(core, rep)
    R.k38_solver_object(core, rep)       # the solver's input registry is its own: it never validates with specifications left by another solve
    R.k11j_validator_and_converter_agree(core, rep)
    R.k11e_parser_options(core, rep)     # every parser the package builds for an input file keeps the text as written (no interpolation, no defaults)
    from .c17 import input_options_rule, get_catalogue
    input_options_rule(get_catalogue(tree), rep)        # a blank answer is valid only where the declaration really says allow_empty=True
    rep.floor('core rule obligations', sum(v[0] for k, v in rep.rules.items() if k.startswith('K')), 30)
