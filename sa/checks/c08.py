"""C08 — year- and status-indexed statutory amounts are the official ones."""
import os
import re

from ..amounts import year_profiles, profile
from ..lines import get_analysis, load_data
from ..pdfx import load_template
from ..src import AnalysisError


def check(tree, rep, tier='quick', seed=0):
    rep.explanation = ('Each statutory amount is located semantically, not textually: every line definition is partially evaluated under each of the '
                       'five filing statuses and the numeric constants it uses are extracted with their role (returned, compared with, multiplied by, '
                       'capped at) and the set of inputs/lines they are combined with. The frozen oracle table sa/data/statutory_amounts.json gives, per '
                       '(year, amount, use site, status), the officially published value(s), typed independently of the repository; every triple must '
                       'match exactly. Where the bundled IRS template prints dollar amounts in the accessibility text of the box a line is mapped to, the '
                       'values used must be among the printed ones (R8.3), and where the box prints a table "filing status - amount" the value the definition yields for each status must be the one printed for that status (R8.5) - a second oracle taken from the bundled templates themselves.')
    rep.rule_text = 'obligation = one (year, amount id, use site, filing status) triple (R8.1) or one (year, line, printed amount) pair (R8.3) or one (year, line, filing status) pairing with the printed table (R8.5)'
    rep.exhaustive = True
    rep.assumptions = ['official values in sa/data/statutory_amounts.json are the published ones (Rev. Proc. 2020-45 / 2021-45 / 2022-38, form instructions, NC D-401); amounts not in the table are not covered',
                       'tiered tables (EIC limits, NC child deduction) are compared as sets of values per status, not as tier-by-tier pairings']
    an = get_analysis(tree)
    cat = an.cat
    table = load_data('statutory_amounts.json')['entries']
    n = n_tab = 0
    ids = set()
    for y in cat.years:
        f1040 = cat.find(y, '1040')
        fs = f1040.input_map().get('filing_status') if f1040 else None
        if fs is None:
            raise AnalysisError(f'{y}: Form 1040 filing_status input not found')
        enum = fs.attrs['enum']
        prof = year_profiles(an, y, enum)
        lines_present = {f'{d.fr.name}.{d.name}' for d in an.defs.values() if d.year == y}
        for e in [e for e in table if e['year'] == y]:
            ids.add(e['id'])
            key0 = f'{y}/{e["id"]}@{e["line"]}/{e["role"]}'
            if e['line'] not in lines_present:
                raise AnalysisError(f'{key0}: line {e["line"]} no longer exists in {y} (use site vanished; re-run sa/tools/make_statutory_table.py after reading the change)')
            per = prof.get(e['line'], {})
            got = per.get((e['role'], e['sig']))
            if got is None:
                others = sorted(f'{r}:{sg}' for (r, sg) in per if r == e['role'])
                rep.ob('R8.2', key0, False,
                       f'{y} {e["line"]} no longer uses a constant as `{e["role"]}` with [{e["sig"]}] (the site of {e["id"]}); same-role constants found with: {others[:4]}', _where(an, y, e['line']))
                continue
            for status, want in e['values'].items():
                n += 1
                if status == '*':
                    have = sorted(set().union(*got.values()))
                    extra = {k: sorted(v) for k, v in got.items() if sorted(v) != sorted(float(x) for x in want)}
                    ok = not extra
                else:
                    g = got.get(status, got.get('*'))
                    have = sorted(g) if g is not None else None
                    ok = have is not None and [float(x) for x in have] == [float(x) for x in want]
                rep.ob('R8.1', f'{key0}/{status}', ok,
                       f'{y} {e["id"]} for {status}: {e["line"]} uses {have} ({e["role"]} {e["sig"]}) but the published value is {want}', _where(an, y, e['line']),
                       sample={'year': y, 'amount': e['id'], 'status': status, 'site': f'{e["line"]} {e["role"]} {e["sig"]}', 'value': want})
        # ---- R8.4 a lookup is a function of (form, amount name, status): no state kept between lookups
        site_lines = {e['line'] for e in table if e['year'] == y}
        for d in an.defs.values():
            if d.year != y or f'{d.fr.name}.{d.name}' not in site_lines:
                continue
            eff = sorted({str(data) for p in d.paths for (kind, data, _n, _r) in p.events if kind == 'effect'})
            rep.ob('R8.4', f'{y}/{d.fr.name}.{d.name}/stateless-lookup', not eff,
                   f'{y} {d.fr.name}.{d.name} looks its statutory amount up through code that keeps state ({eff[:2]}): the value returned may be one cached for another form or status', d.where)
        # ---- R8.3 amounts printed on the template
        for fr in cat.forms(y):
            if not fr.pdf_file or not isinstance(fr.pdf_fields, list):
                continue
            rel = os.path.relpath(fr.pdf_file, tree.root)
            if not tree.exists(rel):
                continue
            tp = load_template(tree, rel)
            if tp.xfa is None:
                continue
            for r in fr.pdf_fields:
                line = r.attrs.get('field_name')
                x = tp.xfa_for(r.attrs.get('pdf_field_name'))
                if x is None or not x.speak or '$' not in x.speak or not isinstance(line, str) or '.' in line:
                    continue
                printed = {float(m.replace(',', '')) for m in re.findall(r'\$\s?([0-9][0-9,]*)', x.speak)}
                per = prof.get(f'{fr.name}.{line}', {})
                # ---- R8.5 a table "status - $amount" printed in the box: paired status by status
                tab = status_table(x.speak, list(enum.members))
                if tab:
                    for (role, sg), by_status in per.items():
                        if role != 'ret' or not any(set(map(float, vs)) & set(tab.values()) for vs in by_status.values()):
                            continue
                        for m, want in sorted(tab.items()):
                            have = by_status.get(m, by_status.get('*'))
                            if have is None:
                                continue
                            have = sorted(float(h) for h in have)
                            n_tab += 1
                            ok = (have == [want]) if len(have) == 1 else (want in have)
                            rep.ob('R8.5', f'{y}/{fr.name}.{line}/{m}', ok,
                                   f'{y} {fr.name}.{line} gives {have} for {m} but the template box prints {want:g} for that filing status ("{x.speak[:100]}")', r.where,
                                   sample={'line': f'{fr.name}.{line}', 'status': m, 'printed': want})
                for (role, sg), by_status in per.items():
                    if role not in ('ret', 'rate', 'min', 'cmp'):
                        continue
                    used = set().union(*by_status.values())
                    used = {float(u) for u in used if float(u) >= 100}
                    if used and used & printed:
                        n += 1
                        rep.ob('R8.3', f'{y}/{fr.name}.{line}/{role}', used <= printed,
                               f'{y} {fr.name}.{line} uses {sorted(used - printed)} but the template box prints only {sorted(printed)} ("{x.speak[:90]}")', r.where,
                               sample={'line': f'{fr.name}.{line}', 'used': sorted(used), 'printed': sorted(printed)})
    from ..core import get_core
    from .. import corerules as R
    R.k28_threshold_lookup_pure(get_core(tree), rep)
    rep.floor('(year, amount, site, status) triples compared', n, 450)
    rep.floor('amounts printed per filing status on a template and paired with the definition', n_tab, 60)
    rep.floor('amount ids covered', len(ids), 45)


def _where(an, y, line):
    fn, _, ln = line.rpartition('.')
    d = an.defs.get((y, fn, ln))
    return d.where if d is not None else ''


_STATUS = r'(?:Single|Married filing jointly|Married filing separately|Head of household|Qualifying surviving spouse|Qualifying widow\(er\)|All other filing statuses|All others)'


def status_table(text, members):
    """'Married filing jointly-$400,000. All other filing statuses-$200,000.' -> {member name: amount}; None unless every
    member gets exactly one amount"""
    t = text.replace('\u2014', '-').replace('\u2013', '-')
    out = {}
    rest = None
    for m in re.finditer(r'(' + _STATUS + r'(?:(?:,? or |, )' + _STATUS + r')*)\s*[-,]\s*\$\s?([0-9][0-9,]*)', t):
        amount = float(m.group(2).replace(',', ''))
        for phrase in re.findall(_STATUS, m.group(1)):
            if phrase.startswith('All other'):
                rest = amount
                continue
            key = re.sub(r'[^a-z]', '', phrase.lower())
            hit = [mm for mm in members if re.sub(r'[^a-z]', '', mm.lower()) == key or (key.startswith('qualifying') and mm.lower().startswith('qualifying'))]
            if len(hit) != 1 or hit[0] in out:
                return None
            out[hit[0]] = amount
    if not out and rest is None:
        return None
    if rest is not None:
        for mm in members:
            out.setdefault(mm, rest)
    if set(out) != set(members):
        return None
    return out
