"""C12 — stored values have the declared type, rounding and blank convention."""
from ..core import get_core
from .. import corerules as R


def check(tree, rep, tier='quick', seed=0):
    rep.explanation = ('Choke-point rules: TypedField.value returns either the class\'s empty value (on None / blank text) or a value that '
                       'passed an exact type test whose failing branch raises a TypeError naming the line (K21a); FloatField.value rounds to the '
                       'declared places before the value is stored (K21b); nothing bypasses the choke point - the raw value function is called '
                       'only there, the solver stores only field.value(...) (K21c, K6); each concrete field class fixes its empty value and type '
                       '(K21e); the input-form mirror table agrees with the value type of each input class (K21d).')
    rep.rule_text = 'obligation = one rule instance (K21a-e, K6) on one construct of fields.py / form.py / solver.py'
    rep.exhaustive = True
    rep.assumptions = ['the behaviour for every Python value a definition might return is exactly the choke point K21a; nothing further is assumed']
    core = get_core(tree)
    R.k21_typed_values(core, rep)
    R.k6_single_value_writer(core, rep)
    R.k7_missing_key_raises(core, rep)   # the store keeps the value as the field produced it (no second rounding behind the field's back)
    rep.floor('core rule obligations', sum(v[0] for k, v in rep.rules.items() if k.startswith('K')), 35)
