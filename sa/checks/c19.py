"""C19 — the fill step transmits values faithfully and files the right forms (structural clauses)."""
import ast

from ..core import get_core
from .. import corerules as R
from .c17 import get_catalogue
from .c18 import const_false, template_identity


def check(tree, rep, tier='quick', seed=0):
    rep.explanation = ('Taint rule on the FDF writer: every value interpolated between the parentheses of a PDF literal string is the result '
                       'of the module\'s escaping function, which rewrites the backslash first and then both parentheses (K23a); the list of '
                       'forms that is filled is derived from self.forms by the needs_filing filter, ordered by (jurisdiction, sequence_no) and '
                       'walked once (K23b); worksheets and input forms have a constant-False needs_filing and filing forms are sortable (class '
                       'rules over the catalogue); TextPDFField/ChoicePDFField raise instead of truncating and no handler on the fill call path '
                       'catches those exceptions (K23c); no value function of a text box slices the text it is handed (R19.7) and every sequence number is an integer, compared as such (R19.8, K23b).')
    rep.rule_text = 'obligation = one rule instance (K23a K23b K23c) on one construct, plus one per (year, form class) for the needs_filing class rules, one per value function of a text box (R19.7) and one per filed form (R19.8)'
    rep.exhaustive = True
    rep.assumptions = ['NOT decided: what pdftk does with the form data; non-ASCII text']
    core = get_core(tree)
    R.k36_mutable_defaults_untouched(core, rep)   # nothing survives from one solve / fill to the next through a default argument
    R.k40_state_belongs_to_the_instance(core, rep)   # ... nor through a table written in a class body
    R.k23_filler(core, rep)
    R.k23f_filling_keeps_no_state(core, rep)
    R.k23g_box_value_set_in_every_round(core, rep)
    R.k22e_integer_lines_read_back_exactly(core, rep)   # the text the filler maps is the solved text (no unquoting / detours on read-back)
    R.k11e_parser_options(core, rep)     # the solution text reaches the filler uncut
    cat = get_catalogue(tree)
    template_identity(tree, cat, rep, 'R19.10')   # 'files exactly the right forms': each into its own blank
    n = 0
    for y in cat.years:
        seen = {}
        for cls in cat.classes[y]:
            fr = next(f for f in cat.forms(y) if f.cls is cls)
            c, nf = cls.find_method('needs_filing')
            n += 1
            key = f'{y}/{cls.name}'
            if cls.is_sub_named('InputForm') or not fr.pdf_file:
                rep.ob('K23b', key + '/never-filed', nf is not None and const_false(nf),
                       f'{cls.name} is an input form or has no template, yet its needs_filing() is not the constant False', fr.where)
            else:
                seq = fr.class_attrs.get('sequence_no')
                j = fr.class_attrs.get('jurisdiction')
                k = (repr(j), seq)
                rep.ob('K23b', key + '/unique-position', k not in seen,
                       f'{cls.name} and {seen.get(k)} share (jurisdiction, sequence_no) = {k}: their relative order in the output is arbitrary', fr.where)
                seen.setdefault(k, cls.name)
    # ---- R19.7 no value function of a text box cuts the text it is handed (that would truncate instead of refusing);
    #      sequence numbers are numbers, so that the order is the attachment order and not a text order
    from ..lines import get_analysis
    from ..lineabs import E
    an = get_analysis(tree)
    n_vf = 0
    for d in an.pdfs:
        if d.rec.cls.name != 'TextPDFField':
            continue
        n_vf += 1
        cuts = []
        for p in d.paths:
            if p.outcome.kind == 'ret':
                _find_cuts(p.outcome.value, cuts)
        rep.ob('R19.7', d.key, not cuts,
               f'{d.key}: the value function of this text box cuts the text of the line ({cuts[0]!r}): a value too long for the box is shortened silently instead of stopping the fill' if cuts else '', d.where)
    rep.floor('value functions of text boxes checked for truncation', n_vf, 10)
    for y in cat.years:
        for fr in cat.forms(y):
            if fr.pdf_file and not fr.cls.is_sub_named('InputForm'):
                seq = fr.class_attrs.get('sequence_no')
                rep.ob('R19.8', f'{y}/{fr.name}/sequence-number-is-a-number', isinstance(seq, int) and not isinstance(seq, bool),
                       f'{fr.name}: sequence_no is {seq!r}; the filing order compares these values, so they must all be integers', fr.where)
    # ---- R19.9 the jurisdiction that orders the output agrees with the form's name (nc_ prefix <=> North Carolina)
    #      and with the same form in the other years (sibling agreement)
    by_name = {}
    for y in cat.years:
        for fr in cat.forms(y):
            if fr.pdf_file and not fr.cls.is_sub_named('InputForm'):
                j = fr.class_attrs.get('jurisdiction')
                jn = getattr(j, 'name', repr(j))
                by_name.setdefault(fr.form_name, {})[y] = (jn, fr)
    for fname, per in sorted(by_name.items()):
        for y, (jn, fr) in sorted(per.items()):
            want = 'NC' if fname.startswith('nc_') else 'US'
            others = {v[0] for yy, v in per.items() if yy != y}
            ok = jn == want and (not others or others == {jn} or jn == want)
            rep.ob('R19.9', f'{y}/{fname}/jurisdiction', jn == want,
                   f'{y} {fname} declares jurisdiction {jn}; its name and the other years ({sorted(others)}) say {want}: it is filed among the forms of the wrong return', fr.where)
    n_dec = filing_decisions_agree(an, rep)
    rep.floor('decisions that a needs_filing() recomputes and a line of the return makes as well', n_dec, 3)
    rep.floor('form classes with needs_filing class rules', n, 60)
    rep.floor('core rule obligations', sum(v[0] for k, v in rep.rules.items() if k.startswith('K')), 15)


def _find_cuts(e, out):
    """slices of a text value (a str-typed line or input, or text derived from one by str methods)"""
    from ..lineabs import E
    if not isinstance(e, E):
        if isinstance(e, (list, tuple)):
            for x in e:
                _find_cuts(x, out)
        return
    if e.op == 'slice' and _is_text(e.args[0]):
        out.append(e)
    for a in e.args:
        _find_cuts(a, out)


def _is_text(e):
    from ..lineabs import E
    if isinstance(e, str):
        return True
    if not isinstance(e, E):
        return False
    if e.op in ('i', 'v'):
        return e.ty in ('str', None)
    if e.op == 'call' and isinstance(e.args[0], str) and e.args[0].startswith('str.') and len(e.args) > 1:
        return _is_text(e.args[1])
    if e.op == 'slice':
        return _is_text(e.args[0])
    return False


# ---------------------------------------------------------------- R19.11 a schedule is filed exactly when the return uses it
_CMP = {'lt': lambda a, b: a < b, 'le': lambda a, b: a <= b, 'gt': lambda a, b: a > b, 'ge': lambda a, b: a >= b}


def _cmp_nodes(v, out):
    from ..lineabs import E
    if isinstance(v, E):
        if v.op in _CMP and len(v.args) == 2:
            out.append(v)
        for a in v.args:
            _cmp_nodes(a, out)
    elif isinstance(v, (list, tuple)):
        for a in v:
            _cmp_nodes(a, out)


def _term(an, year, e, depth=0):
    """an amount as a term over line atoms: a line whose whole definition is max/min of two amounts is replaced by it"""
    from ..lineabs import E
    if isinstance(e, E) and e.op == 'v' and isinstance(e.args[0], str) and depth < 2:
        f, _, nme = e.args[0].rpartition('.')
        d = an.defs.get((year, f, nme))
        if d is not None and len(d.paths) == 1 and not d.paths[0].guards and d.paths[0].outcome.kind == 'ret':
            val = d.paths[0].outcome.value
            if isinstance(val, E) and val.op in ('max', 'min') and len(val.args) == 2:
                return (val.op, _term(an, year, val.args[0], depth + 1), _term(an, year, val.args[1], depth + 1))
        return ('atom', e.args[0])
    if isinstance(e, E) and e.op in ('max', 'min') and len(e.args) == 2:
        return (e.op, _term(an, year, e.args[0], depth + 1), _term(an, year, e.args[1], depth + 1))
    if isinstance(e, E) and e.op == 'i':
        return ('atom', 'i:' + str(e.args[0]))
    return None


def _atoms_of(t, out):
    if t is None:
        out.add(None)
    elif t[0] == 'atom':
        out.add(t[1])
    else:
        _atoms_of(t[1], out)
        _atoms_of(t[2], out)


def _val(t, env):
    if t[0] == 'atom':
        return env[t[1]]
    a, b = _val(t[1], env), _val(t[2], env)
    return max(a, b) if t[0] == 'max' else min(a, b)


def _table(cmp_node, an, year):
    """(the two amounts compared, the truth of the comparison for first < second, ==, >) - None when it is not a comparison of
    exactly two line amounts"""
    l, r = _term(an, year, cmp_node.args[0]), _term(an, year, cmp_node.args[1])
    ats = set()
    _atoms_of(l, ats)
    _atoms_of(r, ats)
    if None in ats or len(ats) != 2:
        return None
    p, q = sorted(ats)
    tab = tuple(_CMP[cmp_node.op](_val(l, {p: 0, q: s_}), _val(r, {p: 0, q: s_})) for s_ in (-1, 0, 1))
    return (p, q), tab


def filing_decisions_agree(an, rep):
    """A needs_filing() that works a decision out again (`line 10 > standard deduction`) instead of reading the line that made it
    must come to the same answer as that line for every order of the two amounts - equal amounts included: otherwise the
    return says "standard deduction" while the itemized-deductions schedule is filled and attached (or the other way
    round).  Lines defined as max/min of two amounts are seen through."""
    n = 0
    for nf in an.filing:
        mine = []
        for p in nf.paths:
            for (c, _pol, _n, _r) in p.guards:
                _cmp_nodes(c, mine)
            if p.outcome.kind == 'ret':
                _cmp_nodes(p.outcome.value, mine)
        tabs = {}
        for c in mine:
            t = _table(c, an, nf.year)
            if t is not None and len(set(t[1])) > 1:
                tabs[t[0]] = (t[1], c)
        if not tabs:
            continue
        for (y, f, nme), d in sorted(an.defs.items()):
            if y != nf.year:
                continue
            theirs = []
            for p in d.paths:
                for (c, _pol, _n, _r) in p.guards:
                    _cmp_nodes(c, theirs)
                if p.outcome.kind == 'ret':
                    _cmp_nodes(p.outcome.value, theirs)
            seen = set()
            for c in theirs:
                t = _table(c, an, y)
                if t is None or t[0] not in tabs or len(set(t[1])) == 1 or (t[0], t[1]) in seen:
                    continue
                seen.add((t[0], t[1]))
                n += 1
                ref, cref = tabs[t[0]]
                same = t[1] == ref or t[1] == tuple(not x for x in ref)
                rep.ob('R19.11', f'{nf.key}~{d.key}/{t[0][0]}~{t[0][1]}', same,
                       f'{nf.key} decides whether the form is filed with `{cref!r}`; {d.key} decides the same question with `{c!r}`: the two disagree when the amounts are '
                       f'{"equal" if (t[1][0] == ref[0]) == (t[1][2] == ref[2]) else "in one of the two orders"} '
                       f'(truth when {t[0][1]} is below, equal to, above {t[0][0]}: {ref} against {t[1]}) - the return then says one thing and the set of filed forms another', nf.where)
    return n
