"""C19 — the fill step transmits values faithfully and files the right forms (structural clauses)."""
import ast

from ..core import get_core
from .. import corerules as R
from .c17 import get_catalogue
from .c18 import const_false


def check(tree, rep, tier='quick', seed=0):
    rep.explanation = ('Taint rule on the FDF writer: every value interpolated between the parentheses of a PDF literal string is the result '
                       'of the module\'s escaping function, which rewrites the backslash first and then both parentheses (K23a); the list of '
                       'forms that is filled is derived from self.forms by the needs_filing filter, ordered by (jurisdiction, sequence_no) and '
                       'walked once (K23b); worksheets and input forms have a constant-False needs_filing and filing forms are sortable (class '
                       'rules over the catalogue); TextPDFField/ChoicePDFField raise instead of truncating and no handler on the fill call path '
                       'catches those exceptions (K23c).')
    rep.rule_text = 'obligation = one rule instance (K23a K23b K23c) on one construct, plus one per (year, form class) for the needs_filing class rules'
    rep.exhaustive = True
    rep.assumptions = ['NOT decided: what pdftk does with the form data; non-ASCII text']
    core = get_core(tree)
    R.k23_filler(core, rep)
    cat = get_catalogue(tree)
    n = 0
    for y in cat.years:
        seen = {}
        for cls in cat.classes[y]:
            fr = next(f for f in cat.forms(y) if f.cls is cls)
            c, nf = cls.find_method('needs_filing')
            n += 1
            key = f'{y}/{cls.name}'
            if cls.is_sub_named('InputForm') or not fr.pdf_file:
                rep.ob('K23b', key + '/never-filed', nf is not None and const_false(nf),
                       f'{cls.name} is an input form or has no template, yet its needs_filing() is not the constant False', fr.where)
            else:
                seq = fr.class_attrs.get('sequence_no')
                j = fr.class_attrs.get('jurisdiction')
                k = (repr(j), seq)
                rep.ob('K23b', key + '/unique-position', k not in seen,
                       f'{cls.name} and {seen.get(k)} share (jurisdiction, sequence_no) = {k}: their relative order in the output is arbitrary', fr.where)
                seen.setdefault(k, cls.name)
    rep.floor('form classes with needs_filing class rules', n, 60)
    rep.floor('core rule obligations', sum(v[0] for k, v in rep.rules.items() if k.startswith('K')), 15)
