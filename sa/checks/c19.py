"""C19 — the fill step transmits values faithfully and files the right forms (structural clauses)."""
import ast

from ..core import get_core
from .. import corerules as R
from .c17 import get_catalogue
from .c18 import const_false, template_identity


def check(tree, rep, tier='quick', seed=0):
    rep.explanation = ('Taint rule on the FDF writer: every value interpolated between the parentheses of a PDF literal string is the result '
                       'of the module\'s escaping function, which rewrites the backslash first and then both parentheses (K23a); the list of '
                       'forms that is filled is derived from self.forms by the needs_filing filter, ordered by (jurisdiction, sequence_no) and '
                       'walked once (K23b); worksheets and input forms have a constant-False needs_filing and filing forms are sortable (class '
                       'rules over the catalogue); TextPDFField/ChoicePDFField raise instead of truncating and no handler on the fill call path '
                       'catches those exceptions (K23c); no value function of a text box slices the text it is handed (R19.7) and every sequence number is an integer, compared as such (R19.8, K23b).')
    rep.rule_text = 'obligation = one rule instance (K23a K23b K23c) on one construct, plus one per (year, form class) for the needs_filing class rules, one per value function of a text box (R19.7) and one per filed form (R19.8)'
    rep.exhaustive = True
    rep.assumptions = ['NOT decided: what pdftk does with the form data; non-ASCII text']
    core = get_core(tree)
    R.k36_mutable_defaults_untouched(core, rep)   # nothing survives from one solve / fill to the next through a default argument
    R.k23_filler(core, rep)
    R.k23f_filling_keeps_no_state(core, rep)
    R.k23g_box_value_set_in_every_round(core, rep)
    R.k22e_integer_lines_read_back_exactly(core, rep)   # the text the filler maps is the solved text (no unquoting / detours on read-back)
    R.k11e_parser_options(core, rep)     # the solution text reaches the filler uncut
    cat = get_catalogue(tree)
    template_identity(tree, cat, rep, 'R19.10')   # 'files exactly the right forms': each into its own blank
    n = 0
    for y in cat.years:
        seen = {}
        for cls in cat.classes[y]:
            fr = next(f for f in cat.forms(y) if f.cls is cls)
            c, nf = cls.find_method('needs_filing')
            n += 1
            key = f'{y}/{cls.name}'
            if cls.is_sub_named('InputForm') or not fr.pdf_file:
                rep.ob('K23b', key + '/never-filed', nf is not None and const_false(nf),
                       f'{cls.name} is an input form or has no template, yet its needs_filing() is not the constant False', fr.where)
            else:
                seq = fr.class_attrs.get('sequence_no')
                j = fr.class_attrs.get('jurisdiction')
                k = (repr(j), seq)
                rep.ob('K23b', key + '/unique-position', k not in seen,
                       f'{cls.name} and {seen.get(k)} share (jurisdiction, sequence_no) = {k}: their relative order in the output is arbitrary', fr.where)
                seen.setdefault(k, cls.name)
    # ---- R19.7 no value function of a text box cuts the text it is handed (that would truncate instead of refusing);
    #      sequence numbers are numbers, so that the order is the attachment order and not a text order
    from ..lines import get_analysis
    from ..lineabs import E
    an = get_analysis(tree)
    n_vf = 0
    for d in an.pdfs:
        if d.rec.cls.name != 'TextPDFField':
            continue
        n_vf += 1
        cuts = []
        for p in d.paths:
            if p.outcome.kind == 'ret':
                _find_cuts(p.outcome.value, cuts)
        rep.ob('R19.7', d.key, not cuts,
               f'{d.key}: the value function of this text box cuts the text of the line ({cuts[0]!r}): a value too long for the box is shortened silently instead of stopping the fill' if cuts else '', d.where)
    rep.floor('value functions of text boxes checked for truncation', n_vf, 10)
    for y in cat.years:
        for fr in cat.forms(y):
            if fr.pdf_file and not fr.cls.is_sub_named('InputForm'):
                seq = fr.class_attrs.get('sequence_no')
                rep.ob('R19.8', f'{y}/{fr.name}/sequence-number-is-a-number', isinstance(seq, int) and not isinstance(seq, bool),
                       f'{fr.name}: sequence_no is {seq!r}; the filing order compares these values, so they must all be integers', fr.where)
    # ---- R19.9 the jurisdiction that orders the output agrees with the form's name (nc_ prefix <=> North Carolina)
    #      and with the same form in the other years (sibling agreement)
    by_name = {}
    for y in cat.years:
        for fr in cat.forms(y):
            if fr.pdf_file and not fr.cls.is_sub_named('InputForm'):
                j = fr.class_attrs.get('jurisdiction')
                jn = getattr(j, 'name', repr(j))
                by_name.setdefault(fr.form_name, {})[y] = (jn, fr)
    for fname, per in sorted(by_name.items()):
        for y, (jn, fr) in sorted(per.items()):
            want = 'NC' if fname.startswith('nc_') else 'US'
            others = {v[0] for yy, v in per.items() if yy != y}
            ok = jn == want and (not others or others == {jn} or jn == want)
            rep.ob('R19.9', f'{y}/{fname}/jurisdiction', jn == want,
                   f'{y} {fname} declares jurisdiction {jn}; its name and the other years ({sorted(others)}) say {want}: it is filed among the forms of the wrong return', fr.where)
    rep.floor('form classes with needs_filing class rules', n, 60)
    rep.floor('core rule obligations', sum(v[0] for k, v in rep.rules.items() if k.startswith('K')), 15)


def _find_cuts(e, out):
    """slices of a text value (a str-typed line or input, or text derived from one by str methods)"""
    from ..lineabs import E
    if not isinstance(e, E):
        if isinstance(e, (list, tuple)):
            for x in e:
                _find_cuts(x, out)
        return
    if e.op == 'slice' and _is_text(e.args[0]):
        out.append(e)
    for a in e.args:
        _find_cuts(a, out)


def _is_text(e):
    from ..lineabs import E
    if isinstance(e, str):
        return True
    if not isinstance(e, E):
        return False
    if e.op in ('i', 'v'):
        return e.ty in ('str', None)
    if e.op == 'call' and isinstance(e.args[0], str) and e.args[0].startswith('str.') and len(e.args) > 1:
        return _is_text(e.args[1])
    if e.op == 'slice':
        return _is_text(e.args[0])
    return False
