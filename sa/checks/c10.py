"""C10 — every name a form definition can refer to resolves."""
import ast
import symtable

from ..interp import BUILTIN_NAMES, Unknown
from ..lineabs import int_range, render_parts, E
from ..lines import get_analysis, load_data
from ..src import unparse, AnalysisError


def norm_stmt(node):
    return unparse(node, 90)


def check(tree, rep, tier='quick', seed=0):
    rep.explanation = ('Every line definition, PDF value function and needs_filing method of every form of every year is '
                       'abstractly interpreted over all of its paths (helpers and the core methods it calls are inlined from '
                       'source); each input/line/threshold/enum/attribute/callee reference met on any path is resolved '
                       'against the statically built catalogue of the same year. No definition is executed.')
    rep.rule_text = ('obligation = one reference (rule, definition, reference key) on some path; distinct = distinct '
                     '(rule, key); R10.1 inputs, R10.2 lines, R10.3 absent forms, R10.4 thresholds, R10.5 enum identity, '
                     'R10.6 receivers/callees, R10.7 Python names, R10.8 cross-year imports, R10.9 s.form() availability, R10.10 returned value type = declared line type')
    rep.exhaustive = True
    rep.assumptions = ['integer inputs used to build names (e.g. number_dependents) are >= 0',
                       'a path is every syntactic path not contradicted by constants fixed at form-construction time (instance, loop constants) or by an earlier test of the same condition',
                       'forms listed in sa/data/absent_forms.json are deliberately absent (the solver aborts with "not supported")']
    an = get_analysis(tree)
    cat = an.cat
    absent_ok = set(load_data('absent_forms.json'))
    n_defs = n_reads = n_calls = n_paths = 0
    thr_sites = set()
    absent_seen = set()
    # ---- R10.0 every form of the catalogue can be built: a constructor that fails (an attribute stored on an object whose
    #      classes all declare __slots__, a name that does not exist) takes every line of the form with it
    for fr in cat.all_forms():
        e = fr.abort
        if e is not None and not e.kind.startswith(('undecided', 'unmodelled')):
            rep.ob('R10.0', f'{fr.year}/{fr.name}/constructible', False,
                   f'building form {fr.name} ({fr.year}) fails with {e.kind}: {e.msg} - every reference to one of its lines ends in that error instead of a value', f'{e.rel}:{getattr(e.node, "lineno", 0)}')
        else:
            rep.ob('R10.0', f'{fr.year}/{fr.name}/constructible', True)
    # ---- R10.11 every name a definition can build is taken apart into (form, copy) correctly: the line definitions write
    #      `w-2:{n}`, `8889:spouse`; form.name_and_instance() (evaluated here by the constructor evaluator, not run) must
    #      hand back the form of the catalogue and the copy as written, for one-digit and longer copy numbers alike
    from ..formx import _root_scope
    from ..interp import InterpAbort, Closure, Unknown
    ip = cat.interp
    frel = 'habutax/form.py'
    nai, found = ip.ns_lookup(ip.module_ns(frel), 'name_and_instance', frel)
    if not found or not isinstance(nai, Closure):
        raise AnalysisError('habutax/form.py: name_and_instance is not a module-level function (anchor vanished)')
    tested = set()
    import re as _re
    numbered = set()                      # forms some definition refers to with a computed copy number (`w-2:{n}.box_1`)
    for d in an.all_defs():
        for r in d.reads():
            m = _re.match(r'([^:.{}]+):\{', r.text or '')
            if m:
                numbered.add(m.group(1))
    rep.floor('forms referred to with a computed copy number', len(numbered), 5)
    for fr in cat.all_forms():
        fname = fr.form_name
        insts = fr.class_attrs.get('valid_instances')
        cases = [(fname, None)] + ([(f'{fname}:{x}', x) for x in insts] if isinstance(insts, list) and insts else
                                   [(f'{fname}:{k}', str(k)) for k in (0, 7, 10, 13, 99, 100)] if fname in numbered else [])
        for text, inst in cases:
            if text in tested:
                continue
            tested.add(text)
            try:
                got = ip.call_closure(nai, [text], {}, nai.node, _root_scope(ip, frel))
            except InterpAbort as e:
                if e.kind.startswith(('undecided', 'unmodelled')):
                    raise AnalysisError(f'name_and_instance({text!r}) is not evaluable: {e}')
                got = f'{e.kind}'
            if isinstance(got, Unknown) or (isinstance(got, tuple) and any(isinstance(x, Unknown) for x in got)):
                raise AnalysisError(f'name_and_instance({text!r}) is not evaluable: {got!r}')
            rep.ob('R10.11', f'name_and_instance/{text}', got == (fname, inst),
                   f'form.name_and_instance({text!r}) gives {got if isinstance(got, tuple) else "an error: " + str(got)[:120]} instead of {(fname, inst)}: a definition that refers to this copy of a form of the catalogue '
                   'ends in that error (or in another form) instead of a value', f'{frel}:{nai.node.lineno}')
    rep.floor('form names taken apart by name_and_instance', len(tested), 55)
    for d in an.all_defs():
        n_defs += 1
        n_paths += len(d.paths)
        if d.truncated:
            rep.error(f'{d.key}: more than the path budget; definition not fully explored')
        for why in d.imprecise():
            rep.undecide(f'{d.key}: {why}')
        # ---- reads
        for r in d.reads():
            n_reads += 1
            res = r.res
            rule = 'R10.1' if r.kind == 'i' else 'R10.2'
            key = f'{d.key}->{r.kind}:{r.text}'
            where = f'{r.rel}:{getattr(r.node, "lineno", 0)}'
            if res.absent_form:
                absent_seen.add(res.form_name)
                rep.ob('R10.3', key, res.form_name in absent_ok,
                       f'{d.key} refers to {r.text!r}: form {res.form_name!r} is neither in the {d.year} catalogue nor listed as deliberately absent', where)
                continue
            probs = list(res.problems)
            if res.form is not None and res.open_holes:
                # computed part in the name: expand finite integer ranges
                table = res.form.input_map() if r.kind == 'i' else res.form.field_map()
                ok_all = True
                expanded = False
                if len(res.open_holes) == 1 and isinstance(res.open_holes[0], E) and res.open_holes[0].op == 'idx':
                    # an index bound by range(count) inside the *name*: names are declared for a
                    # finite block only, so the count must be bounded on every path to the read
                    expanded = True
                    hole = res.open_holes[0]
                    declared = 0
                    while res.name.replace('\0', str(declared)) in table:
                        declared += 1
                    ub = _index_bound(d, r, hole)
                    if declared == 0:
                        probs.append(('undeclared', f'no name {r.text!r} is declared for index 0'))
                    elif ub is None or ub > declared:
                        probs.append(('unbounded-index', f'{r.text!r} is read for every n < {hole.args[1]!r}, but form {res.form_name} declares the name only for n < {declared} and nothing on the path bounds the count'
                                      + ('' if ub is None else f' below {ub}') + '; a larger count makes the solver trip its internal assertion'))
                elif len(res.open_holes) == 1:
                    lo, hi = int_range(res.open_holes[0])
                    if lo is not None and hi is not None and hi - lo <= 64:
                        expanded = True
                        for k in range(lo, hi + 1):
                            nm = res.name.replace('\0', str(k))
                            if nm not in table:
                                ok_all = False
                                probs.append(('undeclared', f'{nm!r} (from {r.text!r} with computed part = {k}) is not declared by form {res.form_name}'))
                if not expanded:
                    rep.undecide(f'{key}: name has an open computed part; checked existentially only')
                    import re
                    pat = re.compile('^' + '.*'.join(re.escape(x) for x in res.name.split('\0')) + '$')
                    if not any(isinstance(k, str) and pat.match(k) for k in table):
                        probs.append(('undeclared', f'no declared name of form {res.form_name} matches {r.text!r}'))
            if probs:
                rep.ob(rule, key, False, f'{d.key}: ' + '; '.join(m for _, m in probs), where)
            else:
                rep.ob(rule, key, True, where=where,
                       sample={'definition': d.key, 'reads': r.text, 'declared_at': res.decl.where if res.decl is not None else None})
        # ---- events and outcomes
        for p in d.paths:
            for (kind, data, node, rel) in p.events:
                where = f'{rel}:{getattr(node, "lineno", 0)}'
                if kind == 'issue':
                    exc, msg = data
                    rule = 'R10.5' if 'enum' in msg and 'member' in msg else 'R10.6'
                    if exc == 'NameError':
                        rule = 'R10.7'
                    rep.ob(rule, f'{d.key}@{norm_stmt(node)}:{exc}', False,
                           f'{d.key}: {exc}: {msg}', where)
                elif kind == 'enum-mismatch':
                    a, b = data
                    rep.ob('R10.5', f'{d.key}@{norm_stmt(node)}', False,
                           f'{d.key}: {a!r} (enumeration {a.meta[0]!r}) is compared with {b!r} of a different enumeration; the test can never succeed', where)
                elif kind == 'enum-cmp-ok':
                    rep.ob('R10.5', f'{d.key}@{norm_stmt(node)}', True, where=where)
                elif kind == 'enum-vs-str':
                    rep.ob('R10.5', f'{d.key}@{norm_stmt(node)}', False,
                           f'{d.key}: enumeration value {data[0]!r} compared with the string {data[1]!r}', where)
                elif kind == 'call':
                    n_calls += 1
                    rep.ob('R10.6', f'{d.key}@call:{norm_stmt(node)}', True, where=where)
                    if isinstance(data, str) and data.endswith('.threshold'):
                        thr_sites.add((d.key, norm_stmt(node)))
                elif kind == 'unmodelled':
                    rep.undecide(f'{d.key}: unmodelled construct {data} at {where}')
            o = p.outcome
            if o.kind == 'raise' and o.exc == 'AssertionError' and o.rel == 'habutax/form.py':
                # failing assert inside Form.threshold
                site = _last_threshold_call(p)
                rep.ob('R10.4', f'{d.key}@{site}', False,
                       f'{d.key}: threshold lookup fails its assertion ({o.detail}) on the path {_guards(p)}', d.where)
            elif o.kind == 'raise' and o.exc in ('KeyError', 'IndexError') and not any(e[0] == 'issue' for e in p.events):
                rep.ob('R10.6', f'{d.key}@{norm_stmt(o.node)}:{o.exc}', False, f'{d.key}: {o.exc} {o.detail}', f'{o.rel}:{getattr(o.node, "lineno", 0)}')
    for (dk, site) in thr_sites:
        rep.ob('R10.4', f'{dk}@{site}', True)
    # ---- R10.10 the value a definition returns has the type its line declares (otherwise the choke point of
    #      TypedField.value raises a TypeError instead of storing a value: the solve aborts in the middle)
    n_typed = _r1010(an, rep)
    # ---- R10.9  s.form('F') availability
    _r109(an, rep)
    # ---- R10.7 names, R10.8 imports (module level, all form modules)
    n_mods = 0
    for y in cat.years:
        for rel in tree.form_modules(y):
            n_mods += 1
            mod = tree.module(rel)
            ns = cat.interp.module_ns(rel)
            for n in ast.walk(mod):
                if isinstance(n, ast.ImportFrom) and n.module and n.module.startswith('habutax.forms.ty'):
                    yy = n.module.split('.')[2][2:]
                    rep.ob('R10.8', f'{rel}@{n.module}', yy == str(y),
                           f'{rel} (tax year {y}) imports from {n.module}', f'{rel}:{n.lineno}')
                elif isinstance(n, ast.ImportFrom) and n.level and n.level > 1:
                    rep.ob('R10.8', f'{rel}@relative-{n.level}-{n.module}', False,
                           f'{rel} imports across packages with a level-{n.level} relative import', f'{rel}:{n.lineno}')
                elif isinstance(n, ast.Import):
                    for a in n.names:
                        if a.name.startswith('habutax.forms.ty'):
                            yy = a.name.split('.')[2][2:]
                            rep.ob('R10.8', f'{rel}@{a.name}', yy == str(y), f'{rel} (tax year {y}) imports {a.name}', f'{rel}:{n.lineno}')
            _names(rel, mod, ns, cat, rep)
    # the claim is exhaustive over all syntactic paths: a construct the interpreter could not follow is not a pass
    if rep.undecided:
        rep.error(f'{len(rep.undecided)} construct(s) of line definitions could not be followed, so "every reference resolves" is not decided for them: {rep.undecided[0][:200]}')
    rep.floor('definitions evaluated (lines + pdf value functions + needs_filing)', n_defs, 2300)
    rep.floor('paths explored', n_paths, 4000)
    rep.floor('distinct (definition, reference) reads resolved', n_reads, 3300)
    rep.floor('call sites resolved', n_calls, 900)
    rep.floor('form modules', n_mods, 63)
    from ..core import get_core
    from .. import corerules as R
    R.k30_form_loading_reentrant(get_core(tree), rep)
    R.k38_solver_object(get_core(tree), rep)
    R.k13_add_form(get_core(tree), rep)     # the retry after 'unknown input name' finds the inputs registered: no early exit of _add_form before it told the store (unbounded recursion otherwise)
    rep.count('absent forms referenced', sorted(absent_seen))


def _index_bound(d, r, hole):
    """Smallest upper bound on the loop count established by the guards that
    precede the read on *every* path containing it (None = unbounded)."""
    count = hole.args[1]
    ck = count.key() if isinstance(count, E) else repr(count)
    worst = 0
    for p in d.paths:
        for r2 in p.reads:
            if r2.text != r.text or r2.kind != r.kind:
                continue
            best = None
            for (c, pol, _n, _r) in p.guards[:r2.nguards]:
                if isinstance(c, E) and c.op == 'lt':
                    a, b = c.args
                    if isinstance(b, E) and b.key() == ck and isinstance(a, (int, float)) and not pol:
                        cand = int(a)            # not (a < count)  =>  count <= a
                    elif isinstance(a, E) and a.key() == ck and isinstance(b, (int, float)) and pol:
                        cand = int(b) - 1 if float(b).is_integer() else int(b)   # count < b
                    else:
                        continue
                    best = cand if best is None else min(best, cand)
            if best is None:
                return None
            worst = max(worst, best)
    return worst


def _guards(p):
    return ' and '.join(('' if pol else 'not ') + repr(c) for c, pol, _, _ in p.guards[-4:])


def _last_threshold_call(p):
    last = 'threshold'
    for (kind, data, node, rel) in p.events:
        if kind == 'call' and isinstance(data, str) and data.endswith('.threshold') and not rel.startswith('habutax/f'):
            last = norm_stmt(node)
    return last


def _r109(an, rep):
    """A line that calls s.form('F') needs F in solver.forms.  Sufficient local
    condition: a read of a line of F precedes the call on the same path.
    Otherwise: the line must not be reachable, in the demand graph with F's lines
    removed, from a required line of a form other than F (nor be required itself)."""
    cat = an.cat
    # reverse demand graph per year
    rev = {}
    for d in an.defs.values():
        for (y, fname, lname) in an.demand_edges(d):
            rev.setdefault((y, fname, lname), set()).add((d.year, d.fr.name, d.name))
    for d in an.defs.values():
        sites = {}
        for p in d.paths:
            seen_forms = set()
            order = []
            # merge reads and events by source order is not available; use event position relative to reads count
            for (kind, data, node, rel) in p.events:
                if kind == 'form-access':
                    fname = data.split(':')[0]
                    prior = any(r.kind == 'v' and r.res is not None and r.res.form_name == fname and r.res.decl is not None
                                and (r.node.lineno, r.node.col_offset) < (node.lineno, node.col_offset) for r in p.reads)
                    sites.setdefault((fname, norm_stmt(node), f'{rel}:{node.lineno}'), []).append(prior)
        for (fname, site, where), priors in sites.items():
            key = f'{d.key}@form({fname})'
            if all(priors):
                rep.ob('R10.9', key, True, where=where)
                continue
            # global condition
            start = (d.year, d.fr.name, d.name)
            bad = None
            if d.rec in d.fr.required and d.fr.form_name != fname:
                bad = [start]
            else:
                seen = {start}
                todo = [(start, [start])]
                while todo and bad is None:
                    cur, path = todo.pop()
                    for pred in rev.get(cur, ()):
                        if pred in seen:
                            continue
                        seen.add(pred)
                        pf = pred[1].split(':')[0]
                        if pf == fname:
                            continue
                        pd = an.defs.get(pred)
                        if pd is not None and pd.rec in pd.fr.required:
                            bad = [pred] + path
                            break
                        todo.append((pred, [pred] + path))
            rep.ob('R10.9', key, bad is None,
                   f"{d.key} calls s.form('{fname}') but can be evaluated before form {fname} was added to the solve: "
                   f"demand chain {' -> '.join(f'{x[1]}.{x[2]}' for x in (bad or []))} starts at a required line outside {fname}; solver.forms['{fname}'] raises KeyError", where)


def _names(rel, mod, ns, cat, rep):
    """R10.7: every name loaded anywhere in the module binds somewhere (local,
    enclosing, module incl. star imports, builtin)."""
    try:
        import warnings
        with warnings.catch_warnings():
            warnings.simplefilter('ignore')
            st = symtable.symtable(mod.text, rel, 'exec')
    except SyntaxError as e:
        raise AnalysisError(f'{rel}: {e}')
    module_names = set(ns.keys())

    def walk(tab):
        for sym in tab.get_symbols():
            nm = sym.get_name()
            if not sym.is_referenced():
                continue
            if tab.get_type() == 'module':
                bound = sym.is_assigned() or sym.is_imported() or nm in module_names or nm in BUILTIN_NAMES
            else:
                if sym.is_local() or sym.is_free() or sym.is_parameter() or sym.is_imported():
                    continue
                # global (implicit or explicit)
                bound = nm in module_names or nm in BUILTIN_NAMES
                if tab.get_type() == 'class' and sym.is_assigned():
                    bound = True
            rep.ob('R10.7', f'{rel}@{tab.get_name()}:{nm}', bound,
                   f'{rel}: name {nm!r} used in {tab.get_name()}() is not defined anywhere (module, star imports, builtins)',
                   f'{rel}:{tab.get_lineno()}')
        for ch in tab.get_children():
            walk(ch)
    walk(st)


def _r1010(an, rep):
    """Static result types (sa/statictypes.py): the set of Python types each returned expression can have,
    with Python's numeric promotion and sum([]) == 0 (an int) when the per-copy list can be empty; the
    empty case is dropped when the path guards contradict it (constant folding + exact linear infeasibility).
    A line nothing reads and no form requires is never evaluated: noted, not reported."""
    from ..lineabs import decl_type
    from ..statictypes import types_of, nonempty_counts, empty_case_feasible
    demanded = set()
    for d in an.defs.values():
        for (y, fname, line) in an.demand_edges(d):
            demanded.add((y, fname, line))
    n = 0
    for d in an.defs.values():
        if d.fr.cls.is_sub_named('InputForm'):
            continue
        try:
            dt, _meta = decl_type(d.rec, 'v')
        except Exception:
            continue
        if dt not in ('float', 'int', 'bool', 'str'):
            continue
        required = any(r is d.rec for r in d.fr.required)
        live = required or (d.year, d.fr.name, d.name) in demanded
        bad_paths = []
        for p in d.paths:
            if p.outcome.kind != 'ret':
                continue
            v = p.outcome.value
            if v is None or (isinstance(v, str) and v == ''):
                continue
            if isinstance(v, (tuple, list)):
                continue
            ts = types_of(v, nonempty_counts(p.guards))
            bad = {t for t in ts if t is not None and t != dt and t != 'none'}
            if not bad:
                continue
            full = types_of(v, _ALL)
            if bad <= {'int'} and not ({t for t in full if t is not None and t != dt and t != 'none'}):
                # the int arises only from an empty per-copy sum
                if not empty_case_feasible(v, p.guards):
                    continue
                bad_paths.append((p, 'int 0 when there are no copies of the form summed over'))
            else:
                bad_paths.append((p, ' / '.join(sorted(bad))))
        n += 1
        if bad_paths and not live:
            rep.notes.append(f'{d.key}: returns {bad_paths[0][1]} for a {dt} line, but nothing reads or requires the line')
            continue
        p0 = bad_paths[0] if bad_paths else None
        rep.ob('R10.10', d.key, not bad_paths,
               f'{d.key} is declared as a {dt} line but its definition can return {p0[1] if p0 else ""} (`{_short(p0[0].outcome.value) if p0 else ""}`'
               f'{(" when " + _guards(p0[0])) if p0 and p0[0].guards else ""}): the value is rejected with a TypeError and the solve aborts instead of computing the line', d.where)
    rep.floor('line definitions type-checked against their declaration', n, 1500)
    return n


class _All(frozenset):
    def __contains__(self, x):
        return True


_ALL = _All()


def _short(v):
    s = repr(v)
    return s if len(s) < 120 else s[:117] + '...'
