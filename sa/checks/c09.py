"""C09 — declaring an unsupported situation never yields a solved return."""
import json
import os

from ..gates import GateAnalysis
from ..lineabs import E
from ..lines import get_analysis, load_data, DATA
from ..src import AnalysisError
from .. import corerules as R
from ..core import get_core


def candidate_values(ga, atom):
    r0 = None
    for d in ga.readers.get(atom, []):
        for r in d.reads():
            if r.atom == atom:
                r0 = r
    if r0 is None or r0.res.decl is None:
        return []
    decl = r0.res.decl
    if atom.startswith('i:'):
        c = decl.cls
        if c.is_sub_named('BooleanInput'):
            return [True, False]
        if c.is_sub_named('FloatInput'):
            return [1.0]
        if c.is_sub_named('IntegerInput'):
            return [1]
        return []
    if not r0.res.form.cls.is_sub_named('InputForm'):
        return []
    nm = getattr(decl.attrs.get('_type'), 'name', None)
    if nm == 'bool':
        return [True]
    if nm == 'float':
        return [1.0]
    return []


def alone_context(ga, atom):
    """every other yes/no declaration consulted by the readers of `atom` is
    answered "no": the user declares this one situation only"""
    ctx = {}
    for d in ga.readers.get(atom, []):
        for r in d.reads():
            if r.kind == 'i' and r.atom != atom and r.res is not None and r.res.decl is not None and r.res.decl.cls.is_sub_named('BooleanInput'):
                ctx[r.atom] = False
    return ctx


def classify(ga, atom, val, mode):
    return ga.classify_all(atom, val, context=alone_context(ga, atom) if mode == 'alone' else None)


def infer(ga, skip=()):
    """all (atom, value, mode) for which some reader refuses by itself (S1):
    mode 'plain' - whatever the other answers; mode 'alone' - when it is the only
    affirmative declaration among those the reader consults"""
    out = []
    for atom in sorted(ga.readers):
        for val in candidate_values(ga, atom):
            if (atom, val) in skip:
                continue
            cl = ga.classify_all(atom, val)
            if any(c == 'S1' for c, _ in cl.values()):
                out.append((atom, val, 'plain', cl))
            elif val is True and atom.startswith('i:'):
                cl = classify(ga, atom, val, 'alone')
                if any(c == 'S1' for c, _ in cl.values()):
                    out.append((atom, val, 'alone', cl))
    return out


def limit_gates(ga):
    """(line key, amount text) for not-implemented paths whose refusal is decided by
    `amount > limit` (last guard: lt(const, amount) true, or lt(amount, const) false)"""
    out = {}
    for key, d in ga.defs.items():
        for p in d.paths:
            if not p.outcome.is_ni or not p.guards:
                continue
            c, pol, _n, _r = p.guards[-1]
            if not (isinstance(c, E) and c.op == 'lt'):
                continue
            a, b = c.args
            amount = None
            if pol and isinstance(a, (int, float)) and not isinstance(a, bool) and isinstance(b, E):
                amount, limit = b, a
            elif pol and isinstance(a, E) and isinstance(b, E) and b.op in ('i', 'v', 'sumn', 'add'):
                amount, limit = b, a
            if amount is None:
                continue
            k = (key, atoms_signature(amount))
            ent = out.setdefault(k, {'d': d, 'limits': set(), 'unconditional': True})
            ent['limits'].add(_limit_text(limit))
            # unconditional: every path on which the line answers carries the negation of this very test
            ctext = repr(c)
            for q in d.paths:
                if q.outcome.kind == 'ret' and not any(repr(g[0]) == ctext and g[1] != pol for g in q.guards):
                    ent['unconditional'] = False
    return out


def _limit_text(limit):
    if isinstance(limit, E):
        return atoms_signature(limit)
    return repr(float(limit)) if isinstance(limit, (int, float)) and not isinstance(limit, bool) else repr(limit)


def atoms_signature(e):
    """order-free set of the inputs/lines an amount is built from (copies of a
    multi-instance form collapsed), so that rewriting the arithmetic does not
    change the signature"""
    import re
    found = set()

    def walk(x):
        if isinstance(x, E):
            if x.op in ('i', 'v'):
                found.add(x.op + ':' + re.sub(r':(\{[^}]*\}|\d+)\.', ':*.', str(x.args[0])))
            for a in x.args:
                walk(a)
        elif isinstance(x, (list, tuple)):
            for a in x:
                walk(a)
    walk(e)
    return ' + '.join(sorted(found)) or repr(e)


def check(tree, rep, tier='quick', seed=0):
    rep.explanation = ('Partial evaluation of line definitions under the assumption "this declaration is affirmative" (3-valued conditions, '
                       'inter-line propagation of values that become constant): a frozen table of gate declarations (sa/data/gates.json, inferred and '
                       'confirmed by reading) must still be gates - some reader raises on every path after reading the declaration (R9.1) - and every '
                       'OTHER reader of the same declaration must refuse too, by itself (S1), through the lines it must read or a required line of its '
                       'form (S2), or because every line that demands it aborts (S3) - the contradiction rule "one reader refuses, a sibling proceeds" '
                       '(R9.2). Frozen limit gates (amount beyond an implemented limit) must keep a not-implemented path guarded by amount > limit (R9.3). '
                       'The signal itself is real: not_implemented() always raises, is recorded and blocks success (K3, K2, K1).')
    rep.rule_text = 'obligation = one (year, gate declaration, reader) triple for R9.2, one (year, gate) for R9.1, one (year, line, amount) for R9.3'
    rep.exhaustive = True
    rep.assumptions = ['the frozen gate table is the reference; declarations the inference proposes beyond it are listed as notes, composite declarations (refused only together with a second condition) are listed in sa/data/gates.json:not_gates and not judged',
                       'NOT decided: that a gate is reached for given data; gates on derived amounts outside the frozen limit list']
    an = get_analysis(tree)
    data = load_data('gates.json')
    frozen = {}
    for g in data['gates']:
        frozen.setdefault(g['year'], []).append(g)
    not_gates = {(g['atom'], g.get('affirmative', True)) for g in data.get('not_gates', [])}
    n_g = n_r = n_l = 0
    for y in an.cat.years:
        ga = GateAnalysis(an, y)
        # lines that can be evaluated at all: the required lines of every form and whatever they (may) read, transitively
        reach = set()
        todo = [(fr.name, rec.attrs.get('_name')) for fr in an.cat.forms(y) if fr.rec is not None for rec in fr.required]
        while todo:
            k = todo.pop()
            if k in reach:
                continue
            reach.add(k)
            todo.extend(k2 for k2 in ga.line_reads.get(k, ()) if k2 not in reach)
        never = {e['atom'] for e in data.get('never_consulted', [])}
        for g in frozen.get(y, []):
            atom, val = g['atom'], g['affirmative']
            key = f'{y}/{atom}={val}'
            if atom not in ga.readers:
                if _declared(an.cat, y, atom):
                    n_g += 1
                    rep.ob('R9.1', key, False,
                           f'{atom} is still declared but no line consults it any more; {g.get("readers", "a reader")} used to refuse when it is {val}: the unsupported situation is now silently ignored', '')
                else:
                    rep.notes.append(f'stale gate (declaration removed): {key}')
                continue
            n_g += 1
            if g.get('with'):
                # a composite declaration: refused only together with its companion answers (confirmed by reading); the named
                # reader must still refuse by itself under the joint assumption
                key = f'{y}/{atom}={val}&' + '&'.join(f'{a}={v}' for a, v in sorted(g['with'].items()))
                cl = ga.classify_all(atom, val, context=dict(g['with']))
                want = set(g.get('readers', []))
                s1 = {'.'.join(k) for k, (c, _) in cl.items() if c == 'S1'}
                rep.ob('R9.1', key, want <= s1,
                       f'{atom} = {val} together with {g["with"]} ({g.get("what", "")}) used to make {sorted(want)} refuse; now: {[(".".join(k), c) for k, (c, _) in cl.items()]} - '
                       'the unsupported combination is declared, consulted and no longer refused', '',
                       sample={'gate': atom, 'with': g['with'], 'refusing_readers': sorted(s1)})
                continue
            cl = classify(ga, atom, val, g.get('mode', 'plain'))
            s1 = [k for k, (c, _) in cl.items() if c == 'S1']
            rep.ob('R9.1', key, bool(s1),
                   f'{atom} = {val} used to make {g.get("readers", "a reader")} refuse (not-implemented on every path after reading it); no reader refuses by itself any more - '
                   f'readers now: {[(".".join(k), c) for k, (c, _) in cl.items()]}', '',
                   sample={'gate': atom, 'affirmative': val, 'refusing_readers': ['.'.join(k) for k in s1]})
            if s1 and atom not in never:
                live = [k for k in s1 if k in reach]
                rep.ob('R9.6', key + '/a-refusing-reader-is-evaluated', bool(live),
                       f'{atom} = {val}: the lines that refuse ({[".".join(k) for k in s1][:3]}) are optional lines that no required line reads any more (directly or through other lines), '
                       'so they are never evaluated: the declaration is still asked for where another line reads it, or silently ignored, and the return solves', '')
            for k, (c, detail) in cl.items():
                if c == 'unread':
                    continue
                n_r += 1
                d = ga.defs[k]
                msg = ''
                if c == 'silent':
                    p = detail
                    msg = (f'{d.key} reads {atom}, and with the answer {val} it still produces {p.outcome!r} on the path '
                           f'[{" and ".join(("" if pol else "not ") + repr(cc) for cc, pol, _a, _b in p.guards[-3:])}] while {[".".join(x) for x in s1][:2]} refuse: '
                           f'an unsupported situation is declared, consulted and the return can still solve')
                rep.ob('R9.2', f'{key}/reader:{d.fr.name}.{d.name}', c in ('S1', 'S2', 'S3'), msg, d.where)
        # ---- limit gates
        lg = limit_gates(ga)
        have = {(f'{k[0][0]}.{k[0][1]}', k[1]) for k in lg}
        lgk = {(f'{k[0][0]}.{k[0][1]}', k[1]): v for k, v in lg.items()}
        for g in data.get('limit_gates', []):
            if g['year'] != y:
                continue
            n_l += 1
            ent = lgk.get((g['line'], g['amount']))
            if ent is None:
                rep.ob('R9.3', f'{y}/{g["line"]}/{g["amount"]}', False,
                       f'{y} {g["line"]} no longer refuses when {g["amount"]} exceeds its implemented limit ({g.get("what", "")})', '')
                continue
            ok_l = sorted(ent['limits']) == sorted(g.get('limits', []))
            ok_u = ent['unconditional'] or not g.get('unconditional', False)
            rep.ob('R9.3', f'{y}/{g["line"]}/{g["amount"]}', ok_l and ok_u,
                   (f'{y} {g["line"]} now refuses when {g["amount"]} exceeds {sorted(ent["limits"])}; the implemented limit was {g.get("limits")}: amounts between the two are no longer refused (or refused needlessly)'
                    if not ok_l else
                    f'{y} {g["line"]} used to refuse whenever {g["amount"]} exceeds its limit; now some path answers without having tested it: the refusal depends on a further condition'),
                   ent['d'].where)
        if tier == 'thorough':
            known = {(g['atom'], g['affirmative']) for g in frozen.get(y, []) if not g.get('with')}
            for atom, val, mode, cl in infer(ga, skip=known | not_gates):
                rep.notes.append(f'{y}: inference proposes a further gate {atom} = {val} [{mode}] (refusing readers {[".".join(k) for k, (c, _) in cl.items() if c == "S1"][:3]}); not in the frozen table')
            for (ln, amt) in sorted(have - {(g['line'], g['amount']) for g in data.get('limit_gates', []) if g['year'] == y}):
                rep.notes.append(f'{y}: further limit-gate shape {ln} on {amt}; not in the frozen table')
    # ---- R9.7 a line that refuses in sibling years refuses under the same conditions in each of them
    from .c02 import year_siblings
    year_siblings(an, rep, rule='R9.7', refusing_only=True, floor=40)
    # ---- R9.4 the signal is real
    core = get_core(tree)
    R.k3_not_implemented_raises(core, rep)
    R.k1_success_condition(core, rep)
    R.k1b_cli_reports(core, rep)         # the verdict the user sees is this call's verdict (one solve per Solver; the flag is never cleared)
    R.k20_ctrl_c(core, rep)              # an affirmative answer typed at the prompt reaches the gate as typed (no spelling of "yes" turns into "no")
    R.k11_input_gate(core, rep)          # ... and an amount reaches its limit gate as written: the numeric converters do not edit the text ("4,000" is invalid, not 4.0)
    from ..linerules import l7_signals_are_called
    l7_signals_are_called(tree, rep)     # a refusal that is named but not called (`self.not_implemented` without parentheses) refuses nothing
    from ..linerules import l2c_generators_consumed_once
    l2c_generators_consumed_once(tree, rep)      # a demand (or a gate) written inside a generator that nothing consumes never happens
    R.k2_signal_discipline(core, rep)
    rep.floor('frozen gates checked', n_g, 200)
    rep.floor('(gate, reader) pairs classified', n_r, 300)
    rep.floor('limit gates checked', n_l, 15)


def _declared(cat, year, atom):
    kind, _, rest = atom.partition(':')
    fpart, _, name = rest.rpartition('.')
    fname, _, inst = fpart.partition(':')
    fr = cat.find(year, fname, None if inst in ('', '*') else inst)
    if fr is None:
        return False
    return name in (fr.input_map() if kind == 'i' else fr.field_map())


def regenerate():
    """Developer helper: prints a fresh gates.json proposal (never used by a check)."""
    from ..src import Tree
    tree = Tree()
    an = get_analysis(tree)
    old = load_data('gates.json') if os.path.exists(os.path.join(DATA, 'gates.json')) else {'not_gates': []}
    not_gates = {(g['atom'], g.get('affirmative', True)) for g in old.get('not_gates', [])}
    gates = []
    limits = []
    for y in an.cat.years:
        ga = GateAnalysis(an, y)
        for atom, val, mode, cl in infer(ga, skip=not_gates):
            gates.append({'year': y, 'atom': atom, 'affirmative': val, 'mode': mode, 'readers': sorted('.'.join(k) for k, (c, _) in cl.items() if c == 'S1')})
        for (k, amt), ent in sorted(limit_gates(ga).items(), key=lambda t: (t[0][0], t[0][1])):
            limits.append({'year': y, 'line': f'{k[0]}.{k[1]}', 'amount': amt, 'what': 'limit ' + ' / '.join(sorted(ent['limits'])),
                           'limits': sorted(ent['limits']), 'unconditional': ent['unconditional']})
    return {'gates': gates, 'limit_gates': limits, 'not_gates': old.get('not_gates', [])}
