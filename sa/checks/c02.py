"""C02 — every computed line equals what the official form instructs for it."""
import os
import re

from ..instr import parse, Instr
from ..interp import Rec
from ..lineabs import E
from ..linform import Lin, lin_of, NonLinear, atom, max0, minof, maxof, show_term
from ..lines import get_analysis, load_data, DATA
from ..pdfx import load_template
from ..src import AnalysisError
from .c08 import status_table

BLANK = (None, 0, 0.0, False, '')


def is_amount_line(rec):
    t = getattr(rec.attrs.get('_type'), 'name', None)
    return t in ('float', 'int')


def zero_lines(an, year):
    """lines whose every returning path yields a blank/zero constant (gated,
    unimplemented lines): they contribute 0 wherever they are read"""
    out = set()
    for d in an.defs.values():
        if d.year != year or not is_amount_line(d.rec):
            continue
        rets = [p.outcome.value for p in d.paths if p.outcome.kind == 'ret']
        if rets and all((not isinstance(v, E)) and (v in BLANK) for v in rets):
            out.add(f'v:{d.fr.name}.{d.name}')
    return out


class FormCtx:
    def __init__(self, an, fr, zero):
        self.an = an
        self.fr = fr
        self.zero = zero
        self.fmap = fr.field_map()
        self.order = [r.attrs.get('field_name') for r in (fr.pdf_fields if isinstance(fr.pdf_fields, list) else [])
                      if isinstance(r, Rec) and isinstance(r.attrs.get('field_name'), str) and '.' not in r.attrs.get('field_name')]
        seen = []
        for x in self.order:
            if x not in seen and x in self.fmap and is_amount_line(self.fmap[x]) and re.fullmatch(r'\d{1,2}[a-z]{0,2}', x):
                seen.append(x)
        self.order = seen

    def line_atom(self, label, form=None):
        """Lin for `line <label>` of this form (or another form); None if no such line"""
        if form is None or form == self.fr.form_name:
            if label not in self.fmap:
                return None
            key = f'v:{self.fr.name}.{label}'
        else:
            tfr = self.an.cat.find(self.fr.year, form, self.fr.instance if self.an.cat.find(self.fr.year, form, self.fr.instance) else None)
            if tfr is None:
                key = f'v:{form}.{label}'       # absent form: compared textually
            else:
                if label not in tfr.field_map():
                    return None
                key = f'v:{tfr.name}.{label}'
        if key in self.zero:
            return Lin(0)
        return Lin(0, {('a', key): 1})

    def expand(self, items):
        labels = []
        for it in items:
            if isinstance(it, tuple):
                _, a, b = it
                if a not in self.order or b not in self.order:
                    return None
                i, j = self.order.index(a), self.order.index(b)
                if i > j:
                    return None
                labels.extend(self.order[i:j + 1])
            else:
                labels.append(it)
        return labels


def expected(ins, ctx):
    """-> (Lin | special, note) or (None, reason)"""
    k = ins.kind
    if k == 'rate_capped':
        a, c = ctx.line_atom(ins.a), ctx.line_atom(ins.cap)
        if a is None or c is None:
            return None, 'operand line not implemented'
        return minof([a.scale(ins.rate), c]), None
    if k in ('add', 'addfloor', 'addcap'):
        labels = ctx.expand(ins.items)
        if labels is None:
            return None, 'range end points are not mapped amount lines'
        tot = Lin(0)
        for lb in labels:
            a = ctx.line_atom(lb)
            if a is None:
                return None, f'line {lb} is not implemented'
            tot = tot.add(a)
        if k == 'addcap':
            return minof([tot, Lin(0)]), None
        return (max0(tot) if k == 'addfloor' else tot), None
    if k in ('sub', 'subfloor', 'condsub'):
        a, b = ctx.line_atom(ins.a), ctx.line_atom(ins.b)
        if a is None or b is None:
            return None, 'operand line not implemented'
        d = a.add(b, -1)
        return (max0(d) if k == 'subfloor' else d), None
    if k in ('rate', 'ratefloor'):
        a = ctx.line_atom(ins.a)
        if a is None:
            return None, 'operand line not implemented'
        return (max0(a.scale(ins.rate)) if k == 'ratefloor' else a.scale(ins.rate)), None
    if k == 'amount':
        a = ctx.line_atom(ins.a)
        if a is None:
            return None, 'operand line not implemented'
        return a.scale(ins.amount), None
    if k == 'product':
        a, b = ctx.line_atom(ins.a), ctx.line_atom(ins.b)
        if a is None or b is None or a.single_atom() is None or b.single_atom() is None:
            return None, 'operand line not implemented'
        return Lin(0, {('prod', frozenset([a.single_atom(), b.single_atom()])): 1}), None
    if k in ('smaller', 'larger'):
        a, b = ctx.line_atom(ins.a), ctx.line_atom(ins.b)
        if a is None or b is None:
            return None, 'operand line not implemented'
        return (minof([a, b]) if k == 'smaller' else maxof([a, b])), None
    if k == 'w2sum':
        w2 = ctx.an.cat.find(ctx.fr.year, 'w-2', 0) or ctx.an.cat.find(ctx.fr.year, 'w-2')
        if w2 is None or f'box_{ins.box}' not in w2.field_map():
            return None, f'Form W-2 has no box {ins.box}'
        cnt = E('i', '1040.number_w-2', ty='int')
        body = E('v', 'w-2:{n}.box_' + ins.box, ty='float')
        return lin_of(E('sumn', cnt, E('idx', 'n', cnt, ty='int'), body, ty='float')), None
    if k == 'addlisting':
        names = sorted((n for n in ctx.fmap if re.fullmatch(re.escape(ins.a) + r'_amount_\d+', n)), key=lambda n: int(n.rsplit('_', 1)[1]))
        if not names:
            return None, f'no listing lines {ins.a}_amount_<k>'
        tot = Lin(0)
        for n in names:
            a = ctx.line_atom(n)
            if a is None:
                return None, f'line {n} is not implemented'
            tot = tot.add(a)
        return tot, None
    if k == 'ratio':
        a, b = ctx.line_atom(ins.a), ctx.line_atom(ins.b)
        if a is None or b is None:
            return None, 'operand line not implemented'
        return minof([Lin(1), Lin(0, {('div', (a.freeze(), b.freeze())): 1})]), None
    if k == 'nextmult':
        a, b = ctx.line_atom(ins.a), ctx.line_atom(ins.b)
        if a is None or b is None or a.single_atom() is None or b.single_atom() is None:
            return None, 'operand line not implemented'
        return ('nextmult', a.single_atom()[1], b.single_atom()[1], float(ins.step)), None
    if k == 'copy':
        a = ctx.line_atom(ins.a)
        return (a, None) if a is not None else (None, 'operand line not implemented')
    if k == 'carry':
        a = ctx.line_atom(ins.a, ins.form)
        return (a, None) if a is not None else (None, f'form {ins.form} has no line {ins.a}')
    return None, 'no comparison for this instruction kind'


def path_value(p, zero):
    v = p.outcome.value
    if isinstance(v, E) or isinstance(v, (int, float)) and not isinstance(v, bool):
        return lin_of(v, zero)
    return None


def has_guard(p, small, big):
    """path carries the guard small < big (true)"""
    for (c, pol, _n, _r) in p.guards:
        if isinstance(c, E) and c.op == 'lt':
            try:
                diff = lin_of(c.args[0]).add(lin_of(c.args[1]), -1)
            except NonLinear:
                continue
            # small < big holds, or its non-strict form  not (big < small)
            if (pol and diff == small.add(big, -1)) or (not pol and diff == big.add(small, -1)):
                return True
    return False


def guard_sign(p, expr):
    """'>', '>=', '<', '<=' when a guard of the path says that `expr` (a Lin) has that sign, else None.  A guard a < b says
    k*(b - a) > 0 for every k > 0; its negation says b - a <= 0."""
    from fractions import Fraction
    ef = expr.freeze()
    for (c, pol, _n, _r) in p.guards:
        if not (isinstance(c, E) and c.op == 'lt'):
            continue
        try:
            diff = lin_of(c.args[1]).add(lin_of(c.args[0]), -1)          # b - a  (a < b  <=>  diff > 0)
        except NonLinear:
            continue
        if diff.is_const() or expr.is_const():
            continue
        # expr == k * diff ?
        k = None
        try:
            (t0, c0) = next(iter(diff.terms.items()))
            if t0 in expr.terms:
                k = Fraction(expr.terms[t0]) / Fraction(c0)
        except StopIteration:
            k = None
        if k is None or k == 0:
            continue
        scaled = Lin(diff.const * k, {t_: c_ * k for t_, c_ in diff.terms.items()})
        if scaled != expr:
            continue
        pos = k > 0
        if pol:
            return '>' if pos else '<'
        return '<=' if pos else '>='
    return None


def compare(d, ins, exp, zero, alts=(), floor_ops=None):
    """-> list of mismatch descriptions (empty = agrees)"""
    bad = []
    n_val = 0
    for p in d.paths:
        if p.outcome.kind != 'ret':
            continue
        v = p.outcome.value
        if not isinstance(v, E) and v in BLANK:
            continue          # a definition may restrict when a value is produced
        try:
            got = path_value(p, zero)
        except NonLinear as e:
            bad.append(f'a path returns a value the comparator cannot normalise ({e})')
            continue
        if got is None:
            bad.append(f'a path returns {v!r}')
            continue
        n_val += 1
        if got == exp or repr(got) in alts:
            continue
        # max0(x) written as a guarded subtraction
        if exp.single_atom() is not None and exp.single_atom()[0] == 'max0':
            inner = Lin(exp.single_atom()[1][0], dict(exp.single_atom()[1][1]))
            if got == inner and floor_ops is not None and has_guard(p, floor_ops[1], floor_ops[0]):
                continue          # the floor written as a guarded subtraction: a - b only where a > b
            if got == inner and guard_sign(p, inner) in ('>', '>='):
                continue          # ... or written as `x if <x is positive> else 0` with any test that says so (0 < v for rate * v)
        # min / max written as a comparison: `a if a < b else b`
        sa_ = exp.single_atom()
        if sa_ is not None and sa_[0] in ('min', 'max') and len(sa_[1]) == 2:
            arms = [Lin(c0, dict(ts)) for (c0, ts) in sa_[1]]
            if got in arms:
                other = arms[1] if got == arms[0] else arms[0]
                sgn = guard_sign(p, other.add(got, -1))          # sign of (other - got) on this path
                if (sa_[0] == 'min' and sgn in ('>', '>=')) or (sa_[0] == 'max' and sgn in ('<', '<=')):
                    continue
        # float slack idiom: x + 0.0
        bad.append(f'returns {got!r} where the instruction gives {exp!r}')
    if n_val == 0:
        bad.append('no path of the definition produces a value')
    return bad


def carry_targets(text):
    """'Enter here and on Form 1040, 1040-SR, or 1040-NR, line 8.' -> [('1040', '8')]"""
    from ..instr import clean, form_of, LABEL
    t = clean(text)
    out = []
    for m in re.finditer(r'(?:[Ee]nter|[Ii]nclude)\b[^.]*? on (?:[0-9]{4} )?((?:Form|Schedule) [^.;]*?), line ' + LABEL + r'\b', t):
        if re.search(r'\bincluded on\b', m.group(0)):
            continue
        f = form_of(m.group(1))
        if f:
            out.append((f, m.group(2)))
    return out


def carry_coefficients(an, year, td, src, src_form, depth=0):
    """weights with which the line `src` enters the value paths of the target definition, following lines of the
    source form that merely combine it (e.g. a per-person total); None when not linear"""
    out = []
    for p in td.paths:
        if p.outcome.kind != 'ret':
            continue
        v = p.outcome.value
        if not isinstance(v, E) and v in BLANK:
            continue
        try:
            l = lin_of(v) if isinstance(v, E) or isinstance(v, (int, float)) else None
        except NonLinear:
            return None
        if l is None:
            return None
        c = l.terms.get(('a', src), 0)
        # follow intermediate lines of the source form (one level) that contain the source line
        for (t, w) in l.terms.items():
            if t[0] == 'a' and t[1] != src and t[1].startswith(f'v:{src_form}.') and depth < 2:
                mid = an.defs.get((year, src_form, t[1].split('.', 1)[1]))
                if mid is not None:
                    sub = carry_coefficients(an, year, mid, src, src_form, depth + 1)
                    if sub:
                        c += w * max(sub)
        out.append(c)
    return out


def compare_status_table(cat, year, d, tab, enum):
    """per filing status: every value the definition can return is the amount printed for that status.
    -> list of mismatches, or None when the definition is not a per-status constant (not armed)"""
    from ..lineabs import LineEval, InputsTok, ValuesTok
    from ..formx import field_closure
    bad = []
    for m, want in sorted(tab.items()):
        assume = {'i:1040.filing_status': enum.member(m), 'v:1040.filing_status': enum.member(m)}
        paths = LineEval(cat, year, d.fr, assume=assume).run(field_closure(d.rec), [d.rec, InputsTok(d.fr.rec), ValuesTok(d.fr.rec)])
        vals = [p.outcome.value for p in paths if p.outcome.kind == 'ret']
        if not vals or not all(isinstance(v, (int, float)) and not isinstance(v, bool) for v in vals):
            return None
        for v in vals:
            if float(v) != float(want):
                bad.append(f'gives {float(v):g} for {m} where the box prints {want:g}')
    return bad


def compare_nextmult(d, exp):
    """a - b rounded up to the next multiple of the step, 0 when not positive.  The instruction and any definition
    built from the difference with floor / ceil / floor-division / comparisons are step functions of a - b whose
    breakpoints are multiples of the step (or the cent tolerance around zero): agreement at, just below and just
    above each multiple over a window decides equality in that class.  -> (mismatches, undecided reason)"""
    import math
    from ..termeval import value_at
    _k, a_atom, b_atom, step = exp
    base = 200000.0
    pts = set()
    for k in range(-2, 5):
        for dlt in (-step / 2, -1.0, -0.01, 0.0, 0.01, 1.0, 25.0):
            pts.add(round(k * step + dlt, 2))
    pts |= {123 * step, 123 * step + 0.01, 123 * step - 0.01}
    bad = []
    for r in sorted(pts):
        env = {a_atom: base + r, b_atom: base}
        want = 0.0 if r <= 0 else math.ceil(round(r / step, 9)) * step
        kind, got = value_at(d, env)
        if kind == 'undecided':
            return [], f'definition cannot be evaluated at line difference {r}: {got}'
        if kind == 'raise':
            bad.append(f'produces no value when the difference is {r:g}')
        elif abs(float(got) - want) > 1e-6:
            bad.append(f'gives {float(got):g} when the difference is {r:g}; the instruction gives {want:g}')
        if len(bad) >= 3:
            break
    return bad, None


def check(tree, rep, tier='quick', seed=0):
    rep.explanation = ('Translation validation between two static artifacts: (1) the instruction printed for a line - the accessibility text of the template box '
                       'the line is mapped to (C18 guarantees the mapping), or a cited transcription for the worksheets that have no template - parsed by a '
                       'sentence grammar (add / combine / subtract [floor at zero] / conditional subtract / multiply by rate, amount or line / smaller or larger of / '
                       'copy / carry from a named schedule) and armed only when the whole sentence parses and every operand is an implemented line; (2) the linear '
                       'normal form of every value-returning path of the line definition (abstract interpretation; float()/round() erased; gated unimplemented '
                       'lines count as 0). Every armed line must agree on every path; a definition may only restrict when a value is produced. Carries are also checked from the sending end (R2.7): where a line says "enter here and on Form X, line N", line N of that form takes this line once, unchanged, on the paths that use it (intermediate totals of the sending form are followed).')
    rep.rule_text = 'obligation = one armed (year, form, line) with a fully parsed arithmetic instruction; distinct = distinct (rule, year, form, line)'
    rep.exhaustive = True
    rep.assumptions = ['lines whose instruction is prose, per-payer listings and constants looked up per filing status are not armed (counted); numeric equality on concrete returns is not decided',
                       'worksheet transcriptions in sa/data/worksheets/*.txt are cited from the IRS 1040 instructions (wording from memory of the published worksheets)']
    an = get_analysis(tree)
    cat = an.cat
    exceptions = load_data('c02_exceptions.json')
    n_armed = n_prose = n_unarmed = 0
    kinds = {}
    carries = []
    for y in cat.years:
        zero = zero_lines(an, y)
        f1040 = cat.find(y, '1040')
        fs = f1040.input_map().get('filing_status') if f1040 else None
        status_enum = fs.attrs['enum'] if fs is not None else None
        for fr in cat.forms(y):
            if fr.rec is None:
                continue
            ctx = FormCtx(an, fr, zero)
            sources = []          # (line, text, where)
            if fr.pdf_file and isinstance(fr.pdf_fields, list):
                rel = os.path.relpath(fr.pdf_file, tree.root)
                if tree.exists(rel):
                    tp = load_template(tree, rel)
                    if tp.xfa is not None:
                        seen = set()
                        for r in fr.pdf_fields:
                            line = r.attrs.get('field_name')
                            if not isinstance(line, str) or '.' in line or line in seen or line not in ctx.fmap or not is_amount_line(ctx.fmap[line]):
                                continue
                            x = tp.xfa_for(r.attrs.get('pdf_field_name'))
                            if x is None or not x.speak:
                                continue
                            seen.add(line)
                            sources.append((line, x.speak, r.where))
            wk = os.path.join(DATA, 'worksheets', f'{fr.form_name}.txt')
            if os.path.exists(wk):
                for ln in open(wk, encoding='utf-8'):
                    ln = ln.rstrip('\n')
                    if not ln or ln.startswith('#'):
                        continue
                    parts = ln.split('\t')
                    yrs, line, text = parts[0], parts[1], parts[2]
                    if yrs != '*' and str(y) not in yrs.split(','):
                        continue
                    if line in ctx.fmap:
                        sources.append((line, text, f'sa/data/worksheets/{fr.form_name}.txt'))
            for line, text, where in sources:
                for (tform, tline) in carry_targets(text):
                    carries.append((y, fr, line, tform, tline, text, where))
                ins = parse(text)
                key = f'{y}/{fr.name}.{line}'
                if ins is None and re.search(r'Enter the (?:following )?amount (?:shown below )?for your filing status', text):
                    # a table "filing status - amount" printed in the box: the line must yield, for each status, the amount printed for it
                    tab = status_table(text, list(status_enum.members)) if status_enum is not None else None
                    d = an.defs.get((y, fr.name, line))
                    if tab and d is not None:
                        bad = compare_status_table(cat, y, d, tab, status_enum)
                        if bad is not None:
                            n_armed += 1
                            kinds['statustable'] = kinds.get('statustable', 0) + 1
                            rep.ob('R2', key, not bad, f'{y} {fr.name} line {line}: the form says "{_short(text)}" but the definition {"; ".join(bad[:2])}', d.where,
                                   sample={'line': key, 'instruction': _short(text), 'parsed': 'status table ' + repr(tab)})
                            continue
                if ins is None:
                    n_prose += 1
                    continue
                exp, why = expected(ins, ctx)
                if exp is None:
                    n_unarmed += 1
                    rep.undecide(f'{key}: "{text[:60]}" not armed: {why}')
                    continue
                d = an.defs.get((y, fr.name, line))
                if d is None:
                    continue
                if all(p.outcome.kind == 'raise' for p in d.paths) or f'v:{fr.name}.{line}' in zero:
                    n_unarmed += 1
                    continue      # unimplemented (gated) line
                n_armed += 1
                kinds[ins.kind] = kinds.get(ins.kind, 0) + 1
                alts = []
                for ex in exceptions:
                    if ex['form'] == fr.form_name and ex['line'] == line and (not ex.get('years') or y in ex['years']):
                        alts.append(ex['alt'].replace('{form}', fr.name))
                floor_ops = (ctx.line_atom(ins.a), ctx.line_atom(ins.b)) if ins.kind == 'subfloor' else None
                if ins.kind == 'nextmult':
                    bad, und = compare_nextmult(d, exp)
                    if und:
                        n_armed -= 1
                        rep.undecide(f'{key}: "{text[:60]}" not decided: {und}')
                        continue
                else:
                    bad = compare(d, ins, exp, zero, alts, floor_ops)
                if ins.kind == 'condsub' and not bad:
                    a, b = ctx.line_atom(ins.a), ctx.line_atom(ins.b)
                    for p in d.paths:
                        if p.outcome.kind == 'ret' and isinstance(p.outcome.value, E) and not has_guard(p, b, a):
                            bad.append(f'the subtraction is not restricted to the case line {ins.a} > line {ins.b}')
                rep.ob('R2', key, not bad,
                       f'{y} {fr.name} line {line}: the form says "{_short(text)}" ({ins!r}) but the definition {"; ".join(bad[:2])}', d.where,
                       sample={'line': key, 'instruction': _short(text), 'parsed': repr(ins), 'expected': repr(exp)})
    # a threshold looked up for one form or status is never the one resolved for another (premise shared with C08 / C17)
    from ..core import get_core
    from .. import corerules as R
    R.k28_threshold_lookup_pure(get_core(tree), rep)
    R.k21_typed_values(get_core(tree), rep)      # the amount a line shows is its definition's answer rounded to the line's places by round(): nothing else rounds
    from ..linerules import l2c_generators_consumed_once
    l2c_generators_consumed_once(tree, rep)      # an aggregate over an already consumed generator adds nothing: operands silently missing
    from ..linerules import l3_lines_are_read_not_recomputed
    l3_lines_are_read_not_recomputed(tree, rep)
    from ..linerules import l5_widened_flags_read_through_their_line
    l5_widened_flags_read_through_their_line(tree, rep)
    year_siblings(an, rep)
    # ---- R2.7 "enter here and on Form X, line N": the named line of the other form carries this line (both ends equal)
    n_carry = 0
    for (y, fr, line, tform, tline, text, where) in carries:
        tfr = cat.find(y, tform)
        if tfr is None or tfr.rec is None:
            continue          # the other form is not implemented (C10 decides what a reference to it does)
        td = an.defs.get((y, tfr.name, tline))
        key = f'{y}/{fr.name}.{line}->{tfr.name}.{tline}'
        if td is None:
            rep.ob('R2.7', key, False, f'{y} {fr.name} line {line} says "{_short(text)}" but {tfr.name} has no line {tline}', where)
            continue
        if f'v:{tfr.name}.{tline}' in zero_lines(an, y) or all(p.outcome.kind == 'raise' for p in td.paths):
            continue          # gated / unimplemented target
        src = f'v:{fr.name}.{line}'
        coeffs = carry_coefficients(an, y, td, src, fr.name)
        if coeffs is None:
            rep.undecide(f'{key}: target definition is not linear in the carried line')
            continue
        n_carry += 1
        ok = 1 in coeffs and all(c in (0, 1) for c in coeffs)
        rep.ob('R2.7', key, ok,
               f'{y} {fr.name} line {line} says "{_short(text)}" but {tfr.name} line {tline} takes it with weight(s) {sorted(set(float(c) for c in coeffs))} '
               f'(it must enter once, unchanged, on the paths that use it): the two ends of the carry differ', td.where,
               sample={'source': f'{fr.name}.{line}', 'target': f'{tfr.name}.{tline}'})
    rep.floor('carry statements (enter here and on ...) checked at the receiving line', n_carry, 35)
    # ---- R2.5 amounts carried for the taxpayer and for the spouse come from their own copies (sibling symmetry, shared with C16)
    from ..symmetry import atom_symmetry
    sym_exc = {e['line'] for e in load_data('symmetry_exceptions.json')}
    n_sym = 0
    for d in an.defs.values():
        if d.fr.instance == 'spouse':
            continue
        other = an.defs.get((d.year, d.fr.name.replace(':you', ':spouse'), d.name)) if d.fr.instance == 'you' else None
        r = atom_symmetry(d, other)
        if r is None:
            continue
        n_sym += 1
        ok, missing = r
        if f'{d.fr.name}.{d.name}' in sym_exc:
            ok = True
        rep.ob('R2.5', d.key, ok, f'{d.key} carries amounts for taxpayer and spouse in parallel but reads no counterpart for {missing[:3]}: one of the two gets the other\'s amount', d.where)
    rep.floor('definitions checked for taxpayer/spouse symmetry', n_sym, 100)
    rep.floor('armed instructions', n_armed, 250)
    rep.count('prose instructions (not armed)', n_prose)
    rep.count('parsed but not armed (operand not implemented / gated line)', n_unarmed)
    rep.count('armed by kind', kinds)


def _short(t):
    t = ' '.join(t.split())
    return t if len(t) < 110 else t[:107] + '...'



def year_siblings(an, rep, rule='R2.9', refusing_only=False, floor=650):
    """R2.9 - years whose definitions of a line agreed on the baseline (sa/siblings.py, sa/data/year_siblings.json) still
    agree: the sibling years are each other's reference for what the line computes."""
    from ..siblings import signature, mirrors
    frozen = load_data('year_siblings.json')['classes']
    mir = mirrors(an)
    n = 0
    for key, groups in sorted(frozen.items()):
        fname, _, lname = key.rpartition('.')
        for grp in groups:
            if len(grp) < 2:
                continue
            sigs = {}
            for y in grp:
                d = an.defs.get((y, fname, lname))
                if d is not None:
                    sigs[y] = signature(d, mir)
                    if refusing_only:      # C09 judges only how a refusing line walks the copies (a `break` leaves later copies untested);
                        sg = sigs[y]       # WHETHER this line refuses is R9.1/R9.2's business - another reader may refuse in its place
                        sigs[y] = ((), False, (), (), tuple(e for e in sg[4] if e != 'collapse'), ())   # a set over the copies loses amounts, not tests
            if len(sigs) < 2:
                continue
            if refusing_only and not any(signature(an.defs[(y, fname, lname)], mir)[1] for y in sigs):
                continue
            n += 1
            distinct = {}
            for y, sg in sigs.items():
                distinct.setdefault(sg, []).append(y)
            if len(distinct) == 1:
                rep.ob(rule, f'{key}/{"+".join(map(str, grp))}', True)
                continue
            # the odd one out is the smallest class (ties: the latest year)
            odd_sig, odd_years = sorted(distinct.items(), key=lambda kv: (len(kv[1]), -max(kv[1])))[0]
            ref_sig, ref_years = sorted(distinct.items(), key=lambda kv: (-len(kv[1]), min(kv[1])))[0]
            only_odd = [' + '.join(c) for c in sorted(set(odd_sig[0]) - set(ref_sig[0]))[:2]]
            only_ref = [' + '.join(c) for c in sorted(set(ref_sig[0]) - set(odd_sig[0]))[:2]]
            reads_odd = sorted(set(odd_sig[2]) - set(ref_sig[2]))[:3]
            reads_ref = sorted(set(ref_sig[2]) - set(odd_sig[2]))[:3]
            if odd_sig[1] != ref_sig[1]:
                only_odd.append('<refuses>' if odd_sig[1] else '<never refuses>')
            def gate_text(gs):
                return [f"{a} counted when " + ' and '.join(('' if pol else 'not ') + t for t, pol in u) for a, u in gs][:3]
            gates_odd = gate_text(sorted(set(odd_sig[3]) - set(ref_sig[3])))
            gates_ref = gate_text(sorted(set(ref_sig[3]) - set(odd_sig[3])))
            how_odd = sorted(set(odd_sig[4]) - set(ref_sig[4]))
            how_ref = sorted(set(ref_sig[4]) - set(odd_sig[4]))
            def when_text(ws):
                return [f'a refusal depends on {t}' + ({'True': ' being affirmative', 'False': ' being negative'}.get(pol, '')) for t, pol in ws][:3]
            gates_odd += when_text(sorted(set(odd_sig[5]) - set(ref_sig[5])))
            gates_ref += when_text(sorted(set(ref_sig[5]) - set(odd_sig[5])))
            d = an.defs[(odd_years[0], fname, lname)]
            tie = len(odd_years) == len(ref_years)
            head = (f'{key}: the definitions of {sorted(odd_years + ref_years)} no longer compute the same thing (they agreed on the baseline; one of them was edited alone). '
                    if tie else
                    f'{key}: the {odd_years} definition no longer computes what its sibling years {ref_years} compute (they agreed on the baseline). ')
            rep.ob(rule, f'{key}/{"+".join(map(str, grp))}', False,
                   head + f'Only in {odd_years}: answers made of {only_odd}, reads {reads_odd}, conditions {gates_odd}, loop shape {how_odd}; '
                   f'only in {ref_years}: answers made of {only_ref}, reads {reads_ref}, conditions {gates_ref}, loop shape {how_ref}', d.where)
    rep.floor('(line, class of sibling years) pairs compared', n, floor)
    return n


def regenerate_siblings():
    """Developer helper (never used by a check): rewrite sa/data/year_siblings.json from the current tree."""
    import json
    from ..src import Tree
    from ..siblings import classes
    an = get_analysis(Tree())
    json.dump({'comment': 'classes of tax years in which form.line has the same order-free signature (sa/siblings.py) on the confirmed baseline; '
                          'regenerate with sa.checks.c02.regenerate_siblings() after reading a deliberate change', 'classes': classes(an)},
              open(os.path.join(DATA, 'year_siblings.json'), 'w'), indent=0, sort_keys=True)
