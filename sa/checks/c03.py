"""C03 — every value is a fixed point of its definition (premises P1-P3)."""
from ..core import get_core
from .. import corerules as R
from ..linerules import l1_access, l2_effects, l2b_shared_iterators, l2c_generators_consumed_once


def check(tree, rep, tier='quick', seed=0):
    rep.explanation = ('The fixed-point property follows from three premises, each decided structurally: P1 line definitions are pure '
                       'functions of what they read through i[...]/v[...] (L1 access discipline + L2 effect analysis over all paths of all '
                       '2 400 definitions and the module-level helpers); P2 a read of an absent key aborts the attempt before anything is stored '
                       '(K7 on ValueStore/FormAccessor, K11 on InputStore, K6 store-after-call in the same try); P3 both stores only grow during '
                       'a solve and a stored value is never rewritten (K6 single writer, no mutators; K8 inputs written only for the prompted '
                       'missing input; K21b rounding is part of the stored value).')
    rep.rule_text = 'obligation = one rule instance (L1 L2 K6 K7 K8 K21b) on one construct; P1 is decided for the shipped definitions only'
    rep.exhaustive = True
    rep.assumptions = ['argument in prose in DESIGN.md §3 C03: P1 and P2 and P3 imply that each stored value equals its definition on the final stores',
                       'NOT decided: arbitrary generated form programs (P1 is a property of each program); evaluation-order independence additionally needs C06']
    core = get_core(tree)
    R.k0_solve_shape(core, rep)          # every requested form is known before the first line is attempted
    R.k41_definitions_keep_no_memory(core, rep)   # a form / line / input object answers from what it was built with, not from what it was asked before
    l1_access(tree, rep)
    l2_effects(tree, rep)
    l2b_shared_iterators(tree, rep)
    l2c_generators_consumed_once(tree, rep)
    from ..linerules import l6_iterated_sequences_are_not_edited
    l6_iterated_sequences_are_not_edited(tree, rep)
    from ..linerules import l3_lines_are_read_not_recomputed
    l3_lines_are_read_not_recomputed(tree, rep)
    from .c17 import one_definition_per_name, get_catalogue
    one_definition_per_name(get_catalogue(tree), rep)
    R.k12c_who_calls(core, rep)          # lines are evaluated only from the work-list loop (never between two answers of a round)
    R.k6_single_value_writer(core, rep)
    R.k7_missing_key_raises(core, rep)
    R.k22_solution_agreement(core, rep)  # the solution text is the stored value, written verbatim (what the user reads as the line's value)
    R.k14_solution_lists_all(core, rep)  # a partial solution is what was computed, all of it: nothing a reported line was computed from is left out
    R.k22f_solution_written_unfiltered(core, rep)   # the file holds this run's solution, not a union with an earlier run's
    R.k16_determinism(core, rep, extra_modules=[rel for y in tree.years() for rel in tree.form_modules(y)])   # re-evaluating a definition gives the same value in every run (no set order, clock, hash)
    R.k8_input_store_writes(core, rep)
    R.k11_input_gate(core, rep)
    R.k21_typed_values(core, rep)
    rep.floor('core rule obligations', sum(v[0] for k, v in rep.rules.items() if k.startswith('K')), 40)
