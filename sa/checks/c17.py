"""C17 — each year's catalogue is consistent; status lookups are total."""
import ast

from ..formx import Catalogue, has_unknown, field_closure
from ..interp import ClassV, EnumMember, EnumV, Rec, Unknown, DictKeyUnknown
from ..src import AnalysisError, unparse

RESERVED_SECTIONS = {'habutax', 'default'}
BAD_NAME_CHARS = '.=:#;[]\n\r%'


def get_catalogue(tree):
    if not hasattr(tree, '_catalogue'):
        tree._catalogue = Catalogue(tree)
    return tree._catalogue


def name_problems(name):
    probs = []
    if not isinstance(name, str):
        return [f'name is not a string: {name!r}']
    if name != name.lower():
        probs.append('not lower-case (ConfigParser lower-cases option names; the PDF filler looks lines up by the lower-cased key)')
    if name != name.strip() or name == '':
        probs.append('empty or surrounded by white space')
    bad = sorted({c for c in name if c in BAD_NAME_CHARS})
    if bad:
        probs.append(f'contains {bad!r} (breaks the name.qualification / INI syntax)')
    if name[:1] in '#;':
        probs.append('starts with a comment character')
    return probs


def check(tree, rep, tier='quick', seed=0):
    rep.explanation = ('Static evaluation of every form class constructor of every year (for each allowed instance) into a '
                       'catalogue; rules R17.1-R17.6 of DESIGN.md are then checked exhaustively over classes, names and '
                       '(threshold table, filing status) pairs. Nothing is executed.')
    rep.rule_text = ('one obligation per (rule, year, class/instance/name/table x status); distinct = distinct (rule, key) pairs')
    rep.exhaustive = True
    rep.assumptions = ['the constructor evaluator (sa/interp.py) models the constructor subset exactly; anything unmodelled is an analysis error',
                       'list-forms / list-form-inputs output layout itself is not analysed, only the names and metadata they print']
    cat = get_catalogue(tree)
    ip = cat.interp
    years = cat.years
    if len(years) < 3:
        rep.error(f'expected at least three tax years, found {years}')

    # ---- R17.1 package wiring
    top = 'habutax/forms/__init__.py'
    v, found = ip.ns_lookup(ip.module_ns(top), 'available_forms', top)
    if not found or not isinstance(v, dict):
        raise AnalysisError(f'{top}: available_forms is not a statically known dict')
    for y, lst in v.items():
        ok = isinstance(y, int) and y in cat.classes and lst is cat.classes[y]
        rep.ob('R17.1', f'year-map/{y}', ok,
               f'habutax.forms.available_forms[{y}] is not habutax.forms.ty{y}.available_forms', top)
    for y in years:
        rep.ob('R17.1', f'year-listed/{y}', y in v, f'ty{y} package exists but is not in habutax.forms.available_forms', top)
        listed = cat.classes[y]
        pkg = f'habutax/forms/ty{y}/'
        for cls in listed:
            rep.ob('R17.1', f'{y}/{cls.name}/own-package', cls.rel.startswith(pkg),
                   f'class {cls.name} listed for {y} is defined in {cls.rel}', f'{pkg}__init__.py')
        # orphans: form classes defined in the directory but not listed
        for rel in tree.form_modules(y):
            ns = ip.module_ns(rel)
            for n in tree.module(rel).body:
                if isinstance(n, ast.ClassDef):
                    c = ns.get(n.name)
                    if isinstance(c, ClassV) and c.is_sub_named('Form'):
                        rep.ob('R17.1', f'{y}/{n.name}/listed', any(c is x for x in listed),
                               f'form class {n.name} is defined in {rel} but not in ty{y}.available_forms', f'{rel}:{n.lineno}')
        dup = {c.name for c in listed if sum(1 for x in listed if x is c) > 1}
        rep.ob('R17.1', f'{y}/no-duplicate-class', not dup, f'classes listed twice: {sorted(dup)}', f'{pkg}__init__.py')

    # ---- per class
    jur = None
    fv, ffound = ip.ns_lookup(ip.module_ns('habutax/form.py'), 'Jurisdiction', 'habutax/form.py')
    if isinstance(fv, ClassV) and fv.is_enum():
        jur = ip.class_enum(fv)
    else:
        raise AnalysisError('habutax/form.py: Jurisdiction enum not found')
    n_classes = n_inst = n_names = 0
    status_enum = {}
    for y in years:
        seen_names = {}
        for cls in cat.classes[y]:
            n_classes += 1
            frs = [f for f in cat.forms(y) if f.cls is cls]
            a = frs[0].class_attrs
            key = f'{y}/{cls.name}'
            where = f'{cls.rel}:{cls.node.lineno}'
            rep.ob('R17.2', f'{key}/tax_year', a.get('tax_year') == y,
                   f'class {cls.name} in ty{y} declares tax_year = {a.get("tax_year")!r}', where)
            fn = a.get('form_name')
            ok = isinstance(fn, str) and fn != '' and not any(c in fn for c in '.:[]\n\r=#;%') and fn == fn.strip() \
                and fn.lower() not in RESERVED_SECTIONS
            rep.ob('R17.2', f'{key}/form_name', ok, f'form_name {fn!r} is missing, reserved or contains a character that breaks section/qualified names', where)
            if isinstance(fn, str):
                rep.ob('R17.2', f'{key}/form_name-unique', fn.lower() not in seen_names,
                       f'form_name {fn!r} is also used by {seen_names.get(fn.lower())}', where)
                seen_names.setdefault(fn.lower(), cls.name)
            for attr in ('description', 'long_description'):
                val = a.get(attr)
                rep.ob('R17.2', f'{key}/{attr}', isinstance(val, str) and val.strip() != '' and '\n' not in val,
                       f'{attr} missing or not a one-line string ({val!r}); list-forms prints it', where)
            j = a.get('jurisdiction')
            rep.ob('R17.2', f'{key}/jurisdiction', isinstance(j, EnumMember) and j.enum is jur,
                   f'jurisdiction is {j!r}, not a member of form.Jurisdiction', where)
            vi = a.get('valid_instances')
            if vi is not None:
                ok = isinstance(vi, list) and vi and all(isinstance(x, str) and x and not any(c in x for c in '.:[]\n=') for x in vi) \
                    and len(set(vi)) == len(vi)
                rep.ob('R17.2', f'{key}/valid_instances', ok, f'valid_instances {vi!r} is not a duplicate-free list of plain names', where)
            # R17.3 instantiable
            for fr in frs:
                n_inst += 1
                ikey = f'{y}/{fr.name}'
                if fr.abort is not None:
                    e = fr.abort
                    if e.kind.startswith(('undecided', 'unmodelled')):
                        raise AnalysisError(f'constructor of {ikey} not evaluable: {e}')
                    rep.ob('R17.3', f'{ikey}/instantiable', False,
                           f'constructing {cls.name}(instance={fr.instance!r}) fails: {e.kind} {e.msg}', f'{e.rel}:{getattr(e.node, "lineno", 0)}')
                    continue
                rep.ob('R17.3', f'{ikey}/instantiable', True, where=where)
                for tab in ('_inputs', '_required_fields', '_optional_fields', '_pdf_fields', '_thresholds', '_pdf_file', '_name'):
                    if tab not in fr.rec.attrs:
                        raise AnalysisError(f'{ikey}: Form constructor did not set {tab} (core Form.__init__ changed shape?)')
                    u = has_unknown(fr.rec.attrs[tab])
                    if u is not None:
                        raise AnalysisError(f'{ikey}: table {tab} contains a value the evaluator cannot determine: {getattr(u, "reason", u)}')
                # R17.4 names
                seen_i = {}
                for r in fr.inputs:
                    if not (isinstance(r, Rec) and r.cls.is_sub_named('Input')):
                        rep.ob('R17.4', f'{ikey}/inputs-are-inputs', False, f'inputs table holds {r!r}', where)
                        continue
                    nm = r.attrs.get('_name')
                    n_names += 1
                    probs = name_problems(nm)
                    rep.ob('R17.4', f'{ikey}/i:{nm}/wellformed', not probs, f'input name {nm!r}: ' + '; '.join(probs), r.where)
                    lk = nm.lower() if isinstance(nm, str) else nm
                    rep.ob('R17.4', f'{ikey}/i:{nm}/unique', lk not in seen_i,
                           f'input {nm!r} declared twice in {fr.name} (first at {seen_i.get(lk)})', r.where)
                    seen_i.setdefault(lk, r.where)
                    # the options of an input have the kinds its class expects (a description passed in the position of
                    # allow_empty makes every blank answer valid and loses the help text the commands print)
                    desc = r.attrs.get('_description')
                    rep.ob('R17.8', f'{ikey}/i:{nm}/description-is-text', isinstance(desc, str) and desc.strip() != '',
                           f'input {nm!r} of {fr.name}: the help text is {desc!r}', r.where)
                    # what the template and the prompt print for this input exists: the class (or a class it extends,
                    # short of the raising stubs of Input itself) implements format_suggestion() and value()
                    for meth in ('format_suggestion', 'value'):
                        mc, mnode = r.cls.find_method(meth)
                        stub = mnode is None or (mc.name == 'Input' and any(isinstance(x, ast.Raise) for x in ast.walk(mnode)))
                        rep.ob('R17.8', f'{ikey}/i:{nm}/{meth}-implemented', not stub,
                               f'input {nm!r} of {fr.name} is a {r.cls.name}, which inherits the raising stub Input.{meth}(): list-form-inputs {fr.name} and the prompt for this input '
                               'end in NotImplementedError instead of printing the template / the question', r.where)
                    if 'allow_empty' in r.attrs:
                        ae = r.attrs.get('allow_empty')
                        rep.ob('R17.8', f'{ikey}/i:{nm}/allow_empty-is-a-flag', isinstance(ae, bool),
                               f'input {nm!r} of {fr.name}: allow_empty is {ae!r} (an argument landed in the wrong position): any non-empty value there makes a blank answer '
                               'valid, so the line receives None instead of a member of its enumeration', r.where)
                seen_f = {}
                for r in fr.fields:
                    if not (isinstance(r, Rec) and r.cls.is_sub_named('Field')):
                        rep.ob('R17.4', f'{ikey}/fields-are-fields', False, f'fields table holds {r!r}', where)
                        continue
                    nm = r.attrs.get('_name')
                    n_names += 1
                    probs = name_problems(nm)
                    rep.ob('R17.4', f'{ikey}/v:{nm}/wellformed', not probs, f'line name {nm!r}: ' + '; '.join(probs), r.where)
                    lk = nm.lower() if isinstance(nm, str) else nm
                    rep.ob('R17.4', f'{ikey}/v:{nm}/unique', lk not in seen_f,
                           f'line {nm!r} declared twice in {fr.name} (first at {seen_f.get(lk)})', r.where)
                    seen_f.setdefault(lk, r.where)
                    if field_closure(r) is None:
                        raise AnalysisError(f'{ikey}.{nm}: no value function recovered for this line')
                # R17.6 / R17.5 : status enum of this year
                if fr.form_name == '1040':
                    fs = fr.input_map().get('filing_status')
                    if fs is None or not isinstance(fs.attrs.get('enum'), EnumV):
                        raise AnalysisError(f'{ikey}: filing_status enum input not found')
                    status_enum[y] = fs.attrs['enum']
                    rep.ob('R17.6', f'{y}/filing-status-has-five', len(status_enum[y].members) == 5,
                           f'filing status enum of {y} has members {status_enum[y].members}', fs.where)
    from ..core import get_core
    from .. import corerules as R
    R.k25_list_form_inputs(get_core(tree), rep)
    R.k25b_list_forms_prints_names_whole(get_core(tree), rep)
    R.k28_threshold_lookup_pure(get_core(tree), rep)
    # ---- R17.7 every input / line / mapping object belongs to exactly one form instance
    shared_rule(cat, rep)
    # ---- R17.5 threshold tables
    n_tables = n_pairs = 0
    for y in years:
        senum = status_enum.get(y)
        if senum is None:
            raise AnalysisError(f'{y}: no Form 1040 / filing status enum')
        for fr in cat.forms(y):
            if fr.rec is None:
                continue
            th = fr.thresholds
            if not isinstance(th, dict):
                rep.ob('R17.5', f'{y}/{fr.name}/thresholds-is-dict', False, f'thresholds is {type(th).__name__}', fr.where)
                continue
            for tname, tv in th.items():
                tkey = f'{y}/{fr.name}/threshold:{tname}'
                if not isinstance(tname, str):
                    rep.ob('R17.5', tkey + '/name', False, f'threshold name {tname!r} is not a string', fr.where)
                    continue
                if not isinstance(tv, dict):
                    rep.ob('R17.5', tkey + '/scalar', isinstance(tv, (int, float)) and not isinstance(tv, bool),
                           f'scalar threshold {tname} is {tv!r}', fr.where)
                    continue
                n_tables += 1
                # flatten keys
                members = []
                enums = set()
                bad = []
                for k in tv.keys():
                    ks = k if isinstance(k, tuple) else (k,)
                    for m in ks:
                        if isinstance(m, EnumMember):
                            members.append(m)
                            enums.add(id(m.enum))
                        else:
                            bad.append(m)
                if bad or not members:
                    rep.ob('R17.5', tkey + '/keys', False, f'table {tname} has keys that are not enumeration members: {bad!r}', fr.where)
                    continue
                e = members[0].enum
                rep.ob('R17.5', tkey + '/one-enum', len(enums) == 1, f'table {tname} mixes members of different enumerations', fr.where)
                if e.members == senum.members or e is senum or e.title == senum.title:
                    rep.ob('R17.6', tkey + '/keyed-by-year-status-enum', e is senum,
                           f'table {tname} is keyed by {e!r} but the {y} Form 1040 filing_status input uses {senum!r}: lookups never match', fr.where)
                for mname in e.members:
                    m = e.member(mname)
                    n_pairs += 1
                    hits = [k for k in tv.keys() if (m in k if isinstance(k, tuple) else k == m)]
                    rep.ob('R17.5', f'{tkey}/{mname}', len(hits) == 1,
                           (f'table {tname} has no entry for {m}' if not hits else f'table {tname} has {len(hits)} entries matching {m} (first match silently wins)'),
                           fr.where, sample={'table': tname, 'status': mname, 'value': tv[hits[0]] if len(hits) == 1 else None})
                for k, val in tv.items():
                    rep.ob('R17.5', f'{tkey}/value:{_kname(k)}', isinstance(val, (int, float)) and not isinstance(val, bool),
                           f'table {tname}[{_kname(k)}] = {val!r} is not a number', fr.where)
    # 2021/2022 inline status switches are checked by the PE engine
    try:
        from . import c17_switches
        c17_switches.check(tree, rep, cat, status_enum)
    except ImportError:
        rep.undecide('inline filing-status switches of 2021/2022 (PE engine not built yet)')
    rep.floor('years', len(years), 3)
    rep.floor('form classes', n_classes, 63)
    rep.floor('(class, instance) constructed', n_inst, 68)
    rep.floor('input and line names', n_names, 3300)
    rep.floor('threshold tables keyed by status', n_tables, 15)
    rep.count('(table, status) pairs', n_pairs)


def input_options_rule(cat, rep, rule='R17.8'):
    """allow_empty of every catalogued input is a real flag (see R17.8 in check())"""
    n = 0
    for y in cat.years:
        for fr in cat.forms(y):
            if fr.rec is None:
                continue
            for r in fr.inputs:
                if isinstance(r, Rec) and 'allow_empty' in r.attrs:
                    n += 1
                    ae = r.attrs.get('allow_empty')
                    nm = r.attrs.get('_name')
                    rep.ob(rule, f'{y}/{fr.name}/i:{nm}/allow_empty-is-a-flag', isinstance(ae, bool),
                           f'input {nm!r} of {fr.name}: allow_empty is {ae!r} (an argument landed in the wrong position): any non-empty value there makes a blank answer '
                           'valid, so the line receives None instead of a member of its enumeration', r.where)
    rep.floor('enumeration inputs whose allow_empty flag was checked', n, 50)


def shared_rule(cat, rep, rule='R17.7'):
    n = 0
    for y in cat.years:
        owner = {}
        for fr in cat.forms(y):
            if fr.rec is None:
                continue
            for table, what in ((fr.inputs, 'input'), (fr.fields, 'line'), (fr.pdf_fields if isinstance(fr.pdf_fields, list) else [], 'PDF mapping')):
                for r in table:
                    if not isinstance(r, Rec):
                        continue
                    n += 1
                    nm = r.attrs.get('_name', r.attrs.get('pdf_field_name'))
                    prev = owner.get(id(r))
                    ok = prev is None
                    if what != 'PDF mapping' and ok:
                        ok = r.attrs.get('_form') is fr.rec
                    rep.ob(rule, f'{y}/{fr.name}/{what}:{nm}/own-object', ok,
                           f'the {what} object {nm!r} of {fr.name} is shared with {prev or "another form instance"} (created once, e.g. at module level): '
                           f'the instance built last rebinds it, the other silently loses the line - the result then depends on the order in which forms are added', r.where)
                    owner.setdefault(id(r), fr.name)
    # a second copy of the same class (w-2:1 next to w-2:0; the same form in a second Solver of the same process) must be
    # built from objects of its own: an input or line object created once per class or module is re-bound by whichever
    # copy is built last, and the earlier copy then reads and names the later copy's section
    from ..formx import _root_scope, SolverTok
    from ..interp import InterpAbort
    ip = cat.interp
    n2 = 0
    for y in cat.years:
        for fr in cat.forms(y):
            if fr.rec is None:
                continue
            try:
                twin = ip.instantiate(fr.cls, [], {'instance': fr.instance if fr.instance is not None else '1', 'solver': SolverTok()}, fr.cls.node, _root_scope(ip, fr.cls.rel))
            except InterpAbort as e:
                if e.kind.startswith(('unmodelled', 'undecided')):
                    rep.error(f'{y}/{fr.name}: the second copy could not be evaluated ({e.kind}: {e.msg}); object sharing between copies is not decided')
                    continue
                rep.ob(rule, f'{y}/{fr.name}/second-copy-can-be-built', False,
                       f'{fr.cls.name}(instance={fr.instance!r}) can be built once but not a second time in the same process ({e.kind}: {e.msg}): building a copy changes something '
                       'shared by the class (for instance the list of allowed instances), so solve followed by fill-pdfs, or a second return, fails', fr.where)
                continue
            mine = {id(r): r for table in (fr.inputs, fr.fields) for r in table if isinstance(r, Rec)}
            for attr in ('_inputs', '_required_fields', '_optional_fields', '_fields'):
                tv = twin.attrs.get(attr)
                for r in (tv.values() if isinstance(tv, dict) else tv if isinstance(tv, list) else []):
                    if not isinstance(r, Rec):
                        continue
                    n2 += 1
                    if id(r) in mine:
                        nm = r.attrs.get('_name')
                        rep.ob(rule, f'{y}/{fr.form_name}/{nm}/fresh-object-per-copy', False,
                               f'the object of {fr.form_name}.{nm} is created once and handed to every copy of the form (class or module level list): the copy built last re-binds it, '
                               f'so an earlier copy reads, names and reports the later copy\'s section', r.where)
    rep.ob(rule, 'copies-of-a-form-share-no-input-or-line-object', True)
    rep.count('objects checked for single ownership', n)
    rep.count('objects of a second copy compared with the first', n2)


def _kname(k):
    if isinstance(k, tuple):
        return '+'.join(getattr(m, 'name', repr(m)) for m in k)
    return getattr(k, 'name', repr(k))


def one_definition_per_name(cat, rep, rule='R17.4u'):
    """every input and every line name is declared once per form instance: two definitions under one name are both
    evaluated and the later one overwrites the stored value of the earlier (premise of C03 and C05 as well)"""
    n = 0
    for y in cat.years:
        for fr in cat.forms(y):
            if fr.rec is None:
                continue
            for kind, recs in (('i', fr.inputs), ('v', fr.fields)):
                seen = {}
                for r in recs:
                    nm = getattr(r, 'attrs', {}).get('_name') if hasattr(r, 'attrs') else None
                    if not isinstance(nm, str):
                        continue
                    n += 1
                    lk = nm.lower()
                    rep.ob(rule, f'{y}/{fr.name}/{kind}:{nm}/unique', lk not in seen,
                           f'{"input" if kind == "i" else "line"} {nm!r} is declared twice in {fr.name} (first at {seen.get(lk)}): both definitions are evaluated and the later overwrites the earlier', r.where)
                    seen.setdefault(lk, r.where)
    return n
