"""C01 — no silent success (structural clauses)."""
from ..core import get_core
from .. import corerules as R
from ..linerules import l1_access, lines_with_try


def check(tree, rep, tier='quick', seed=0):
    rep.explanation = ('Protocol rules on the control-flow graphs of the core: the success flag is set only under the conjunction of '
                       '"no unmet line dependency, no unmet input dependency, no unimplemented line" (dominance), every signalling '
                       'exception is recorded by exactly the four handlers of the attempt method on all their paths (must-pass), no '
                       'other handler on the solve call path can swallow them, not_implemented() always raises, an unknown form aborts '
                       'before any state change, the unimplemented list only grows, and line definitions reach inputs and values only by '
                       'subscripting (no default, membership test or try that could hide a signal). The CLI prints the three diagnostics on '
                       'the failure branch and the success text only on the other, and names every item of them (K27: the collections reach print() only through element-preserving operations). The lists of waiting lines are changed only by the dependency tracker itself (K24e: names aliasing a tracker list are followed through parameters and the prompt callback).')
    rep.rule_text = 'obligation = one rule instance (K1 K1b K2 K3 K4 K5 K6 K7 K20 K24a/b/e K27 L1) on one construct (function, handler, statement, line definition)'
    rep.exhaustive = True
    rep.assumptions = ['roles of the solver attributes are inferred from initialisers and handler use (sa/core.py); if a role cannot be inferred uniquely the run is an analysis error',
                       'NOT decided here: that the dependency trackers never lose a registered waiter (algorithmic; see C06), hence the full "no demanded line left without a value" clause']
    core = get_core(tree)
    R.k0_solve_shape(core, rep)          # every requested form is known before the first line is attempted
    from ..linerules import l7_signals_are_called
    l7_signals_are_called(tree, rep)     # a refusal that is named but not called (`self.not_implemented` without parentheses) refuses nothing
    R.k12_schedule_once(core, rep)       # a demanded line is queued and stays queued until it is attempted
    R.k13_add_form(core, rep)            # a form that takes part gets its required lines queued however it was first touched
    from ..linerules import l2c_generators_consumed_once
    l2c_generators_consumed_once(tree, rep)      # a demand (or a gate) written inside a generator that nothing consumes never happens
    rep.extra['solver_roles'] = core.solver.describe()
    R.k1_success_condition(core, rep)
    R.k1b_cli_reports(core, rep)
    R.k27_complete_diagnostics(core, rep)
    R.k2_signal_discipline(core, rep, lines_have_try=lines_with_try(tree))
    R.k3_not_implemented_raises(core, rep)
    R.k4_unknown_form_aborts(core, rep)
    R.k5_who_writes(core, rep)
    R.k6_single_value_writer(core, rep)
    R.k7_missing_key_raises(core, rep)
    R.k11_input_gate(core, rep)          # 'or it aborts with an error (... an invalid input)'
    l1_access(tree, rep)
    R.k32_solve_single_exit(core, rep)   # an answered input reaches its lines: the loop is never left with met dependencies undrained
    from .c17 import shared_rule, get_catalogue
    shared_rule(get_catalogue(tree), rep, rule='R17.7')   # an input missing from one copy of a form is not silently read from another copy's section
    rep.floor('core functions modelled', len(core.funcs), 120)
    R.k24_tracker_shape(core, rep, parts=('a', 'b'))
    R.k24e_waiters_only_tracker_mutates(core, rep)
    R.k20_ctrl_c(core, rep)
    rep.floor('core rule obligations', sum(v[0] for k, v in rep.rules.items() if k.startswith('K')), 60)
