"""C04 — a solution is exactly the demand closure (scheduling clauses)."""
from ..core import get_core
from .. import corerules as R


def check(tree, rep, tier='quick', seed=0):
    rep.explanation = ('Who-may-schedule and dominance rules on the solver: only adding a form, a discovered dependency and an explicitly '
                       'requested line schedule anything (K12); adding a form schedules exactly its required lines and registers all its lines, '
                       'and does neither when loading inputs only (K13); the dependency handler adds the named form fully and schedules exactly the '
                       'missing line (K13b); the solution is the value store rendered without skipping anything (K14); input forms register their '
                       'mirror lines as required (K21d); the command line hands exactly the forms named with --form to the solver: no preset, no edits (K26).')
    rep.rule_text = 'obligation = one rule instance (K12 K13 K13b K14 K21d K26) on one statement or call site of the solver'
    rep.exhaustive = True
    rep.assumptions = ['NOT decided: that on a successful run every scheduled line received a value (needs the tracker algorithm, C06) and which lines the data-dependent demand consists of']
    core = get_core(tree)
    R.k36_mutable_defaults_untouched(core, rep)   # nothing survives from one solve / fill to the next through a default argument
    R.k40_state_belongs_to_the_instance(core, rep)   # ... nor through a table written in a class body
    R.k0_solve_shape(core, rep)          # every requested form is known before the first line is attempted
    from ..linerules import l4_no_demand_inside_assert
    l4_no_demand_inside_assert(tree, rep)   # what a definition demands does not depend on the interpreter's -O switch
    from .c17 import shared_rule, get_catalogue
    shared_rule(get_catalogue(tree), rep)      # every copy of a form owns its line objects: a shared one is stored under the last copy's name and the earlier copy's required line is missing
    from ..linerules import l2c_generators_consumed_once
    l2c_generators_consumed_once(tree, rep)      # a demand (or a gate) written inside a generator that nothing consumes never happens
    R.k1_success_condition(core, rep)    # success => nothing demanded is left unmet (first sentence of the property)
    R.k12_schedule_once(core, rep)
    R.k12c_who_calls(core, rep)
    R.k2_signal_discipline(core, rep)    # no handler on the solve path turns a failing line into a silently missing one
    R.k24_tracker_shape(core, rep, parts=('a', 'b'))   # a registered waiter is never dropped: its line would be missing from a 'solved' return
    R.k24e_waiters_only_tracker_mutates(core, rep)     # ... nor removed from the tracker's list by whoever is handed that list (the prompt callback)
    R.k13_add_form(core, rep)
    R.k14_solution_lists_all(core, rep)
    R.k22f_solution_written_unfiltered(core, rep)   # ... and the file the CLI writes holds exactly those sections (plus the tax year)
    R.k26_cli_requested_forms(core, rep)
    R.k21_typed_values(core, rep)
    R.k6_single_value_writer(core, rep)
    rep.floor('core rule obligations', sum(v[0] for k, v in rep.rules.items() if k.startswith('K')), 40)
