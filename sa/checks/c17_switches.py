"""R17.5 for inline filing-status chains (2021/2022 style): every definition that
consults the filing status is partially evaluated under each of the five
statuses; a status for which every path refuses (falls into the trailing
not_implemented()/assert) while other statuses produce values, or a pure status
switch that yields a number for some statuses and nothing for others, means the
lookup is not total."""
from ..formx import field_closure
from ..lineabs import LineEval, InputsTok, ValuesTok, E
from ..lines import get_analysis


def check(tree, rep, cat, status_enum):
    an = get_analysis(tree)
    n = 0
    for d in an.defs.values():
        if not any(r.atom in ('i:1040.filing_status', 'v:1040.filing_status') for r in d.reads()):
            continue
        enum = status_enum[d.year]
        shape = {}
        pure = True
        for m in enum.members:
            mem = enum.member(m)
            ev = LineEval(cat, d.year, d.fr, assume={'i:1040.filing_status': mem, 'v:1040.filing_status': mem})
            paths = ev.run(field_closure(d.rec), [d.rec, InputsTok(d.fr.rec), ValuesTok(d.fr.rec)])
            if len(paths) != 1:
                pure = False
            vals = [p for p in paths if p.outcome.kind == 'ret' and p.outcome.value is not None]
            nones = [p for p in paths if p.outcome.kind == 'ret' and p.outcome.value is None]
            raises = [p for p in paths if p.outcome.kind == 'raise']
            shape[m] = ('value' if vals else ('none' if nones else 'refuse'), len(paths), raises[0].outcome if raises and not vals and not nones else None)
        n += 1
        kinds = {s[0] for s in shape.values()}
        key = f'{d.key}/total-over-statuses'
        if 'value' in kinds and 'refuse' in kinds:
            bad = sorted(m for m, s in shape.items() if s[0] == 'refuse')
            rep.ob('R17.5', key, False,
                   f'{d.key}: for filing status {bad} every path refuses ({shape[bad[0]][2]!r}) while other statuses produce a value: the status switch is not total', d.where)
        elif pure and 'value' in kinds and 'none' in kinds and d.rec.attrs.get('_type') is not None and getattr(d.rec.attrs.get('_type'), 'name', '') in ('float', 'int'):
            bad = sorted(m for m, s in shape.items() if s[0] == 'none')
            rep.ob('R17.5', key, False,
                   f'{d.key}: a pure filing-status switch yields an amount for some statuses but nothing for {bad}', d.where)
        else:
            rep.ob('R17.5', key, True, where=d.where, sample={'definition': d.key, 'per_status': {m: s[0] for m, s in shape.items()}, 'pure_switch': pure})
    rep.floor('definitions consulting the filing status, evaluated per status', n, 120)
