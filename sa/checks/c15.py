"""C15 — a solved return balances and has no impossible negative amounts."""
from ..lineabs import E
from ..linform import Lin, lin_of, NonLinear
from ..lines import get_analysis, load_data
from ..signs import SignCtx, compute_ub, fixpoint, line_nonneg
from ..src import AnalysisError
from ..symmetry import norm_cond
from .c02 import is_amount_line, zero_lines, BLANK


def sign_model(an, year, assume=()):
    """-> (amount-line definitions, provably non-negative lines, witnesses, ctx factory).
    `assume`: lines taken as non-negative without proof (used to separate the root of a
    finding from the lines that are negative only because they read it)."""
    cdefs = {}
    for d in an.defs.values():
        if d.year == year and is_amount_line(d.rec):
            fr = d.fr
            cdefs[f'v:{fr.form_name}:*.{d.name}' if fr.cls.is_sub_named('InputForm') else f'v:{fr.name}.{d.name}'] = d
    zero = zero_lines(an, year)
    assume = set(assume) & set(cdefs)
    c0 = SignCtx(set(cdefs), {})
    c0.zero = zero
    ub = compute_ub(cdefs, c0)

    def mk(cand):
        c = SignCtx(set(cand) | assume, {})
        c.ub = ub
        c.zero = zero
        return c
    nn, wit = fixpoint({k: d for k, d in cdefs.items() if k not in assume}, mk)
    # second stage: relational proofs (polyhedral case analysis) for what the sign domain cannot show;
    # proven lines are added as facts and the stage is repeated until nothing new is proven
    from ..relational import Prover
    all_defs = {}
    for d in an.defs.values():
        if d.year == year:
            all_defs[f'v:{d.fr.name}.{d.name}'] = d
    nn = set(nn) | assume

    def prove_line(k, facts):
        """line k is non-negative given that the lines in `facts` are"""
        d = cdefs[k]
        ok, w = line_nonneg(d, mk(facts))
        if ok:
            return True
        pr = Prover(cdefs, facts, zero)
        pr.defs_all = all_defs
        pr.ub = ub
        for p in d.paths:
            if p.outcome.kind != 'ret':
                continue
            v = p.outcome.value
            if v is None:
                continue
            if isinstance(v, (tuple, list)) or not pr.prove_nonneg(v, p.guards, k):
                return False
        return True
    mk.prove_line = prove_line
    changed = True
    rounds = 0
    while changed and rounds < 8:
        changed = False
        rounds += 1
        for k in sorted(set(cdefs) - nn):
            if prove_line(k, nn):
                nn.add(k)
                wit.pop(k, None)
                changed = True
    return cdefs, nn, wit, mk


_NN_CACHE = {}


def nn_year(an, y):
    """lines proven non-negative for the year (facts for the blank-coverage proofs)"""
    k = (id(an), y)
    if k not in _NN_CACHE:
        _NN_CACHE[k] = sign_model(an, y)[1]
    return _NN_CACHE[k]


def _zero_tolerance(g):
    """stored amounts are whole cents: a comparison with 0.001 is a comparison with zero"""
    c = g[0]
    if isinstance(c, E) and c.op == 'lt' and len(c.args) == 2:
        a, b = c.args
        if isinstance(a, float) and abs(abs(a) - 0.001) < 1e-12:
            a = 0.0
        if isinstance(b, float) and abs(abs(b) - 0.001) < 1e-12:
            b = 0.0
        c = E('lt', a, b, ty='bool')
    return (c,) + tuple(g[1:])


def value_paths(d):
    out = []
    for p in d.paths:
        if p.outcome.kind != 'ret':
            continue
        v = p.outcome.value
        if not isinstance(v, E) and v in BLANK:
            continue
        out.append(p)
    return out


def guard_of(p, a, b):
    """how the path relates a and b: 'more' (b < a holds), 'not-less' (not a < b), or None"""
    for (c, pol, _n, _r) in p.guards:
        if isinstance(c, E) and c.op == 'lt':
            try:
                d = lin_of(c.args[1]).add(lin_of(c.args[0]), -1)      # rhs - lhs  (> 0 when true)
            except NonLinear:
                continue
            if pol and d == a.add(b, -1):
                return 'more'
            if not pol and d == b.add(a, -1):
                return 'not-less'
    return None


def same_places(an, rep):
    """R15.4 - the amounts a line adds up are kept to the same number of decimal places as the line itself (within one
    form): whole-dollar lines that sum a line kept to cents do not equal the sum of the amounts the form shows, so
    "refund + applied = overpayment" fails by the rounding difference."""
    n = 0
    for d in an.defs.values():
        if d.rec.cls.name != 'FloatField':
            continue
        mine = d.rec.attrs.get('_places')
        fmap = d.fr.field_map()
        bad = []
        for p in value_paths(d):
            try:
                got = lin_of(p.outcome.value)
            except NonLinear:
                continue
            for t, coef in got.terms.items():
                if t[0] != 'a' or not str(t[1]).startswith('v:'):
                    continue
                fpart, _, nm = str(t[1])[2:].rpartition('.')
                if fpart != d.fr.name:
                    continue                      # a carry from another form is rounded on arrival
                r = fmap.get(nm)
                if r is None or r.cls.name != 'FloatField':
                    continue
                n += 1
                theirs = r.attrs.get('_places')
                if theirs != mine and (nm, theirs) not in bad:
                    bad.append((nm, theirs))
        if bad:
            rep.ob('R15.4', d.key, False,
                   f'{d.key} is kept to {mine} decimal places but adds or subtracts line {bad[0][0]}, kept to {bad[0][1]}: the amount on the line is not the sum of the amounts '
                   'shown on the lines it is made of, and the identities of the form (refund + applied = overpayment) fail by the rounding difference', d.where)
    rep.ob('R15.4', 'summed-lines-share-their-places', True)
    rep.floor('(line, summand) pairs checked for equal places', n, 500)


def balance_identities(an, rep):
    """R15.1 for every year -> number of identities checked"""
    ids = load_data('balance_identities.json')
    n_id = 0
    for y in an.cat.years:
        for e in ids:
            fr = an.cat.find(y, e['form'])
            if fr is None:
                continue
            d = an.defs.get((y, fr.name, e['line']))
            key = f'{y}/{e["form"]}.{e["line"]}'
            if d is None:
                raise AnalysisError(f'{key}: line of a balance identity no longer exists')
            n_id += 1
            a = Lin(0, {('a', f'v:{fr.name}.{e["minuend"]}'): 1})
            b = Lin(0, {('a', f'v:{fr.name}.{e["subtrahend"]}'): 1})
            want = a.add(b, -1)
            vps = value_paths(d)
            bad = []
            if not vps:
                bad.append('no path produces a value')
            for p in vps:
                try:
                    got = lin_of(p.outcome.value)
                except NonLinear as ex:
                    bad.append(f'value not linear ({ex})')
                    continue
                if got != want:
                    bad.append(f'value is {got!r}, not line {e["minuend"]} - line {e["subtrahend"]}')
                    continue
                g = guard_of(p, a, b)
                if e['when'] == 'more' and g != 'more':
                    bad.append(f'produced without requiring line {e["minuend"]} > line {e["subtrahend"]}')
                if e['when'] == 'not-less' and g not in ('more', 'not-less'):
                    bad.append(f'produced without requiring line {e["minuend"]} >= line {e["subtrahend"]}')
            # the line is blank only where the other half applies: every path that produces no value implies minuend <= subtrahend
            if not bad:
                from ..relational import Prover
                for p in d.paths:
                    if p.outcome.kind != 'ret':
                        continue
                    v = p.outcome.value
                    if isinstance(v, E) or v not in BLANK:
                        continue
                    pr = Prover({}, nn_year(an, y), frozenset())
                    diff = E('sub', E('v', f'{fr.name}.{e["subtrahend"]}', ty='float'), E('v', f'{fr.name}.{e["minuend"]}', ty='float'), ty='float')
                    if not pr.prove_nonneg(diff, [_zero_tolerance(g) for g in p.guards], None):
                        bad.append(f'is left blank on a path that does not imply line {e["minuend"]} <= line {e["subtrahend"]} '
                                   f'({" and ".join(("" if g[1] else "not ") + repr(g[0])[:60] for g in p.guards[-3:])}): the two halves no longer add up to the difference')
                        break
            if e.get('complement_of') and not bad:
                other = an.defs.get((y, fr.name, e['complement_of']))
                og = {guard_of(p, b, a) for p in value_paths(other)} if other is not None else set()
                mg = {guard_of(p, a, b) for p in vps}
                # the two lines must split the cases exactly: one strict, the other its complement
                ok = (og == {'more'} and mg == {'not-less'}) or (og == {'not-less'} and mg == {'more'})
                if not ok:
                    bad.append(f'its guard {sorted(map(str, mg))} and the guard of line {e["complement_of"]} {sorted(map(str, og))} are not complementary: both or neither could be positive')
            rep.ob('R15.1', key, not bad, f'{y} {e["form"]} line {e["line"]} ({e["what"]}): ' + '; '.join(bad[:2]), d.where,
                   sample={'identity': e['what'], 'line': key})
    return n_id


def check(tree, rep, tier='quick', seed=0):
    rep.explanation = ('(1) Balance identities decided on the linear normal forms of all paths: overpayment and amount owed are the two signed halves of '
                       'total payments minus total tax, produced under complementary guards (so at most one is positive and their difference is exactly '
                       'payments minus tax), refund plus amount applied equals the overpayment; likewise for the NC return. (2) Non-negativity under the premise '
                       'that amount and count inputs are non-negative, in two stages: abstract interpretation in a sign domain with symbolic upper bounds '
                       '(min(a,b) <= a, x*r <= x for a rate or a ratio line capped at 1, a-b >= 0 under a guard a>b or when a bounds b) as a greatest fixed '
                       'point over the line graph; then relational proofs for the rest - line definitions unfolded path by path, min / max / floor terms split '
                       'into linear cases, every leaf system refuted by exact Fourier-Motzkin elimination. Every line of the frozen list '
                       'sa/data/nonneg_lines.json (provable on the confirmed baseline) must stay provable (R15.2); the credit lines of nonneg_required.json must '
                       'be provable too and are reported at the line where the sign is lost, not at the lines that merely read it (R15.3).')
    rep.rule_text = 'obligation = one (year, identity) for R15.1, one (year, line) of the frozen non-negative list for R15.2, one (year, required credit line) for R15.3'
    rep.exhaustive = True
    rep.assumptions = ['amount (float) and count (integer) inputs are >= 0 (the premise of the property)',
                       'figure_tax is non-negative on its domain (decided by C07)',
                       'lines whose sign depends on adjusted gross income (which may legitimately be negative), Form 8606 lines needing mutually consistent inputs and 2021 Schedule 8812 Part III lines that are non-negative only where demanded are NOT armed (listed in the evidence with the expression that loses the sign); rounding of stored values is not modelled']
    an = get_analysis(tree)
    ids = load_data('balance_identities.json')
    frozen = load_data('nonneg_lines.json')
    required = load_data('nonneg_required.json')
    n_nn = n_req = 0
    n_id = balance_identities(an, rep)
    same_places(an, rep)
    for y in an.cat.years:
        # ---- R15.2
        cdefs, nn, wit, mk = sign_model(an, y)
        listed = [k for k in frozen.get(str(y), [])]
        for k in listed:
            if k not in cdefs:
                rep.notes.append(f'{y}: frozen non-negative line {k} no longer exists')
                continue
            n_nn += 1
            d = cdefs[k]
            rep.ob('R15.2', f'{y}/{k[2:]}', k in nn,
                   f'{y} {k[2:]} is defined by the forms as non-negative and used to be provably so; now the value `{_show(wit.get(k))}` can be negative for non-negative inputs', d.where)
        # ---- R15.3 credits the forms define as non-negative that are not (yet) provable on the baseline
        req = required.get(str(y), {})
        unproved = sorted(k for k in req if k in cdefs and k not in nn)
        for k in req:
            if k not in cdefs:
                rep.notes.append(f'{y}: required non-negative line {k} no longer exists')
                continue
            n_req += 1
            if k in nn:
                rep.ob('R15.3', f'{y}/{k[2:]}', True, '', cdefs[k].where)
                continue
            # negative only because it reads another unproved required line?  then the finding is reported at that line
            others = (set(nn) | set(unproved)) - {k}
            derived = mk.prove_line(k, others)
            if derived:
                rep.ob('R15.3', f'{y}/{k[2:]}', True, '', cdefs[k].where)
                rep.notes.append(f'{y}: {k[2:]} can be negative only through another reported line')
                continue
            rep.ob('R15.3', f'{y}/{k[2:]}', False,
                   f'{y} {k[2:]} ({req[k]}) can be negative for non-negative inputs: its value `{_show(wit.get(k))}` is not bounded below by zero on every path', cdefs[k].where)
        extra = sorted(set(nn) - set(listed))
        if extra:
            rep.notes.append(f'{y}: {len(extra)} further lines are provably non-negative but not in the frozen list (e.g. {extra[:3]})')
        rep.extra.setdefault('not_armed_nonneg', {})[str(y)] = sorted(k[2:] for k in cdefs if k not in nn)[:120]
    rep.floor('balance identities checked', n_id, 15)
    rep.floor('frozen non-negative lines checked', n_nn, 1300)
    rep.floor('required non-negative credit lines checked', n_req, 10)


def _show(w):
    s = repr(w)
    return s if len(s) < 160 else s[:157] + '...'


def regenerate():
    from ..src import Tree
    an = get_analysis(Tree())
    out = {}
    for y in an.cat.years:
        cdefs, nn, wit, mk = sign_model(an, y)
        out[str(y)] = sorted(nn)
    return out
