"""C18 — each PDF box is filled from the line the template assigns to it."""
import os
import re

from ..interp import Rec, EnumV, EnumMember, Builtin, Closure, BoundMethod
from ..formx import pdf_value_fn, field_closure
from ..lineabs import LineEval, E, decl_type
from ..lines import load_data
from ..pdfx import load_template
from ..src import AnalysisError, REPO
from .c17 import get_catalogue

LABEL_RE = re.compile(r'(?<![\w\-$,./])(\d{1,2}[a-z]{0,2})\. ')
SUB_RE = re.compile(r'(?<![\w\-$,./])([a-z])\. ')


def speak_labels(speak):
    """Line labels a widget's accessibility text carries ("16. Tax ...",
    "25. Federal income tax withheld from: a. Form(s) W-2." -> 25, 25a)."""
    if not speak:
        return []
    s = re.sub(r'Page \d+\.', ' ', ' ' + speak)
    s = re.sub(r'Part [I V X]+\.', ' ', s)
    s = re.sub(r'Row: \d+\.', ' ', s)
    s = re.sub(r'Line \d+ of \d+', ' ', s)
    labels = []
    for m in LABEL_RE.finditer(s):
        lab = m.group(1)
        labels.append(lab)
        if lab.isdigit():
            for sm in SUB_RE.finditer(s[m.end():]):
                labels.append(lab + sm.group(1))
    return labels


def label_matches(line, labels):
    nm = line.split('.')[-1]
    return any(nm == x or nm.startswith(x + '_') for x in labels)


def nc_label(field_name):
    m = re.search(r'_li(\d+[a-z]?)(?:_|$)', field_name)
    return m.group(1) if m else None


def resolve_line(cat, fr, line):
    """-> (FormRec owning the line, Rec) or (None, None); mirrors PDFFiller._fill_form"""
    if not isinstance(line, str):
        return None, None
    if '.' in line:
        if line.count('.') != 1:
            return None, None
        fpart, name = line.split('.')
        fname, _, inst = fpart.partition(':')
        t = cat.find(fr.year, fname, inst or None)
        if t is None:
            return None, None
        return t, t.field_map().get(name)
    return fr, fr.field_map().get(line)


def const_false(method):
    body = [b for b in method.body if not (hasattr(b, 'value') and type(b).__name__ == 'Expr' and type(b.value).__name__ == 'Constant')]
    return len(body) == 1 and type(body[0]).__name__ == 'Return' and type(body[0].value).__name__ == 'Constant' and body[0].value.value is False


def _multi_line_group(cat, y, fr, g, members, rep, key0):
    from ..lineabs import InputsTok, ValuesTok
    from ..lines import get_analysis
    # the enumeration inputs every driving line reads
    common = None
    defs = []
    for (r, line, lrec, owner) in members:
        clo = field_closure(lrec)
        ev = LineEval(cat, y, owner)
        paths = ev.run(clo, [lrec, InputsTok(owner.rec), ValuesTok(owner.rec)])
        atoms = {rd.atom: rd for p in paths for rd in p.reads if rd.kind == 'i' and rd.res.decl is not None and rd.res.decl.cls.is_sub_named('EnumInput')}
        common = set(atoms) if common is None else common & set(atoms)
        defs.append((r, line, lrec, owner, atoms))
    if not common or len(common) != 1:
        rep.undecide(f'{key0}/{g}: exclusive group driven by several lines that do not share one enumeration input; not judged')
        return False
    atom = next(iter(common))
    enum = defs[0][4][atom].res.decl.attrs.get('enum')
    for mname in enum.members:
        on = []
        for (r, line, lrec, owner, _a) in defs:
            ev = LineEval(cat, y, owner, assume={atom: enum.member(mname)})
            paths = ev.run(field_closure(lrec), [lrec, InputsTok(owner.rec), ValuesTok(owner.rec)])
            vals = {repr(p.outcome.value) if p.outcome.kind == 'ret' else 'raise' for p in paths}
            if len(paths) != 1 or paths[0].outcome.kind != 'ret' or isinstance(paths[0].outcome.value, E):
                rep.undecide(f'{key0}/{g}: line {line} is not decided by {atom} = {mname} alone ({sorted(vals)[:2]})')
                return False
            v = paths[0].outcome.value
            clo = pdf_value_fn(r)
            if clo is not None:
                ev2 = LineEval(cat, y, fr)
                p2 = ev2.run(clo, [r, v, lrec])
                if len(p2) != 1 or p2[0].outcome.kind != 'ret' or isinstance(p2[0].outcome.value, E):
                    rep.undecide(f'{key0}/{g}: mapping value function of {r.attrs.get("pdf_field_name")} not decidable')
                    return False
                v = p2[0].outcome.value
            if v:
                on.append(r.attrs.get('pdf_field_name'))
        rep.ob('R18.6', f'{key0}/{g}/{atom}={mname}', len(on) <= 1,
               f'{fr.name}: with {atom} = {mname} the exclusive boxes {on} are all switched on', members[0][0].where,
               sample={'group': g, 'value': mname, 'on': on})
    return True


def template_identity(tree, cat, rep, rule):
    """The blank a form is filled into is that form's own blank of that year.  The federal templates carry an XMP title
    "<year> <designation>" ("2023 Form 8959", "2022 Schedule 1 (Form 1040)") and the form class states the same designation
    in `description`; the NC templates have no usable title, but their heading is the first text chunk of the page that
    equals a designation of the year's catalogue.  (The field names of the federal blanks follow one numbering scheme,
    so a wrong blank accepts the form data without any complaint from the PDF tool.)"""
    n = 0
    for y in cat.years:
        descs = {fr.class_attrs.get('description') for fr in cat.forms(y) if isinstance(fr.class_attrs.get('description'), str)}
        for fr in cat.forms(y):
            if fr.rec is None or not isinstance(fr.pdf_file, str):
                continue
            rel = os.path.relpath(fr.pdf_file, tree.root)
            if not tree.exists(rel):
                continue                      # reported by R18.1
            tp = load_template(tree, rel)
            want = fr.class_attrs.get('description')
            title = tp.title()
            n += 1
            key = f'{y}/{fr.name}/template-is-this-forms-blank'
            if title and re.match(r'(19|20)\d\d\s', title):
                got = ' '.join(title.split())
                ok = got == f'{y} {want}'
                rep.ob(rule, key, ok, f'{fr.name} ({want}, tax year {y}) is filled into {rel}, whose title says it is the blank of "{got}"', fr.where)
            else:
                heading = next((c.strip() for c in tp.page_text().split('\n') if c.strip() in descs), None)
                if heading is None:
                    raise AnalysisError(f'{rel}: neither a title nor a heading naming a catalogued form was found in the template')
                rep.ob(rule, key, heading == want, f'{fr.name} ({want}) is filled into {rel}, whose heading says it is the blank of "{heading}"', fr.where)
    rep.floor('templates identified by title or heading', n, 40)


def check(tree, rep, tier='quick', seed=0):
    rep.explanation = ('Agreement between two static artifacts: the pdf_fields table of every form (statically evaluated '
                       'constructors) and the field tree / XFA accessibility text / export values / length limits parsed from '
                       'the bundled PDF templates. Exhaustive over every mapping of every year; check-box group exclusivity is '
                       'decided by evaluating each mapping value function over the finite domain of the driving line.')
    rep.rule_text = 'one obligation per (rule, year, form, template field); R18.1 exists, R18.2 kind, R18.3 export value / choices / length, R18.4 label, R18.5 single driver, R18.6 exclusive groups, R18.7 mapped line exists, R18.8 filing forms have template+mappings+sequence, R18.9 sequence number printed on the template'
    rep.exhaustive = True
    rep.assumptions = ['the stdlib PDF reader sa/pdfx.py parses the templates faithfully (all mapped names must be found, floors on field counts)',
                       'label exceptions confirmed by reading are frozen one per template field in sa/data/label_exceptions.json']
    cat = get_catalogue(tree)
    template_identity(tree, cat, rep, 'R18.10')
    exceptions = load_data('label_exceptions.json')
    exc = {(e['form'], e['field'], e['line']): e for e in exceptions}
    used_exc = set()
    n_map = n_tpl = n_label = n_nolabel = n_groups = 0
    kinds = {'text': 0, 'checkbox': 0, 'choice': 0}
    for y in cat.years:
        for fr in cat.forms(y):
            if fr.rec is None:
                continue
            c, nf = fr.cls.find_method('needs_filing')
            files = nf is not None and not const_false(nf)
            key0 = f'{y}/{fr.name}'
            pdf_fields = fr.pdf_fields if isinstance(fr.pdf_fields, list) else None
            # ---- R18.8
            if nf is None:
                rep.ob('R18.8', f'{key0}/needs_filing', False, f'{fr.cls.name} does not define needs_filing()', fr.where)
            if files:
                ok = isinstance(fr.pdf_file, str) and isinstance(pdf_fields, list) and len(pdf_fields) > 0
                rep.ob('R18.8', f'{key0}/has-template-and-mappings', ok,
                       f'{fr.name} can require filing but has no pdf_file or no pdf_fields (PDFFiller._fill_form asserts)', fr.where)
                seq = fr.class_attrs.get('sequence_no')
                rep.ob('R18.8', f'{key0}/sequence_no', isinstance(seq, int) and not isinstance(seq, bool),
                       f'{fr.name} can require filing but sequence_no is {seq!r}; the filler sorts by (jurisdiction, sequence_no)', fr.where)
            elif not fr.pdf_file:
                rep.ob('R18.8', f'{key0}/no-template-never-files', True, where=fr.where)
            if not fr.pdf_file:
                if pdf_fields:
                    rep.ob('R18.8', f'{key0}/mappings-without-template', False, f'{fr.name} has pdf_fields but no pdf_file', fr.where)
                continue
            if not isinstance(fr.pdf_file, str):
                raise AnalysisError(f'{key0}: pdf_file is not statically known')
            rel = os.path.relpath(fr.pdf_file, tree.root)
            ok = tree.exists(rel) and rel.startswith(f'habutax/forms/ty{y}/')
            rep.ob('R18.1', f'{key0}/template-file', ok, f'{fr.name}: template {rel} does not exist inside the ty{y} package', fr.where)
            if not ok:
                continue
            tp = load_template(tree, rel)
            n_tpl += 1
            if len(tp.fields) < 10:
                raise AnalysisError(f'{rel}: only {len(tp.fields)} form fields found in the template')
            seen_targets = {}
            groups = {}
            for k, r in enumerate(pdf_fields or []):
                if not (isinstance(r, Rec) and r.cls.is_sub_named('PDFField')):
                    rep.ob('R18.1', f'{key0}/pdf_fields[{k}]', False, f'pdf_fields[{k}] is {r!r}, not a PDFField', fr.where)
                    continue
                n_map += 1
                box = r.attrs.get('pdf_field_name')
                line = r.attrs.get('field_name')
                mkey = f'{key0}/{box}'
                w = tp.fields.get(box) if isinstance(box, str) else None
                # R18.7 mapped line exists
                owner, lrec = resolve_line(cat, fr, line)
                rep.ob('R18.7', mkey + '/line', lrec is not None,
                       f'{fr.name}: box {box} is mapped to line {line!r}, which no form of {y} declares (the filler raises RuntimeError)', r.where)
                # R18.1 exists
                if not rep.ob('R18.1', mkey, w is not None,
                              f'{fr.name}: template {os.path.basename(rel)} has no field named {box!r} (mapped from line {line!r})', r.where):
                    continue
                # R18.5 duplicates
                rep.ob('R18.5', mkey, box not in seen_targets,
                       f'{fr.name}: box {box} is the target of two mappings (lines {seen_targets.get(box)!r} and {line!r}); the later silently wins', r.where)
                seen_targets.setdefault(box, line)
                # R18.2 kind
                cls = r.cls
                want = 'text' if cls.is_sub_named('TextPDFField') else 'checkbox' if cls.is_sub_named('ButtonPDFField') else \
                    'choice' if cls.is_sub_named('ChoicePDFField') else 'checkbox' if cls.is_sub_named('OptionlessButtonPDFField') else None
                got = 'checkbox' if w.kind in ('checkbox', 'radio') else w.kind
                rep.ob('R18.2', mkey, want == got, f'{fr.name}: {cls.name} mapped to box {box}, which is a {w.kind} field in the template', r.where)
                if want in kinds and want == got:
                    kinds[want] += 1
                x = tp.xfa_for(box)
                # R18.3 export value / choices / max length
                if cls.is_sub_named('ButtonPDFField'):
                    tv = r.attrs.get('_true_value')
                    states = list(w.states)
                    if x is not None and x.items:
                        states += [s for s in x.items[:1] if s not in states]
                    rep.ob('R18.3', mkey + '/on-state', isinstance(tv, str) and tv in states and tv != 'Off',
                           f'{fr.name}: check box {box} is switched on with {tv!r} but the template only knows the on-state(s) {states}', r.where,
                           sample={'box': box, 'true_value': tv, 'template_states': states})
                if cls.is_sub_named('ChoicePDFField'):
                    ch = r.attrs.get('_choices')
                    rep.ob('R18.3', mkey + '/choices', isinstance(ch, list) and w.opts is not None and list(ch) == list(w.opts),
                           f'{fr.name}: choice list of {box} differs from the template /Opt ({len(ch or [])} declared vs {len(w.opts or [])} in template)', r.where)
                if cls.is_sub_named('TextPDFField'):
                    ml = r.attrs.get('max_length')
                    tl = w.maxlen if w.maxlen is not None else (x.maxchars if x is not None else None)
                    if tl is not None or ml is not None:
                        rep.ob('R18.3', mkey + '/max-length', ml == tl,
                               f'{fr.name}: box {box} max_length={ml!r} but the template limits it to {tl!r}'
                               + (' (an undeclared limit lets an over-long value through to be clipped by the PDF tool)' if ml is None else ''), r.where)
                # R18.4 label
                labels = None
                if x is not None and x.speak:
                    labels = speak_labels(x.speak)
                elif tp.xfa is None:
                    nl = nc_label(box)
                    labels = [nl] if nl else []
                if labels:
                    n_label += 1
                    ek = (fr.form_name, box, line)
                    if isinstance(line, str) and label_matches(line, labels):
                        rep.ob('R18.4', mkey, True, where=r.where, sample={'box': box, 'line': line, 'template_labels': labels[:4]})
                    elif ek in exc and (exc[ek].get('years') is None or y in exc[ek]['years']):
                        used_exc.add(ek)
                        rep.ob('R18.4', mkey, True, where=r.where, sample={'box': box, 'line': line, 'exception': exc[ek]['reason']})
                    else:
                        rep.ob('R18.4', mkey, False,
                               f'{fr.name}: box {box} is labelled {labels[:4]} by the template ("{(x.speak if x is not None else box)[:80]}") but is filled from line {line!r}', r.where)
                else:
                    n_nolabel += 1
                # dependents table rule
                if x is not None and x.speak and 'Row: ' in x.speak and isinstance(line, str):
                    m = re.search(r'Row: (\d+)\. Column: \((\d+)\)(.*)', x.speak)
                    dm = re.fullmatch(r'dependent_(\d+)_(\w+)', line)
                    if m and dm:
                        row = int(m.group(1))
                        col = m.group(2)
                        tail = m.group(3)
                        want_col = {'1': ['name'], '2': ['ssn'], '3': ['relationship'], '4': ['ctc' if 'Child tax credit' in tail else 'odc']}.get(col, [])
                        rep.ob('R18.4', mkey + '/dependents-table', int(dm.group(1)) == row - 1 and dm.group(2) in want_col,
                               f'{fr.name}: box {box} is row {row} column ({col}) of the dependents table but is filled from {line!r}', r.where)
                # groups
                g = re.sub(r'\[\d+\]$', '', box) if box.endswith(']') else re.sub(r'(yes|no)$|(?<=fstat)\d+$', '', box, flags=re.I)
                if cls.is_sub_named('ButtonPDFField') and g != box:
                    groups.setdefault(g, []).append((r, line, lrec, owner))
            # ---- R18.6 exclusive groups
            for g, members in groups.items():
                if len(members) < 2:
                    continue
                lines = {m[1] for m in members}
                if len(lines) != 1 and all(m[2] is not None for m in members):
                    # several driving lines: decidable when each of them is a function of one shared enumeration input
                    if _multi_line_group(cat, y, fr, g, members, rep, key0):
                        n_groups += 1
                    continue
                if len(lines) != 1 or members[0][2] is None:
                    rep.undecide(f'{key0}/{g}: exclusive group driven by several lines {sorted(map(str, lines))}; not judged here')
                    continue
                n_groups += 1
                lrec = members[0][2]
                ty, meta = decl_type(lrec, 'v')
                if ty == 'bool':
                    domain = [True, False]
                elif ty == 'enum' and meta:
                    domain = [meta[0].member(m) for m in meta[0].members] + [None]
                else:
                    rep.undecide(f'{key0}/{g}: driving line has an infinite domain ({ty})')
                    continue
                for val in domain:
                    on = []
                    for (r, line, _l, owner) in members:
                        clo = pdf_value_fn(r)
                        if clo is None:
                            truth = bool(val) if not isinstance(val, EnumMember) else True
                        else:
                            ev = LineEval(cat, y, fr)
                            paths = ev.run(clo, [r, val, lrec])
                            outs = {repr(p.outcome.value) if p.outcome.kind == 'ret' else 'raise' for p in paths}
                            if len(paths) != 1 or paths[0].outcome.kind != 'ret' or isinstance(paths[0].outcome.value, E):
                                raise AnalysisError(f'{key0}/{g}: value function of {r.attrs.get("pdf_field_name")} not decidable for {val!r}: {outs}')
                            ov = paths[0].outcome.value
                            truth = bool(ov) if not isinstance(ov, EnumMember) else True
                        if truth:
                            on.append(r.attrs.get('pdf_field_name'))
                    rep.ob('R18.6', f'{key0}/{g}/{val!r}', len(on) <= 1,
                           f'{fr.name}: with line {members[0][1]!r} = {val!r} the exclusive boxes {on} are all switched on', members[0][0].where,
                           sample={'group': g, 'value': repr(val), 'on': on})
            # ---- R18.9 sequence number printed on IRS templates
            if tp.xfa is not None and files:
                txt = tp.page_text()
                m = re.search(r'Sequence No\.\s*\n?\s*(\d+)([A-Z]?)', txt)
                seq = fr.class_attrs.get('sequence_no')
                if m:
                    rep.ob('R18.9', f'{key0}/sequence-printed', isinstance(seq, int) and int(m.group(1)) == seq,
                           f'{fr.name}: sequence_no = {seq!r} but the template prints "Attachment Sequence No. {m.group(1)}{m.group(2)}"', fr.where,
                           sample={'form': fr.name, 'sequence_no': seq, 'printed': m.group(1)})
    stale = [k for k in exc if k not in used_exc]
    for k in stale:
        rep.notes.append(f'label exception no longer needed: {k}')
    # the generic filler fills each box from the line computed for that box and that form instance (nothing remembered across copies)
    from ..core import get_core
    from .. import corerules as R
    R.k23f_filling_keeps_no_state(get_core(tree), rep)
    R.k23g_box_value_set_in_every_round(get_core(tree), rep)
    rep.floor('mappings checked', n_map, 1500)
    rep.floor('templates parsed', n_tpl, 36)
    rep.floor('mappings with a template label', n_label, 1000)
    rep.count('mappings without a label in the template (skipped by R18.4)', n_nolabel)
    rep.floor('exclusive groups decided', n_groups, 30)
    rep.count('kinds agreed', kinds)
