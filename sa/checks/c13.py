"""C13 — prompting is demand-exact; write-back reaches the file (who-calls clauses)."""
from ..core import get_core
from .. import corerules as R


def check(tree, rep, tier='quick', seed=0):
    rep.explanation = ('Who-calls and def-use rules: the prompt is called only from _attempt_input, which is called only from the loop of '
                       'solve() over the input tracker\'s unmet dependencies with the registered waiters of that same input (K10, K17); the input '
                       'tracker is fed only by the MissingInput handler with the exception\'s own name and the attempted line (K2, K17); '
                       'MissingInput is raised only by InputStore.__getitem__ after provides() was false (K11, K17); the answer lands in the '
                       'configuration object that write() serialises and the CLI writes the very store the solver mutated (K8, K18); the prompt text describes each waiting line with values computed from that line alone (K29).')
    rep.rule_text = 'obligation = one rule instance (K2 K8 K10 K11 K17 K18 K29) on one call site / statement'
    rep.exhaustive = True
    rep.assumptions = ['NOT decided: "re-running asks nothing and gives the identical solution" - a two-run history over ConfigParser\'s text round trip (white space, case); only the % part is covered (K22c in C14)']
    core = get_core(tree)
    R.k9_store_then_meet(core, rep)          # an answer that is stored is announced at once: the lines waiting for it are re-attempted in this very run and the re-run computes nothing new
    R.k17_prompt_demand(core, rep)
    R.k29_prompt_quotes_the_waiters(core, rep)
    R.k27_complete_diagnostics(core, rep)    # the failure report quotes, for each missing input, the lines the solver recorded for that input
    R.k1b_cli_reports(core, rep)
    R.k11i_strict_decoding(core, rep)    # no byte of the input file is dropped or replaced before the validators see the text
    R.k35_store_loaded_eagerly(core, rep)
    R.k11j_validator_and_converter_agree(core, rep)
    R.k18b_write_reaches_the_file(core, rep)     # 'answers were written back': the write lands in the named file wherever that file lives
    R.k17b_validation_on_demand(core, rep)
    R.k13_add_form(core, rep)            # a form reached through an input first is loaded like one reached through a line first
    R.k10_refusal(core, rep)
    R.k2_signal_discipline(core, rep)
    R.k8_input_store_writes(core, rep)
    R.k11_input_gate(core, rep)
    R.k18_cli_store_identity(core, rep)
    R.k11g_parser_objects_untouched(core, rep)
    R.k24_tracker_shape(core, rep, parts=('a',))   # every line that read the absent input is recorded as waiting for it: the prompt quotes them all, and each is re-attempted once answered (the prompted run computes what the re-run computes)
    rep.floor('core rule obligations', sum(v[0] for k, v in rep.rules.items() if k.startswith('K')), 60)
