"""C16 — returns respond to input changes the way tax law requires (two of four relations)."""
import re

from ..amounts import canon
from ..lineabs import E
from ..linform import lin_of, NonLinear
from ..lines import get_analysis, load_data
from ..src import AnalysisError
from ..symmetry import atom_symmetry
from .c02 import BLANK


BINDER_POS = {'sumn': 1, 'exists_n': 0, 'forall_n': 0, 'loopval': 0, 'countif': 1}


def walk(e, f):
    if isinstance(e, E):
        f(e)
        skip = BINDER_POS.get(e.op)
        for k, a in enumerate(e.args):
            if k == skip and isinstance(a, E) and a.op == 'idx':
                continue          # the binder itself
            if e.op == 'idx':
                continue          # (name, count) of an index term
            walk(a, f)
    elif isinstance(e, (tuple, list)):
        for a in e:
            walk(a, f)


def check(tree, rep, tier='quick', seed=0):
    rep.explanation = ('Renumbering invariance as a symmetry rule on the symbolic path results of every definition: an index bound by range(count) may occur only '
                       'in the instance position of a key, per-instance terms are combined only by sums and exists/for-all tests (permutation-invariant), and a '
                       'numbered copy of an input form is addressed by a fixed position only in the frozen per-payer listing lines (R16.1, R16.2). Taxpayer/spouse '
                       'sibling symmetry: the person-specific inputs and lines a definition reads are closed under exchanging the two (R16.5). Withholding moves '
                       'refund-minus-owed one for one: each withholding source enters its line, and each link of the chain 25a/b/c -> 25d -> 33, with coefficient '
                       'exactly 1 on every value path (linear normal forms), and total tax and its ancestors are outside the taint closure of the withholding '
                       'sources (R16.3, R16.4); with the C15 identity 34 - 37 = 33 - 24 the relation follows. A necessary condition of "a larger deduction never raises tax": where a yes/no line elects between two amounts by comparing them, the amount used when it is false is, per filing status, the very amount it compares against (R16.6). State tax withheld reaches the NC return exactly once for every owner value of the form it is reported on (R16.7: the owner and state tests of D-400 lines 20a / 20b are evaluated per member of the owner enumeration). The two monotonicity relations are decided as far as the provable directions go (R16.8): with everything else fixed, AGI, the deduction, taxable income, the tax and - for deductions in 2022 and 2023 - the total tax move in one direction when wages or one deductible expense grow; the directions provable on the baseline are frozen and must stay provable (derivative candidate forms with unfolding, region-wise slope proofs by exact Fourier-Motzkin, continuity across input-dependent decisions).')
    rep.rule_text = 'obligation = one definition (R16.1/2/5), one (year, chain link, source) (R16.3), one (year, tax line) (R16.4), one elected amount line (R16.6), one (year, NC withholding box, owner) case (R16.7), one (year, input, line) direction (R16.8)'
    rep.exhaustive = True
    rep.assumptions = ['NOT decided (no sound static argument in reach): "more wages never lower total tax" and "a larger deduction never raises it" - monotonicity through data-dependent switches (itemize vs standard, credit phase-outs, not-implemented cliffs)',
                       'floating-point re-association of sums of cent-rounded amounts under renumbering is not modelled']
    an = get_analysis(tree)
    from ..linerules import l2c_generators_consumed_once
    l2c_generators_consumed_once(tree, rep)      # a second pass over an exhausted generator adds nothing: the dollars withheld in the second state box never arrive
    from .c02 import year_siblings
    year_siblings(an, rep)                       # the relations below are decided per year: a year that stops agreeing with its sibling years is looked at first
    listing = [re.compile(p) for p in load_data('listing_lines.json')['patterns']]
    chain = load_data('withholding_chain.json')
    sym_exc = {e['line'] for e in load_data('symmetry_exceptions.json')}
    n_defs = n_links = n_rows = 0
    for d in an.defs.values():
        n_defs += 1
        lk = f'{d.fr.name}.{d.name}'
        # ---- R16.1 index only in instance position
        bad = []

        def visit(e, bad=bad):
            if e.op == 'idx':
                bad.append('the loop index is used as a value')
            if e.op in ('sumn', 'countif') or (e.op in ('exists_n', 'forall_n') and isinstance(e.args[0], E)):
                ix = e.args[1] if e.op in ('sumn', 'countif') else e.args[0]
                cnt = ix.args[1] if isinstance(ix, E) and ix.op == 'idx' else None
                if not (isinstance(cnt, E) and cnt.op == 'i' and cnt.ty == 'int'):
                    bad.append(f'copies are enumerated up to a computed bound ({cnt!r}) instead of the declared count: which copies are visited depends on their numbering')
                else:
                    # the bound is the declared count of the very form whose copies are read (number_<form>)
                    var = ix.args[0] if isinstance(ix.args[0], str) else None
                    body = e.args[2] if e.op in ('sumn', 'countif') else e.args[1]
                    forms = set()
                    walk(body, lambda x: forms.update(re.findall(r'^([^:{}.]+):\{' + re.escape(var or 'n') + r'\}', x.args[0])) if x.op in ('i', 'v') and isinstance(x.args[0], str) else None)
                    cname = str(cnt.args[0]).rsplit('.', 1)[-1]
                    for fm in sorted(forms):
                        if cname != f'number_{fm}':
                            bad.append(f'copies of {fm} are enumerated up to {cnt.args[0]} (the count of another form): copies numbered at or above that count are dropped, so renumbering changes the result')
            if e.op == 'loopval' and len(e.args) >= 2:
                # a variable that the loop over the copies simply overwrites keeps the value of the LAST copy visited: which copy
                # that is depends on the numbering (and the other copies' amounts are lost)
                reads = []
                walk(e.args[1], lambda x: reads.append(x.args[0]) if x.op in ('i', 'v') and isinstance(x.args[0], str) and '{' in x.args[0] else None)
                if reads:
                    bad.append(f'a variable is overwritten in every round of the loop over the copies with a value read from the copy ({reads[0]}): after the loop it holds the last copy\'s '
                               'value only - the other copies are lost and renumbering them changes the result')
            if e.op in ('i', 'v') and isinstance(e.args[0], str) and '{' in e.args[0]:
                key = e.args[0]
                fpart, _, npart = key.partition('.')
                if '{' in npart:
                    bad.append(f'index inside the name part of {key!r}')
                elif not re.fullmatch(r'[^:{}]+:\{[^{}]+\}', fpart):
                    bad.append(f'index outside the instance position of {key!r}')
        for p in d.paths:
            for (c, pol, _n, _r) in p.guards:
                walk(c, visit)
            if p.outcome.kind == 'ret':
                walk(p.outcome.value, visit)
            for (kind, data, node, rel_) in p.events:
                if kind in ('collapse', 'firstonly'):
                    bad.append(data)
        # names with a computed part over a fixed block (dependent_{n}_ctc) are indices into the 1040's own rows, not copies of a form
        bad = [b for b in bad if 'dependent_{' not in b]
        rep.ob('R16.1', f'{d.key}', not bad, f'{d.key} is not invariant under renumbering the copies of a form, or does not count every copy once: {bad[:2]}', d.where)
        # ---- R16.2 fixed positions only in listing lines
        fixed = sorted({r.text for r in d.reads() if r.res is not None and r.res.form is not None and isinstance(r.res.instance, str) and r.res.instance.isdigit()
                        and not r.res.form.class_attrs.get('valid_instances')})
        if fixed:
            ok = any(p.fullmatch(lk) for p in listing)
            rep.ob('R16.2', d.key, ok, f'{d.key} addresses a numbered copy by a fixed position ({fixed[:2]}) but is not a per-payer listing line: renumbering the copies changes its value', d.where)
        # ---- R16.2b row k of a per-payer listing shows copy k and nothing else (so that renumbering the copies permutes the rows and
        #      leaves every total over the rows unchanged)
        if any(p.fullmatch(lk) for p in listing):
            n_rows += 1
            k = int(re.findall(r'\d+', d.name)[-1])
            why = []
            forms = set()
            for p in d.paths:
                if p.imprecise:
                    if not any(e[0] == 'collapse' for e in p.events):
                        rep.error(f'{d.key}: per-payer listing row could not be followed ({p.imprecise[0][0] if isinstance(p.imprecise[0], tuple) else p.imprecise[0]}); "row k shows copy k" is not decided')
                    continue
                if p.outcome.kind != 'ret':
                    why.append(f'a path ends in {p.outcome!r}')
                    continue
                gs = [(c, pol) for (c, pol, _n, _r) in p.guards]
                shown = None
                for c, pol in gs:
                    m = isinstance(c, E) and c.op == 'lt' and c.args[0] == k and not isinstance(c.args[0], bool) and isinstance(c.args[1], E) and c.args[1].op == 'i' \
                        and re.fullmatch(r'1040\.number_(.+)', str(c.args[1].args[0]))
                    if not m:
                        why.append(f'the row depends on {c!r}, which is not "there is a copy number {k}"')
                    else:
                        forms.add(m.group(1))
                        shown = pol
                if shown is None:
                    why.append(f'the row is not guarded by "there is a copy number {k}"')
                elif shown is False:
                    if p.outcome.value is not None:
                        why.append(f'beyond the last copy the row is {p.outcome.value!r} instead of blank')
                else:
                    atoms = set()
                    walk(p.outcome.value, lambda x: atoms.add(str(x.args[0])) if x.op in ('i', 'v') else None) if isinstance(p.outcome.value, E) else None
                    other = sorted(a for a in atoms if not any(a.startswith(f'{fm}:{k}.') for fm in forms))
                    if not atoms or other:
                        why.append(f'the row shows {p.outcome.value!r}, which is not computed from copy {k} alone ({other[:2]})')
            rep.ob('R16.2', d.key + '/row-shows-its-copy', not why,
                   f'{d.key} is a per-payer listing row, but {why[0] if why else ""}: renumbering the copies then does more than reorder the rows (the totals over the rows change)', d.where)
        # ---- R16.5 taxpayer / spouse symmetry
        if d.fr.instance != 'spouse':
            other = an.defs.get((d.year, d.fr.name.replace(':you', ':spouse'), d.name)) if d.fr.instance == 'you' else None
            r = atom_symmetry(d, other)
            if r is not None:
                ok, missing = r
                if lk in sym_exc and not ok:
                    rep.notes.append(f'{d.key}: accepted asymmetry ({missing})')
                    ok = True
                rep.ob('R16.5', d.key, ok,
                       f'{d.key} treats taxpayer and spouse in parallel but not symmetrically: no counterpart for {missing[:3]} (a stale name after copying one block into the other?)', d.where)
    # ---- R16.3 / R16.4
    for y in an.cat.years:
        # forward taint closure of the withholding sources over the demand graph
        readers = {}
        for d in an.defs.values():
            if d.year != y:
                continue
            for r in d.reads():
                if r.atom:
                    readers.setdefault(r.atom, set()).add(f'{d.fr.name}.{d.name}')
        sources = {s for l in chain['links'] for s in l['sources'] if not s.startswith('v:1040.')}
        closure = set()
        todo = list(sources)
        while todo:
            a = todo.pop()
            for ln in readers.get(a, ()):
                if ln not in closure:
                    closure.add(ln)
                    todo.append('v:' + ln)
        for ln in chain['independent_of_withholding']:
            fn, _, nm = ln.rpartition('.')
            if (y, fn, nm) not in an.defs:
                continue
            rep.ob('R16.4', f'{y}/{ln}', ln not in closure,
                   f'{y} {ln} depends on a withholding input: an extra dollar withheld would change the tax, not just the balance', an.defs[(y, fn, nm)].where)
        for l in chain['links']:
            fn, _, nm = l['line'].rpartition('.')
            d = an.defs.get((y, fn, nm))
            if d is None:
                raise AnalysisError(f'{y}: chain line {l["line"]} does not exist (anchor vanished)')
            for src in l['sources']:
                if src.startswith('i:'):
                    fpart, _, iname = src[2:].rpartition('.')
                    sfr = an.cat.find(y, fpart)
                    if sfr is None or iname not in sfr.input_map():
                        continue          # this year's form has no such input
                n_links += 1
                bad = []
                nval = 0
                for p in d.paths:
                    if p.outcome.kind != 'ret':
                        continue
                    v = p.outcome.value
                    if not isinstance(v, E) and v in BLANK:
                        continue
                    nval += 1
                    try:
                        lin = lin_of(v)
                    except NonLinear as ex:
                        bad.append(f'non-linear value ({ex})')
                        continue
                    coeff = _coeff(lin, src)
                    if coeff != 1:
                        bad.append(f'coefficient of {src} is {coeff} in {lin!r}')
                if nval == 0:
                    bad.append('no value path')
                rep.ob('R16.3', f'{y}/{l["line"]}<-{src}', not bad,
                       f'{y} {l["line"]}: an extra dollar of {src} does not move the line by exactly one dollar on every path: {bad[:2]}', d.where,
                       sample={'line': f'{y}/{l["line"]}', 'source': src})
    from .c15 import balance_identities
    balance_identities(an, rep)          # refund-minus-owed = payments - tax on every path (the identity the withholding relation rests on)
    from ..linerules import l6_iterated_sequences_are_not_edited
    l6_iterated_sequences_are_not_edited(tree, rep)
    n_el = election_consistency(an, rep)
    n_nc = nc_withholding_split(an, rep)
    n_mono = monotone_directions(an, rep, tier)
    import multiprocessing as _mp
    rep.floor('frozen directions re-proved', n_mono, 40 if _mp.current_process().daemon else 60 if tier == 'quick' else 300)
    rep.floor('(NC withholding box, owner) cases decided', n_nc, 40)
    rep.floor('amount lines chosen by a comparing yes/no line', n_el, 3)
    rep.floor('definitions checked for renumbering invariance', n_defs, 2200)
    rep.floor('withholding chain links', n_links, 30)
    rep.floor('per-payer listing rows checked', n_rows, 100)


def _coeff(lin, src):
    """coefficient with which `src` enters the linear form (through a per-instance sum for w-2:* sources)"""
    from fractions import Fraction
    tot = Fraction(0)
    for t, c in lin.terms.items():
        if t[0] == 'a' and t[1] == src:
            tot += c
        if t[0] == 'sumn':
            body_const, body_terms = t[2]
            for bt, bc in body_terms:
                if bt[0] == 'a' and bt[1] == src:
                    tot += c * bc
    return tot


def election_consistency(an, rep):
    """R16.6 - an amount chosen by a yes/no line that compares the two candidates: the alternative the amount line
    uses when the flag is false must be the very amount the flag compares against, for every filing status (both
    definitions are partially evaluated per status).  Otherwise raising the compared amount across the flag's threshold
    switches the line to an alternative that is not the larger one: a larger deduction would lower the deduction taken."""
    from ..linform import lin_of, NonLinear
    from ..lineabs import LineEval, InputsTok, ValuesTok
    from ..formx import field_closure
    cat = an.cat
    n = 0
    for d in list(an.defs.values()):
        if d.rec.cls.name != 'FloatField':
            continue
        rets = [p for p in d.paths if p.outcome.kind == 'ret']
        if len(rets) < 2 or any(not p.guards for p in d.paths):
            continue
        firsts = {_flag_key(p.guards[0][0]) for p in d.paths}
        if len(firsts) != 1 or None in firsts:
            continue
        fkey = firsts.pop()
        if not fkey.startswith(d.fr.name + '.'):
            continue
        fd = an.defs.get((d.year, d.fr.name, fkey.split('.', 1)[1]))
        if fd is None:
            continue
        true_vals = {repr(p.outcome.value) for p in rets if p.guards[0][1]}
        if len(true_vals) != 1:
            continue
        try:
            tv = lin_of([p.outcome.value for p in rets if p.guards[0][1]][0])
        except NonLinear:
            continue
        f1040 = cat.find(d.year, '1040')
        enum = f1040.input_map()['filing_status'].attrs['enum']
        reads_status = any(r.atom in ('i:1040.filing_status', 'v:1040.filing_status') for r in d.reads() + fd.reads())
        members = list(enum.members) if reads_status else ['*']
        found = False
        bad = []
        for m in members:
            assume = {'i:1040.filing_status': enum.member(m), 'v:1040.filing_status': enum.member(m)} if m != '*' else {}
            dp = LineEval(cat, d.year, d.fr, assume=assume).run(field_closure(d.rec), [d.rec, InputsTok(d.fr.rec), ValuesTok(d.fr.rec)])
            fp = LineEval(cat, d.year, fd.fr, assume=assume).run(field_closure(fd.rec), [fd.rec, InputsTok(fd.fr.rec), ValuesTok(fd.fr.rec)])
            compared = []
            for p in fp:
                conds = [g[0] for g in p.guards]
                if p.outcome.kind == 'ret' and isinstance(p.outcome.value, E):
                    walk(p.outcome.value, lambda e: conds.append(e) if e.op in ('lt', 'le', 'gt', 'ge') else None)
                for c in conds:
                    if isinstance(c, E) and c.op in ('lt', 'le', 'gt', 'ge') and len(c.args) == 2:
                        try:
                            la, lb = lin_of(c.args[0]), lin_of(c.args[1])
                        except NonLinear:
                            continue
                        if la == tv:
                            compared.append(lb)
                        elif lb == tv:
                            compared.append(la)
            if not compared:
                continue
            found = True
            for p in dp:
                if p.outcome.kind != 'ret' or not p.guards or p.guards[0][1] or p.outcome.value is None:
                    continue
                try:
                    lf = lin_of(p.outcome.value)
                except NonLinear:
                    continue
                if all(lf != c for c in compared):
                    bad.append(f'for {m} it uses {lf!r} when {fkey} is false, but {fkey} compares {tv!r} with {compared[0]!r}')
        if not found:
            continue
        n += 1
        rep.ob('R16.6', d.key, not bad,
               f'{d.key} takes {tv!r} when {fkey} holds and otherwise an amount other than the one {fkey} compares it with ({"; ".join(bad[:1])}): '
               f'raising the compared amount across that threshold lowers the amount taken', d.where)
    return n


def _flag_key(c):
    from ..amounts import canon
    if isinstance(c, E) and c.op == 'v' and c.ty == 'bool':
        return canon(c.args[0])
    return None


def nc_withholding_split(an, rep):
    """R16.7 - state tax withheld reaches the NC return exactly once whoever owns the form it is reported on: the two
    lines that split it between the spouses (D-400 lines 20a and 20b) are per-copy sums of `box if <owner test> and
    <state is NC> else 0`; for every box that either line adds and every member of that form's owner enumeration,
    exactly one of the two lines takes the box when the state is NC.  (A box dropped for one owner value means an
    extra dollar withheld there moves refund-minus-owed by nothing.)"""
    from ..amounts import canon
    from ..interp import EnumMember
    n = 0
    for y in an.cat.years:
        fr = an.cat.find(y, 'nc_d-400')
        if fr is None:
            continue
        terms = {}          # line -> {box atom: [(cond, form)]}
        for ln in ('20a', '20b'):
            d = an.defs.get((y, fr.name, ln))
            if d is None:
                raise AnalysisError(f'{y}: nc_d-400 line {ln} not found (anchor vanished)')
            per = terms.setdefault(ln, {})
            for p in d.paths:
                if p.outcome.kind != 'ret' or not isinstance(p.outcome.value, E):
                    continue
                _collect_cond_boxes(p.outcome.value, None, per)
        boxes = sorted(set(terms['20a']) | set(terms['20b']))
        if len(boxes) < 5:
            raise AnalysisError(f'{y}: per-copy withholding terms of nc_d-400 lines 20a/20b not recognised (anchor vanished)')
        for box in boxes:
            form = box.split(':', 1)[1].split(':')[0]
            owner_atom = f'v:{form}:*.belongs_to'
            ifr = an.cat.find(y, form, 0) or an.cat.find(y, form)
            orec = ifr.input_map().get('belongs_to') if ifr is not None else None
            enum = orec.attrs.get('enum') if orec is not None else None
            if enum is None:
                rep.undecide(f'{y}: owner enumeration of {form} not found')
                continue
            for m in enum.members:
                member = enum.member(m)
                takes = {}
                undec = False
                for ln in ('20a', '20b'):
                    conds = terms[ln].get(box, [])
                    vals = []
                    for c in conds:
                        r = _eval_cond(c, owner_atom, member)
                        if r is None:
                            undec = True
                        vals.append(bool(r))
                    takes[ln] = sum(vals)
                if undec:
                    rep.undecide(f'{y}: condition on {box} not decidable for owner {m}')
                    continue
                n += 1
                total = takes['20a'] + takes['20b']
                rep.ob('R16.7', f'{y}/{box[2:]}/{m}', total == 1,
                       f'{y} NC D-400: tax withheld in {box[2:]} on a form owned by `{m}` is taken {takes["20a"]} time(s) by line 20a and {takes["20b"]} time(s) by line 20b; '
                       f'it must reach the return exactly once, otherwise an extra dollar withheld there does not move the refund by one dollar', fr.where)
    return n


def _collect_cond_boxes(e, cond, out):
    """walk sums / per-copy sums; record  box -> [condition under which it is added]"""
    from ..amounts import canon
    if not isinstance(e, E):
        return
    if e.op in ('add',):
        for a in e.args:
            _collect_cond_boxes(a, cond, out)
    elif e.op == 'sumn':
        _collect_cond_boxes(e.args[2], cond, out)
    elif e.op == 'ite':
        c, a, b = e.args
        c2 = c if cond is None else E('and', cond, c, ty='bool')
        _collect_cond_boxes(a, c2, out)
        if isinstance(b, E):
            _collect_cond_boxes(b, E('not', c, ty='bool') if cond is None else E('and', cond, E('not', c, ty='bool'), ty='bool'), out)
    elif e.op == 'call' and e.args[0] in ('float', 'round') and len(e.args) >= 2:
        _collect_cond_boxes(e.args[1], cond, out)
    elif e.op == 'v':
        out.setdefault('v:' + canon(e.args[0]), []).append(cond)


def _eval_cond(c, owner_atom, member):
    """truth of the condition when the owner is `member` and every state box says NC; None = not decidable"""
    from ..amounts import canon
    from ..interp import EnumMember
    if c is None:
        return True
    if isinstance(c, bool):
        return c
    if not isinstance(c, E):
        return None
    if c.op == 'not':
        r = _eval_cond(c.args[0], owner_atom, member)
        return None if r is None else (not r)
    if c.op in ('and', 'or'):
        rs = [_eval_cond(a, owner_atom, member) for a in c.args]
        if c.op == 'and':
            return False if any(r is False for r in rs) else (None if any(r is None for r in rs) else True)
        return True if any(r is True for r in rs) else (None if any(r is None for r in rs) else False)
    if c.op in ('eq', 'ne') and len(c.args) == 2:
        a, b = c.args
        if isinstance(b, E) and not isinstance(a, E):
            a, b = b, a
        if isinstance(a, E) and a.op == 'v' and isinstance(b, EnumMember):
            atom = 'v:' + canon(a.args[0])
            if atom == owner_atom:
                r = (b == member)
            elif b.name == 'NC':
                r = True          # the state box names North Carolina (the case the rule is about)
            else:
                return None
            return r if c.op == 'eq' else (not r)
    return None


# ---------------------------------------------------------------- R16.8 directions (more wages / a larger deduction)
MONO_GOALS = ['1040.11', '1040.12', '1040.12a', '1040.15', '1040.16', '1040.18', '1040.22', '1040.24',
              'nc_d-400.14', 'nc_d-400.15', 'nc_d-400.19']
MONO_INPUTS_QUICK = ['v:w-2:*.box_1', 'i:1040_sa.charitable_cash_check', 'i:1040_sa.medical_dental_expenses']
MONO_INPUTS_ALL = MONO_INPUTS_QUICK + [
    'i:1040_sa.state_local_real_estate_taxes', 'i:1040_sa.state_local_personal_property_taxes', 'i:1040_sa.other_taxes_amount',
    'i:1040_sa.other_mortgage_interest', 'i:1040_sa.charitable_other_than_cash_check', 'i:1040_sa.charitable_carryover',
    'i:1040_sa.other_itemized', 'v:1098:*.box_1', 'i:1040_s1.educator_expenses', 'i:1040_s1.alimony_paid',
    'i:1040_s1.traditional_ira_deduction', 'i:8889:you.hsa_contributions']
_MONO_AN = None
_MONO_TIER = 'thorough'


def _mono_group(args):
    """directions of the goal lines with respect to one input in one year -> {line: '+', '-', '0', '?'}"""
    y, x = args
    from ..mono import Mono
    from ..relational import Prover
    from ..slope import SlopeProver
    from .c15 import sign_model
    from .c02 import zero_lines
    an = _MONO_AN
    cdefs, nn, _wit, _mk = sign_model(an, y)
    zero = zero_lines(an, y)
    all_defs = {f'v:{d.fr.name}.{d.name}': d for d in an.defs.values() if d.year == y}

    def pf():
        pr = Prover(cdefs, nn, zero)
        pr.defs_all = all_defs
        return pr
    m = Mono(an, y, x, nn, pf)

    def sf(mono):
        def lemma(a):
            s = mono.sign_memo.get(a)
            return s if s in ('+', '-', '0') else None

        def is_input(a):
            d = mono.defs.get(a)
            return d is None or d.fr.cls.is_sub_named('InputForm')
        pr = SlopeProver(mono.defs, nn, zero, x, lemma, is_input)
        pr.defs_all = all_defs
        return pr
    m.slope_factory = sf
    out = {}
    for g in MONO_GOALS:
        k = 'v:' + g
        if x.startswith('v:w-2') and g in ('1040.22', '1040.24') and _MONO_TIER == 'quick':
            continue          # wages -> tax after credits: provable for 2021 only and slow (deep unfolding); thorough tier
        if k in m.defs:
            out[g] = m.sign_of_line(k)
    return (y, x, out, {g: m.why.get('v:' + g, '') for g in out if out[g] == '?'})


def mono_results(an, years, inputs, tier='thorough'):
    import multiprocessing
    global _MONO_AN, _MONO_TIER
    _MONO_AN = an
    _MONO_TIER = tier
    tasks = [(y, x) for y in years for x in inputs if _input_exists(an, y, x)]
    if multiprocessing.current_process().daemon:
        # inside a self-test worker (no nested pools): the two leading inputs only
        return [_mono_group(t) for t in tasks if t[1] in MONO_INPUTS_QUICK[:2]]
    if len(tasks) < 2:
        return [_mono_group(t) for t in tasks]
    ctx = multiprocessing.get_context('fork')
    with ctx.Pool(min(16, len(tasks))) as pool:
        return pool.map(_mono_group, tasks)


def _input_exists(an, y, x):
    kind, rest = x.split(':', 1)
    fpart, _, name = rest.rpartition('.')
    fname, _, inst = fpart.partition(':')
    fr = an.cat.find(y, fname, None if inst in ('', '*') else inst) or (an.cat.find(y, fname, 0) if inst == '*' else None)
    if fr is None:
        return False
    return name in (fr.input_map() if kind == 'i' else fr.field_map())


def _tree_of(an):
    from ..src import Tree
    return an.cat.tree


def monotone_directions(an, rep, tier):
    """R16.8 - with everything else fixed, adjusted gross income, the deduction taken, taxable income, the tax and the
    total tax move in one direction (or not at all) when one amount input grows.  Decided by sa/mono.py + sa/slope.py
    (candidate derivative forms with unfolding, region-wise slope proofs by exact Fourier-Motzkin, continuity across
    input-dependent decisions); the directions provable on the confirmed baseline are frozen in sa/data/monotone_lines.json
    and must stay provable.  Directions that are not provable on the baseline are listed with the reason (notes)."""
    frozen = load_data('monotone_lines.json')
    inputs = MONO_INPUTS_QUICK if tier == 'quick' else MONO_INPUTS_ALL
    # premise of every direction through the tax: the tax function itself never falls when the taxable amount grows (the slope
    # prover treats figure_tax as a monotone black box); decided by the piecewise-affine fold of C07, rule D3
    from . import c07
    from ..report import Report
    sub = Report('C07', 'quick', 0)
    try:
        c07.check(an.tree if hasattr(an, 'tree') else _tree_of(an), sub, tier='quick', seed=0)
    except AnalysisError as e:
        rep.error(f'premise "figure_tax is non-decreasing" not decided: {e}')
    nd = [v for v in sub.violations if v['rule'] == 'D3' and 'non-decreasing' in v['key']]
    rep.ob('R16.8', 'premise/figure_tax-never-falls-as-the-taxable-amount-grows', not nd,
           (nd[0]['message'] if nd else '') + ': more wages can then lower the tax, and a larger deduction can raise it', nd[0].get('where', '') if nd else '')
    res = mono_results(an, list(an.cat.years), inputs, tier)
    n = 0
    got = {}
    for (y, x, out, why) in res:
        for g, s in out.items():
            got[(y, x, g)] = (s, why.get(g, ''))
    for f in frozen['facts']:
        if f['input'] not in inputs:
            continue
        k = (f['year'], f['input'], f['line'])
        if k not in got:
            rep.notes.append(f'frozen direction {k}: line or input no longer exists')
            continue
        n += 1
        s, why = got[k]
        word = {'+': 'never falls', '-': 'never rises', '0': 'does not move'}
        rep.ob('R16.8', f'{f["year"]}/{f["line"]}<-{f["input"]}', s == f['dir'],
               f'{f["year"]} {f["line"]} {word[f["dir"]]} when {f["input"]} grows - that was provable and no longer is '
               f'(now: {"no direction provable" if s == "?" else word.get(s, s)}{"; " + why if why else ""}): '
               + ('more of it can lower the tax' if f['input'].startswith('v:w-2') else 'a larger deductible expense can raise the tax'), '')
    for k, (s, why) in sorted(got.items()):
        if s == '?':
            rep.notes.append(f'{k[0]}: direction of {k[2]} in {k[1]} not decided ({why[:120]})')
    return n


def regenerate_monotone():
    from ..src import Tree
    from ..lines import get_analysis
    an = get_analysis(Tree())
    res = mono_results(an, list(an.cat.years), MONO_INPUTS_ALL)
    facts = []
    for (y, x, out, why) in sorted(res, key=lambda r: (r[0], r[1])):
        for g, s in sorted(out.items()):
            if s in ('+', '-', '0'):
                facts.append({'year': y, 'input': x, 'line': g, 'dir': s})
    return {'comment': 'R16.8: directions provable on the confirmed baseline (sa.checks.c16.regenerate_monotone)', 'facts': facts}
