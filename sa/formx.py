"""E2: the per-year form catalogue, obtained by statically evaluating each form
class's constructor (see interp.py)."""
import ast

from .interp import (Interp, Rec, Closure, ClassV, EnumV, EnumMember, Unknown, InterpAbort,
                     SolverTok, BoundMethod, Opaque, DictKeyUnknown)
from .src import AnalysisError, unparse


class FormRec:
    def __init__(self, year, cls, instance):
        self.year = year
        self.cls = cls
        self.instance = instance
        self.rec = None
        self.abort = None
        self.class_attrs = {}

    @property
    def form_name(self):
        return self.class_attrs.get('form_name')

    @property
    def name(self):
        return self.form_name if self.instance is None else f'{self.form_name}:{self.instance}'

    def _get(self, attr, default):
        if self.rec is None:
            return default
        return self.rec.attrs.get(attr, default)

    @property
    def inputs(self):
        return self._get('_inputs', [])

    @property
    def required(self):
        return self._get('_required_fields', [])

    @property
    def optional(self):
        return self._get('_optional_fields', [])

    @property
    def fields(self):
        r, o = self.required, self.optional
        if isinstance(r, list) and isinstance(o, list):
            return r + o
        return []

    @property
    def thresholds(self):
        return self._get('_thresholds', {})

    @property
    def pdf_fields(self):
        return self._get('_pdf_fields', [])

    @property
    def pdf_file(self):
        return self._get('_pdf_file', None)

    def input_map(self):
        return {r.attrs.get('_name'): r for r in self.inputs if isinstance(r, Rec)}

    def field_map(self):
        return {r.attrs.get('_name'): r for r in self.fields if isinstance(r, Rec)}

    def needs_filing_node(self):
        c, m = self.cls.find_method('needs_filing')
        return c, m

    @property
    def where(self):
        return f'{self.cls.rel}:{self.cls.node.lineno}'


CLASS_ATTRS = ('form_name', 'tax_year', 'description', 'long_description', 'jurisdiction',
               'sequence_no', 'valid_instances')


class Catalogue:
    def __init__(self, tree):
        self.tree = tree
        self.interp = Interp(tree)
        self.years = tree.years()
        self.by_year = {}          # year -> [FormRec] (one per class x allowed instance)
        self.classes = {}          # year -> [ClassV] as listed in available_forms
        self.available_problem = {}
        for y in self.years:
            self._load_year(y)

    def _load_year(self, y):
        rel = f'habutax/forms/ty{y}/__init__.py'
        ip = self.interp
        ns = ip.module_ns(rel)
        v, found = ip.ns_lookup(ns, 'available_forms', rel)
        if not found or not isinstance(v, list):
            raise AnalysisError(f'{rel}: available_forms is not a statically known list ({v!r})')
        self.classes[y] = v
        out = []
        for cls in v:
            if not isinstance(cls, ClassV):
                raise AnalysisError(f'{rel}: available_forms entry is not a class: {cls!r}')
            attrs = {}
            for a in CLASS_ATTRS:
                c, node = cls.class_attr_node(a)
                if node is not None:
                    attrs[a] = ip.eval_in_ns(node, ip.module_ns(c.rel), c.rel)
            insts = attrs.get('valid_instances')
            if isinstance(insts, list) and insts:
                todo = list(insts)
            else:
                todo = [None]
            for inst in todo:
                fr = FormRec(y, cls, inst)
                fr.class_attrs = attrs
                try:
                    fr.rec = ip.instantiate(cls, [], {'instance': inst, 'solver': SolverTok()}, cls.node,
                                            _root_scope(ip, cls.rel))
                except InterpAbort as e:
                    fr.abort = e
                out.append(fr)
        self.by_year[y] = out

    # ------------------------------------------------------------------ lookup
    def forms(self, year):
        return self.by_year[year]

    def form_names(self, year):
        return {f.form_name for f in self.by_year[year]}

    def find(self, year, form_name, instance=None):
        """FormRec for a form name; for forms with valid_instances the given
        instance must match, for others any instance maps to the single record."""
        cands = [f for f in self.by_year[year] if f.form_name == form_name]
        if not cands:
            return None
        if cands[0].class_attrs.get('valid_instances'):
            for f in cands:
                if f.instance == instance:
                    return f
            return None
        return cands[0]

    def all_forms(self):
        for y in self.years:
            for f in self.by_year[y]:
                yield f


def _root_scope(ip, rel):
    from .interp import Scope
    return Scope(ns=ip.module_ns(rel), rel=rel)


def field_closure(rec):
    """The value function of a Field Rec (what TypedField stores via MethodType)."""
    v = rec.attrs.get('_value')
    if isinstance(v, BoundMethod):
        return v.closure
    if isinstance(v, Closure):
        return v
    return None


def pdf_value_fn(rec):
    v = rec.attrs.get('_value_fn')
    if isinstance(v, BoundMethod):
        return v.closure
    if isinstance(v, Closure):
        return v
    return None


def has_unknown(v, depth=0):
    if isinstance(v, (Unknown, DictKeyUnknown)):
        return v
    if depth > 6:
        return None
    if isinstance(v, (list, tuple, set)):
        for x in v:
            u = has_unknown(x, depth + 1)
            if u is not None:
                return u
    if isinstance(v, dict):
        for k, x in v.items():
            u = has_unknown(k, depth + 1) or has_unknown(x, depth + 1)
            if u is not None:
                return u
    return None
