"""Extraction of the numeric constants a line definition uses, located
semantically: (line, role, the inputs/lines the constant is combined or compared
with), per filing status (partial evaluation under filing_status = member)."""
import re

from .formx import field_closure
from .interp import EnumMember
from .lineabs import LineEval, InputsTok, ValuesTok, E

TRIVIAL = {0, 1, -1, 0.001, 100, 2}


def canon(txt):
    return re.sub(r':(\{[^}]*\}|\d+)\.', ':*.', str(txt))


def atoms_of(e, found=None):
    found = set() if found is None else found
    if isinstance(e, E):
        if e.op in ('i', 'v'):
            found.add(e.op + ':' + canon(e.args[0]))
        for a in e.args:
            atoms_of(a, found)
    elif isinstance(e, (list, tuple)):
        for a in e:
            atoms_of(a, found)
    return found


def sig(e):
    return '+'.join(sorted(atoms_of(e))) or '-'


def is_num(x):
    return isinstance(x, (int, float)) and not isinstance(x, bool)


def walk_expr(e, out, role_prefix=''):
    """collect (role, signature, constant) from an expression tree"""
    if not isinstance(e, E):
        return
    if e.op in ('mul', 'div'):
        a, b = e.args
        if is_num(a) and isinstance(b, E):
            out.add(('rate' if e.op == 'mul' else 'num', sig(b), a))
        if is_num(b) and isinstance(a, E):
            out.add(('rate' if e.op == 'mul' else 'div', sig(a), b))
    if e.op in ('min', 'max'):
        consts = [a for a in e.args if is_num(a)]
        syms = [a for a in e.args if isinstance(a, E)]
        for c in consts:
            out.add((e.op, sig(syms), c))
    if e.op in ('add', 'sub'):
        a, b = e.args
        if is_num(b) and isinstance(a, E):
            out.add((e.op, sig(a), b))
        if is_num(a) and isinstance(b, E):
            out.add((e.op + '-from' if e.op == 'sub' else e.op, sig(b), a))
    if e.op in ('lt', 'le', 'gt', 'ge', 'eq', 'ne'):
        a, b = e.args
        if is_num(a) and isinstance(b, E):
            out.add(('cmp', sig(b), a))
        if is_num(b) and isinstance(a, E):
            out.add(('cmp', sig(a), b))
    for a in e.args:
        if isinstance(a, E):
            walk_expr(a, out)
        elif isinstance(a, (list, tuple)):
            for x in a:
                walk_expr(x, out)


def profile(cat, year, d, assume, csets=None):
    """set of (role, signature, constant) the definition uses under the assumption; paths that test another line for a
    value that line can never hold (sa/feasible.py) apply nothing and are left out"""
    ev = LineEval(cat, year, d.fr, assume=assume)
    paths = ev.run(field_closure(d.rec), [d.rec, InputsTok(d.fr.rec), ValuesTok(d.fr.rec)])
    if csets:
        from .feasible import infeasible
        paths = [p for p in paths if infeasible(p, csets) is None]
    out = set()
    for p in paths:
        for (c, pol, _n, _r) in p.guards:
            walk_expr(c, out)
        if p.outcome.kind == 'ret':
            v = p.outcome.value
            vals = v if isinstance(v, (tuple, list)) else [v]
            for x in vals:
                if is_num(x):
                    out.add(('ret', '-', x))
                else:
                    walk_expr(x, out)
    return {t for t in out if t[2] not in TRIVIAL}, paths


def status_atom(cat, year):
    return 'i:1040.filing_status'


def year_profiles(an, year, status_enum):
    """{line key: {(role, sig): {status name: sorted consts}}}"""
    cat = an.cat
    res = {}
    from .feasible import const_sets
    csets = const_sets(an, year)
    for d in an.defs.values():
        if d.year != year:
            continue
        reads_status = any(r.atom in ('i:1040.filing_status', 'v:1040.filing_status') for r in d.reads())
        per = {}
        members = status_enum.members if reads_status else ['*']
        for m in members:
            # the Form 1040 line `filing_status` mirrors the input of the same name
            assume = {'i:1040.filing_status': status_enum.member(m), 'v:1040.filing_status': status_enum.member(m)} if reads_status else {}
            prof, _ = profile(cat, year, d, assume, csets)
            for (role, sg, c) in prof:
                per.setdefault((role, sg), {}).setdefault(m, set()).add(c)
        if per:
            res[f'{d.fr.name}.{d.name}'] = per
    return res
