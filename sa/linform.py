"""Linear normal forms of symbolic expressions (E terms of lineabs): Σ coeff·term
+ const with structured terms max0 / min / max / product / per-instance sum.
float(), round() are erased; sums are order-free."""
from fractions import Fraction

from .lineabs import E
from .amounts import canon


class NonLinear(Exception):
    pass


def fr(x):
    if isinstance(x, bool):
        return Fraction(int(x))
    if isinstance(x, int):
        return Fraction(x)
    if isinstance(x, float):
        return Fraction(repr(x))
    return Fraction(x)


class Lin:
    __slots__ = ('const', 'terms')

    def __init__(self, const=0, terms=None):
        self.const = fr(const)
        self.terms = dict(terms or {})

    def add(self, other, sign=1):
        out = Lin(self.const + sign * other.const, self.terms)
        for t, c in other.terms.items():
            out.terms[t] = out.terms.get(t, 0) + sign * c
            if out.terms[t] == 0:
                del out.terms[t]
        return out

    def scale(self, k):
        k = fr(k)
        if k == 0:
            return Lin(0)
        return Lin(self.const * k, {t: c * k for t, c in self.terms.items()})

    def freeze(self):
        return (self.const, tuple(sorted(self.terms.items(), key=lambda kv: repr(kv[0]))))

    def is_const(self):
        return not self.terms

    def single_atom(self):
        if self.const == 0 and len(self.terms) == 1:
            (t, c), = self.terms.items()
            if c == 1:
                return t
        return None

    def __eq__(self, o):
        return isinstance(o, Lin) and self.freeze() == o.freeze()

    def __repr__(self):
        parts = []
        for t, c in sorted(self.terms.items(), key=lambda kv: repr(kv[0])):
            parts.append((f'{float(c):g}*' if c != 1 else '') + show_term(t))
        if self.const != 0 or not parts:
            parts.append(f'{float(self.const):g}')
        return ' + '.join(parts)


def show_term(t):
    k = t[0]
    if k == 'a':
        return t[1]
    if k == 'max0':
        return f'max0({show_frozen(t[1])})'
    if k in ('ceil', 'floor', 'int'):
        return f'{k}({show_frozen(t[1])})'
    if k == 'ftax':
        return f'tax({show_frozen(t[1])})'
    if k in ('min', 'max'):
        return f'{k}(' + ', '.join(sorted(show_frozen(x) for x in t[1])) + ')'
    if k == 'prod':
        return '*'.join(sorted(show_term(x) for x in t[1]))
    if k == 'sumn':
        return f'Σ[{t[1]}]({show_frozen(t[2])})'
    return f'{k}<{str(t[1])[:40]}>'


def show_frozen(f):
    return repr(Lin(f[0], dict(f[1])))


def atom(kind, key):
    return ('a', f'{kind}:{canon(key)}')


def lin_of(e, zero_atoms=frozenset(), subst=None):
    """E / python value -> Lin ; raises NonLinear"""
    if e is None:
        raise NonLinear('blank')
    if isinstance(e, bool):
        return Lin(int(e))
    if isinstance(e, (int, float)):
        return Lin(e)
    if not isinstance(e, E):
        raise NonLinear(f'not numeric: {type(e).__name__}')
    op = e.op
    if op in ('i', 'v'):
        a = atom(op, e.args[0])
        if a[1] in zero_atoms:
            return Lin(0)
        if subst and a[1] in subst:
            return subst[a[1]]
        return Lin(0, {a: 1})
    if op == 'add':
        return lin_of(e.args[0], zero_atoms, subst).add(lin_of(e.args[1], zero_atoms, subst))
    if op == 'sub':
        return lin_of(e.args[0], zero_atoms, subst).add(lin_of(e.args[1], zero_atoms, subst), -1)
    if op == 'neg':
        return lin_of(e.args[0], zero_atoms, subst).scale(-1)
    if op == 'mul':
        a, b = lin_of(e.args[0], zero_atoms, subst), lin_of(e.args[1], zero_atoms, subst)
        if a.is_const():
            return b.scale(a.const)
        if b.is_const():
            return a.scale(b.const)
        ta, tb = a.single_atom(), b.single_atom()
        if ta is not None and tb is not None:
            return Lin(0, {('prod', frozenset([ta, tb])): 1})
        return Lin(0, {('prod', frozenset([('lin', a.freeze()), ('lin', b.freeze())])): 1})
    if op == 'div':
        a, b = lin_of(e.args[0], zero_atoms, subst), lin_of(e.args[1], zero_atoms, subst)
        if b.is_const() and b.const != 0:
            return a.scale(1 / b.const)
        return Lin(0, {('div', (a.freeze(), b.freeze())): 1})
    if op == 'call':
        name = e.args[0]
        if name in ('float', 'abs_') and len(e.args) == 2:
            return lin_of(e.args[1], zero_atoms, subst)
        if name == 'round':
            return lin_of(e.args[1], zero_atoms, subst)
        if name == 'int':
            return Lin(0, {('int', lin_of(e.args[1], zero_atoms, subst).freeze()): 1})
        if isinstance(name, str) and name.endswith(':figure_tax') and len(e.args) >= 2:
            # the tax function: kept with its argument so that monotonicity in the amount can be used (C07 decides the function itself)
            return Lin(0, {('ftax', lin_of(e.args[1], zero_atoms, subst).freeze(), repr(e.args[2:])): 1})
        if name in ('ceil', 'floor') and len(e.args) == 2:
            return Lin(0, {(name, lin_of(e.args[1], zero_atoms, subst).freeze()): 1})
        return Lin(0, {('op', e.key()): 1})
    if op in ('min', 'max'):
        parts = []
        for a in e.args:
            parts.append(lin_of(a, zero_atoms, subst))
        if op == 'max' and len(parts) == 2:
            zero = [p for p in parts if p.is_const() and p.const == 0]
            other = [p for p in parts if not (p.is_const() and p.const == 0)]
            if len(zero) == 1 and len(other) == 1:
                if other[0].is_const():
                    return Lin(max(other[0].const, 0))
                return Lin(0, {('max0', other[0].freeze()): 1})
        if all(p.is_const() for p in parts):
            vals = [p.const for p in parts]
            return Lin(min(vals) if op == 'min' else max(vals))
        return Lin(0, {(op, frozenset(p.freeze() for p in parts)): 1})
    if op == 'sumn':
        body = lin_of(e.args[2], zero_atoms, subst)
        cnt = e.args[0].key() if isinstance(e.args[0], E) else repr(e.args[0])
        return Lin(0, {('sumn', canon(cnt), body.freeze()): 1})
    if op == 'ite':
        return Lin(0, {('op', e.key()): 1})
    if op == 'top':
        raise NonLinear('imprecise value')
    return Lin(0, {('op', e.key()): 1})


def max0(l):
    if l.is_const():
        return Lin(max(l.const, 0))
    return Lin(0, {('max0', l.freeze()): 1})


def minof(ls):
    if all(l.is_const() for l in ls):
        return Lin(min(l.const for l in ls))
    return Lin(0, {('min', frozenset(l.freeze() for l in ls)): 1})


def maxof(ls):
    if all(l.is_const() for l in ls):
        return Lin(max(l.const for l in ls))
    return Lin(0, {('max', frozenset(l.freeze() for l in ls)): 1})
