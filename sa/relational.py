"""Relational non-negativity proofs for C15: polyhedral case analysis.

Goal: a linear form over line/input atoms is >= 0 on a path.  The definitions of
the lines it reads are unfolded (each line = a disjunction of its paths: guards
and value), min / max / max(0, .) terms are split into their linear cases, and
every leaf system {guards, unfolded equalities, sign facts, goal < 0} must be
infeasible - decided by exact Fourier-Motzkin elimination over the rationals.
Guards and terms that are not linear are dropped or made opaque, which can only
lose proofs, never invent them.  Rounding of stored values is not modelled."""
from fractions import Fraction

from .amounts import canon
from .lineabs import E
from .linform import Lin, lin_of, NonLinear

MAX_CASES = 3000
MAX_DEPTH = 14
MAX_CROSS = 6          # unfoldings of lines of other forms per branch


class Con:
    """sum(coeffs[x] * x) + const  >= 0   (strict: > 0)"""
    __slots__ = ('coeffs', 'const', 'strict')

    def __init__(self, coeffs, const, strict=False):
        self.coeffs = {k: v for k, v in coeffs.items() if v != 0}
        self.const = Fraction(const)
        self.strict = strict


def fm_infeasible(cons, budget=4000):
    """True if the system has no rational solution"""
    cons = list(cons)
    while True:
        # constant constraints
        rest = []
        for c in cons:
            if not c.coeffs:
                if c.const < 0 or (c.strict and c.const == 0):
                    return True
            else:
                rest.append(c)
        cons = rest
        if not cons:
            return False
        # pick the variable with the fewest pos*neg products
        occ = {}
        for c in cons:
            for v, a in c.coeffs.items():
                p = occ.setdefault(v, [0, 0])
                p[0 if a > 0 else 1] += 1
        var = min(occ, key=lambda v: occ[v][0] * occ[v][1])
        pos = [c for c in cons if c.coeffs.get(var, 0) > 0]
        neg = [c for c in cons if c.coeffs.get(var, 0) < 0]
        other = [c for c in cons if var not in c.coeffs]
        if len(pos) * len(neg) + len(other) > budget:
            return False          # give up: not proved
        new = other
        for p in pos:
            for n in neg:
                a, b = p.coeffs[var], -n.coeffs[var]
                coeffs = {}
                for k, v in p.coeffs.items():
                    if k != var:
                        coeffs[k] = coeffs.get(k, 0) + v * b
                for k, v in n.coeffs.items():
                    if k != var:
                        coeffs[k] = coeffs.get(k, 0) + v * a
                new.append(Con(coeffs, p.const * b + n.const * a, p.strict or n.strict))
        cons = new


class Prover:
    def __init__(self, defs, nn_atoms, zero_atoms):
        self.defs = defs              # canonical atom 'v:form.line' -> DefResult
        self.nn = nn_atoms            # atoms assumed >= 0 (candidate set + typed inputs handled separately)
        self.zero = zero_atoms
        self.cases = 0
        self.fresh = 0
        self.ub = {}                  # optional: atom -> set of frozen linear upper bounds (signs.compute_ub)
        self.defs_all = None          # optional: all definitions of the year (incl. yes/no lines) for guard unfolding

    # ---- turning Lin (with structured terms) into plain linear combos + side conditions
    def var_of_term(self, t, st):
        if t[0] == 'a':
            return t[1]
        name = self.names.get(t)
        if name is None:
            name = f'%{len(self.names)}'
            self.names[t] = name
        if name not in st['active'] and all(n != name for n, _ in st['todo']):
            st['todo'].append((name, t))
        return name

    def lin_to_coeffs(self, lin, st, scale=1):
        coeffs = {}
        for t, c in lin.terms.items():
            v = self.var_of_term(t, st)
            coeffs[v] = coeffs.get(v, 0) + c * scale
        return coeffs, lin.const * scale

    def ge(self, a, b, st, strict=False):
        """a - b >= 0"""
        ca, ka = self.lin_to_coeffs(a, st)
        cb, kb = self.lin_to_coeffs(b, st)
        for k, v in cb.items():
            ca[k] = ca.get(k, 0) - v
        return Con(ca, ka - kb, strict)

    def eq(self, a, b, st):
        return [self.ge(a, b, st), self.ge(b, a, st)]

    def thaw(self, f):
        return Lin(f[0], dict(f[1]))

    # ---- main entry
    def prove_nonneg(self, value, guards, owner_atom=None):
        """value: E or number; guards: path guards [(cond, pol, ..)] -> bool"""
        try:
            goal = lin_of(value, self.zero)
        except NonLinear:
            return False
        self.cases = 0
        self.names = {}
        self.order = []
        self.form_prefix = owner_atom.rsplit('.', 1)[0] if owner_atom else None
        st = {'todo': [], 'active': set(), 'unfolded': {owner_atom} if owner_atom else set(), 'cross': 0}
        cons = []
        for g in guards:
            c = self.guard_con(g[0], g[1], st)
            if c is not None:
                cons.append(c)
        neg_goal = self.ge(Lin(0), goal, st, strict=True)
        try:
            return self.search(cons + [neg_goal], st, 0)
        except _Budget:
            return False

    def guard_con(self, c, pol, st, depth=0):
        if isinstance(c, E) and c.op in ('gt', 'ge', 'le') and len(c.args) == 2:
            a, b = c.args
            if c.op == 'gt':
                return self.guard_con(E('lt', b, a, ty='bool'), pol, st, depth)
            if c.op == 'ge':
                return self.guard_con(E('lt', a, b, ty='bool'), not pol, st, depth)
            return self.guard_con(E('lt', b, a, ty='bool'), not pol, st, depth)
        if isinstance(c, E) and c.op == 'not':
            return self.guard_con(c.args[0], not pol, st, depth)
        if isinstance(c, E) and c.op == 'v' and c.ty == 'bool' and depth < 3:
            # a yes/no line used as a guard: use the comparison it is defined by
            d = self.defs_all.get('v:' + canon(c.args[0])) if self.defs_all else None
            if d is not None:
                rets = [p for p in d.paths if p.outcome.kind == 'ret']
                if len(rets) == 1 and len(d.paths) == 1 and isinstance(rets[0].outcome.value, E):
                    return self.guard_con(rets[0].outcome.value, pol, st, depth + 1)
            return None
        if isinstance(c, E) and c.op == 'lt':
            try:
                a, b = lin_of(c.args[0], self.zero), lin_of(c.args[1], self.zero)
            except NonLinear:
                return None
            if pol:
                return self.ge(b, a, st, strict=True)     # a < b
            return self.ge(a, b, st)                       # not (a < b)
        return None

    def sign_facts(self, cons):
        vars_ = set()
        for c in cons:
            vars_.update(c.coeffs)
        out = []
        for v in vars_:
            if v.startswith('%'):
                continue
            if v.startswith('i:') or v in self.nn:
                out.append(Con({v: 1}, 0))
            # symbolic upper bounds of the line common to all its value paths (min(a, b) <= a ...): usable when the
            # bound is itself a non-negative combination of plain atoms (a blank path leaves the line at 0)
            for f in sorted(self.ub.get(v, ()), key=repr)[:4]:
                const, terms = f
                if const < 0 or not terms:
                    continue
                if all(t[0] == 'a' and c > 0 and (t[1].startswith('i:') or t[1] in self.nn) for t, c in terms):
                    coeffs = {t[1]: c for t, c in terms}
                    coeffs[v] = coeffs.get(v, 0) - 1
                    out.append(Con(coeffs, const))
        return out

    def extend_vars(self, vars_):
        return vars_

    def pick_candidates(self, vars_, st):
        # unfold only lines of the same form as the goal (worksheet-local reasoning), in discovery order
        cands = [v for v in self.order if v in vars_ and v not in st['unfolded']]
        for v in sorted(vars_):
            if v.startswith('v:') and v in self.defs and v not in st['unfolded'] and v not in cands and self.same_form(v):
                cands.append(v)
                self.order.append(v)
        if not cands and st['cross'] < MAX_CROSS:
            # nothing left in the goal's own form: follow the amounts carried from other forms
            for v in sorted(vars_):
                if v.startswith('v:') and v in self.defs and v not in st['unfolded'] and ':*' not in v:
                    cands.append(v)
        return cands

    def same_form(self, atom):
        return self.form_prefix is not None and atom.rsplit('.', 1)[0] == self.form_prefix

    def branch(self, st):
        return {'todo': list(st['todo']), 'active': set(st['active']), 'unfolded': set(st['unfolded']), 'cross': st['cross']}

    def search(self, cons, st, depth):
        """True if every way of resolving the pending disjunctions gives an infeasible system"""
        self.cases += 1
        if self.cases > getattr(self, 'max_cases', MAX_CASES):
            raise _Budget()
        t_end = getattr(self, 't_end', None)
        if t_end is not None and (self.cases & 7) == 0:
            import time
            if time.time() > t_end:
                raise _Budget()
        if fm_infeasible(cons + self.sign_facts(cons)):
            return True
        if st['todo']:
            st2 = self.branch(st)
            name, t = st2['todo'].pop()
            st2['active'].add(name)
            alts = self.term_cases(name, t, st2)
            for alt in alts:
                if not self.search(cons + alt, self.branch(st2), depth):
                    return False
            return True
        if depth >= getattr(self, 'max_depth', MAX_DEPTH):
            return False
        vars_ = set()
        for c in cons:
            vars_.update(c.coeffs)
        vars_ = self.extend_vars(vars_)
        cands = self.pick_candidates(vars_, st)
        for v in cands:
            st2 = self.branch(st)
            st2['unfolded'].add(v)
            if not self.same_form(v):
                st2['cross'] += 1
            alts = self.line_cases(v, st2)
            if alts is None:
                st = st2
                continue
            for alt in alts:
                if not self.search(cons + alt, self.branch(st2), depth + 1):
                    return False
            return True
        return False

    def term_cases(self, name, t, st):
        """list of alternative constraint lists defining the fresh variable `name`"""
        x = Lin(0, {('a', name): 1})
        k = t[0]
        if k == 'max0':
            f = self.thaw(t[1])
            return [[self.ge(f, Lin(0), st)] + self.eq(x, f, st),
                    [self.ge(Lin(0), f, st)] + self.eq(x, Lin(0), st)]
        if k in ('min', 'max'):
            fs = [self.thaw(f) for f in t[1]]
            alts = []
            for i, fi in enumerate(fs):
                alt = self.eq(x, fi, st)
                for j, fj in enumerate(fs):
                    if i != j:
                        alt.append(self.ge(fj, fi, st) if k == 'min' else self.ge(fi, fj, st))
                alts.append(alt)
            return alts
        if k == 'ftax':
            return [[Con({name: 1}, 0)]]          # a tax is never negative (C07)
        if k in ('ceil', 'floor', 'int'):
            f = self.thaw(t[1])
            one = Lin(1)
            if k == 'ceil':           # f <= x <= f + 1
                return [[self.ge(x, f, st), self.ge(f.add(one), x, st)]]
            if k == 'floor':          # f - 1 <= x <= f
                return [[self.ge(f, x, st), self.ge(x, f.add(one, -1), st)]]
            return [[self.ge(f.add(one), x, st), self.ge(x, f.add(one, -1), st)]]
        if k == 'sumn':
            body = self.thaw(t[2])
            if body.const >= 0 and all(c >= 0 and tt[0] == 'a' and (tt[1].startswith('i:') or tt[1] in self.nn or tt[1] in self.zero) for tt, c in body.terms.items()):
                return [[Con({name: 1}, 0)]]
            return [[]]
        if k == 'prod':
            if all(tt[0] == 'a' and (tt[1].startswith('i:') or tt[1] in self.nn) for tt in t[1]):
                return [[Con({name: 1}, 0)]]
            return [[]]
        return [[]]          # opaque: no information

    def line_cases(self, atom, st):
        """alternatives {guards, x = value} for the paths of a line; None = leave opaque"""
        d = self.defs[atom]
        x = Lin(0, {('a', atom): 1})
        alts = []
        for p in d.paths:
            if p.outcome.kind != 'ret':
                continue          # the line has no value: the solve does not succeed
            v = p.outcome.value
            if isinstance(v, (tuple, list)):
                return None
            if v is None or v is False or v == '':
                val = Lin(0)
            else:
                try:
                    val = lin_of(v, self.zero)
                except NonLinear:
                    return None
            alt = self.eq(x, val, st)
            for g in p.guards:
                c = self.guard_con(g[0], g[1], st)
                if c is not None:
                    alt.append(c)
            alts.append(alt)
            if len(alts) > 12:
                return None
        return alts or None


class _Budget(Exception):
    pass
