"""E8: both-ways self-test.  Every variant is an in-memory overlay on the real
tree (the analysers only read files); must-fire variants break one instance of a
rule and must be reported by the named property with the named rule, benign
variants preserve behaviour and must stay silent.  An unnoticed must-fire
variant or an alarm on a benign one makes the thorough run exit 2."""
import importlib
import multiprocessing
import os
import sys
import time
import traceback

from .report import Report
from .src import Tree, AnalysisError


def apply_edit(tree, m):
    overlay = {}
    for (rel, old, new) in m['edits']:
        text = overlay.get(rel)
        if text is None:
            text = tree.read(rel)
        cnt = text.count(old)
        want = m.get('count', 1)
        if (want is None and cnt < 1) or (want is not None and cnt != want and rel == m['edits'][0][0] and old == m['edits'][0][1]) \
                or (want is not None and (rel, old) != (m['edits'][0][0], m['edits'][0][1]) and cnt != 1):
            raise AnalysisError(f'self-test variant {m["id"]}: anchor text occurs {cnt} times in {rel}, expected {want} (variant is stale)')
        overlay[rel] = text.replace(old, new)
        try:
            compile(overlay[rel], rel, 'exec')
        except SyntaxError as e:
            raise AnalysisError(f'self-test variant {m["id"]}: edited {rel} does not compile: {e}')
    return tree.with_overlay(overlay)


def run_variant(args):
    pid, m = args
    t0 = time.time()
    try:
        base = Tree()
        vt = apply_edit(base, m)
        mod = importlib.import_module(f'sa.checks.{pid.lower()}')
        rep = Report(pid, 'quick', 0)
        err = None
        try:
            mod.check(vt, rep, tier='quick', seed=0)
        except AnalysisError as e:
            err = f'analysis error: {e}'
        except Exception:
            err = 'crash: ' + traceback.format_exc().strip().splitlines()[-1]
        viol = [(v['rule'], v['key'], v['message'][:200]) for v in rep.violations]
        return {'id': m['id'], 'pid': pid, 'violations': viol, 'errors': rep.errors + ([err] if err else []), 'wall': time.time() - t0}
    except AnalysisError as e:
        return {'id': m['id'], 'pid': pid, 'violations': [], 'errors': [f'stale: {e}'], 'stale': True, 'wall': time.time() - t0}


def selftest(pid, rep, seed=0, jobs=None):
    from .mutants import MUTANTS
    mine = [m for m in MUTANTS if pid in m['pids']]
    if not mine:
        rep.error(f'no self-test variants registered for {pid}')
        return
    jobs = jobs or min(16, os.cpu_count() or 4, len(mine))
    with multiprocessing.Pool(jobs) as pool:
        results = pool.map(run_variant, [(pid, m) for m in mine])
    caught = missed = silent_ok = false_alarm = 0
    detail = []
    for m, r in zip(mine, results):
        expect = m.get('expect', 'fire')
        rule = m.get('rule')
        if r.get('stale'):
            rep.error(f'{r["errors"][0]}')
            continue
        if expect == 'fire':
            hit = [v for v in r['violations'] if rule is None or v[0].startswith(rule)]
            # an analysis error is also "noticed" for variants that remove an anchor
            if hit or (m.get('accept_error') and r['errors']):
                caught += 1
                detail.append({'variant': m['id'], 'expect': 'fire', 'result': 'caught', 'by': hit[0][:2] if hit else r['errors'][0][:120]})
            else:
                missed += 1
                rep.error(f'self-test: must-fire variant {m["id"]} ({m["what"]}) was NOT reported by {pid}'
                          + (f' (other reports: {[v[:2] for v in r["violations"][:3]]}; errors: {r["errors"][:1]})' if (r['violations'] or r['errors']) else ''))
                detail.append({'variant': m['id'], 'expect': 'fire', 'result': 'MISSED'})
        else:
            if r['violations'] or r['errors']:
                false_alarm += 1
                rep.error(f'self-test: behaviour-preserving variant {m["id"]} ({m["what"]}) raised an alarm in {pid}: {(r["violations"] or r["errors"])[:2]}')
                detail.append({'variant': m['id'], 'expect': 'silent', 'result': 'FALSE ALARM'})
            else:
                silent_ok += 1
                detail.append({'variant': m['id'], 'expect': 'silent', 'result': 'silent'})
    rep.extra['selftest'] = {'variants': len(mine), 'must_fire_caught': caught, 'must_fire_missed': missed,
                             'benign_silent': silent_ok, 'benign_false_alarm': false_alarm, 'detail': detail}
    print(f'  self-test {pid}: {caught} must-fire caught, {missed} missed, {silent_ok} benign silent, {false_alarm} false alarms')
