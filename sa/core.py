"""E5a: model of the nine core modules: classes, functions, role inference for
the Solver's attributes (so that the protocol rules survive renames), a
name-based call graph, and small AST query helpers."""
import ast

from .cfg import CFG
from .src import AnalysisError, ClassTable, unparse, enclosing_function, enclosing_class


def attr_text(e):
    """'self._v' for Attribute(Name self, _v); None if not a plain chain"""
    parts = []
    while isinstance(e, ast.Attribute):
        parts.append(e.attr)
        e = e.value
    if isinstance(e, ast.Name):
        parts.append(e.id)
        return '.'.join(reversed(parts))
    return None


def self_attr(e):
    """attribute name if e is self.<name>"""
    if isinstance(e, ast.Attribute) and isinstance(e.value, ast.Name) and e.value.id == 'self':
        return e.attr
    return None


def calls_in(node):
    return [n for n in ast.walk(node) if isinstance(n, ast.Call)]


def call_name(c):
    """last attribute / function name of a call"""
    f = c.func
    if isinstance(f, ast.Attribute):
        return f.attr
    if isinstance(f, ast.Name):
        return f.id
    return None


def stmt_of(node):
    n = node
    while n is not None and not isinstance(n, ast.stmt):
        n = getattr(n, 'parent', None)
    return n


def handler_types(h):
    if h.type is None:
        return ['<bare>']
    if isinstance(h.type, ast.Tuple):
        return [unparse(e).split('.')[-1] for e in h.type.elts]
    return [unparse(h.type).split('.')[-1]]


class FuncInfo:
    def __init__(self, rel, cls, node):
        self.rel = rel
        self.cls = cls          # class name or None
        self.node = node
        self.name = node.name
        self._cfg = None

    @property
    def qual(self):
        return f'{self.rel}:{self.cls + "." if self.cls else ""}{self.name}'

    @property
    def cfg(self):
        if self._cfg is None:
            self._cfg = CFG(self.node, self.rel)
        return self._cfg

    def where(self, node=None):
        return f'{self.rel}:{getattr(node or self.node, "lineno", 0)}'


class Core:
    def __init__(self, tree):
        self.tree = tree
        self.rels = tree.core_modules()
        need = ['solver.py', 'form.py', 'fields.py', 'inputs.py', 'values.py', 'pdf_fields.py', 'pdf_filler.py', 'enum.py', '__init__.py']
        for n in need:
            if f'habutax/{n}' not in self.rels:
                raise AnalysisError(f'core module habutax/{n} is missing (anchor vanished)')
        self.mods = {rel: tree.module(rel) for rel in self.rels}
        self.classes = ClassTable(tree, self.rels)
        self.funcs = []          # all FuncInfo (methods and functions, nested functions included as their own entries)
        for rel, mod in self.mods.items():
            for n in ast.walk(mod):
                if isinstance(n, ast.FunctionDef):
                    c = enclosing_class(n)
                    f = enclosing_function(n)
                    self.funcs.append(FuncInfo(rel, c.name if c is not None and (f is None or enclosing_class(f) is not c or True) and _direct_method(n, c) else None, n))
        self.by_qual = {(f.rel, f.cls, f.name): f for f in self.funcs}
        self._solver = None

    def func(self, rel, cls, name):
        f = self.by_qual.get((rel, cls, name))
        if f is None:
            raise AnalysisError(f'{rel}: {cls + "." if cls else ""}{name} not found (anchor vanished)')
        return f

    def method(self, cls, name):
        ci = self.classes.classes.get(cls)
        if ci is None:
            raise AnalysisError(f'class {cls} not found in the core modules (anchor vanished)')
        c, m = self.classes.find_method(cls, name)
        if m is None:
            raise AnalysisError(f'{cls}.{name} not found (anchor vanished)')
        return self.func(c.rel, c.name, name)

    def all_nodes(self, types):
        for rel, mod in self.mods.items():
            for n in ast.walk(mod):
                if isinstance(n, types):
                    yield rel, n

    # ------------------------------------------------------------ solver roles
    @property
    def solver(self):
        if self._solver is None:
            self._solver = SolverRoles(self)
        return self._solver

    # ------------------------------------------------------------ call graph
    def callees(self, f):
        """Names of functions/methods possibly called from f (name-based)."""
        out = set()
        for c in calls_in(f.node):
            nm = call_name(c)
            if nm:
                out.add(nm)
        return out

    def reachable_from(self, start, extra_edges=None):
        """FuncInfos reachable from `start` by name-based resolution inside the core."""
        by_name = {}
        for f in self.funcs:
            by_name.setdefault(f.name, []).append(f)
        seen = {}
        todo = [start]
        while todo:
            f = todo.pop()
            if id(f) in seen:
                continue
            seen[id(f)] = f
            for nm in self.callees(f):
                for g in by_name.get(nm, []):
                    todo.append(g)
                if nm in self.classes.classes:      # constructor call
                    c, m = self.classes.find_method(nm, '__init__')
                    if m is not None:
                        todo.append(self.func(c.rel, c.name, '__init__'))
        return list(seen.values())


def _direct_method(fn, cls):
    return cls is not None and fn in cls.body


class SolverRoles:
    """Roles of the Solver's attributes, inferred from initialisers and handler
    use (DESIGN.md appendix B)."""

    def __init__(self, core):
        self.core = core
        rel = 'habutax/solver.py'
        mod = core.mods[rel]
        # the class whose method has handlers for UnmetDependency and MissingInput
        cand = []
        for n in mod.body:
            if isinstance(n, ast.ClassDef):
                for m in n.body:
                    if isinstance(m, ast.FunctionDef):
                        types = [x for t in ast.walk(m) if isinstance(t, ast.Try) for h in t.handlers for x in handler_types(h)]
                        if 'UnmetDependency' in types and 'MissingInput' in types:
                            cand.append((n, m))
        if len(cand) != 1:
            raise AnalysisError(f'{rel}: cannot identify the solver class / attempt method uniquely ({len(cand)} candidates)')
        self.cls, attempt = cand[0]
        self.rel = rel
        self.name = self.cls.name
        self.attempt = core.func(rel, self.name, attempt.name)
        self.solve = core.func(rel, self.name, 'solve')
        self.init = core.func(rel, self.name, '__init__')
        self.try_ = next(t for t in ast.walk(attempt) if isinstance(t, ast.Try))
        self.handlers = {}
        for h in self.try_.handlers:
            for x in handler_types(h):
                self.handlers.setdefault(x, h)
        for x in ('UnmetDependency', 'MissingInput', 'MissingInputSpecification', 'FieldNotImplemented'):
            if x not in self.handlers:
                raise AnalysisError(f'{rel}: {attempt.name} has no handler for {x} (anchor vanished)')
        init = self.init.node
        params = [a.arg for a in init.args.args]
        assigns = {}
        for st in ast.walk(init):
            if isinstance(st, ast.Assign):
                for t in st.targets:
                    a = self_attr(t)
                    if a:
                        assigns.setdefault(a, []).append(st.value)

        def from_call(pred):
            out = [a for a, vs in assigns.items() for v in vs if isinstance(v, ast.Call) and pred(v)]
            return out

        vs = from_call(lambda c: call_name(c) == 'ValueStore')
        if len(vs) != 1:
            raise AnalysisError(f'{rel}: value store attribute not identified ({vs})')
        self.value_store = vs[0]
        trackers = from_call(lambda c: call_name(c) == 'DependencyTracker')
        if len(trackers) != 2:
            raise AnalysisError(f'{rel}: expected two DependencyTracker attributes, found {trackers}')

        def tracker_of_getter(getter):
            # public API: unmet_input_dependencies() / unmet_field_dependencies() name their tracker
            try:
                gf = core.func(rel, self.name, getter)
            except AnalysisError:
                return None
            hits = {self_attr(n) for n in ast.walk(gf.node) if isinstance(n, ast.Attribute) and self_attr(n) in trackers}
            return hits.pop() if len(hits) == 1 else None

        def tracker_in(handler):
            for c in calls_in(handler):
                if call_name(c) == 'add_unmet':
                    a = self_attr(c.func.value)
                    if a in trackers:
                        return a
            return None
        self.field_tracker = tracker_of_getter('unmet_field_dependencies') or tracker_in(self.handlers['UnmetDependency'])
        self.input_tracker = tracker_of_getter('unmet_input_dependencies') or tracker_in(self.handlers['MissingInput'])
        if not self.field_tracker or not self.input_tracker or self.field_tracker == self.input_tracker:
            raise AnalysisError(f'{rel}: trackers not told apart by their getters or handlers')
        # input store: attribute assigned from the first constructor parameter
        ins = [a for a, vs_ in assigns.items() for v in vs_ if isinstance(v, ast.Name) and len(params) > 1 and v.id == params[1]]
        if len(ins) != 1:
            raise AnalysisError(f'{rel}: input store attribute not identified ({ins})')
        self.input_store = ins[0]
        # prompt attribute: assigned from the parameter named prompt (or the last parameter)
        pr = [a for a, vs_ in assigns.items() for v in vs_ if isinstance(v, ast.Name) and v.id == params[-1]]
        if len(pr) != 1:
            raise AnalysisError(f'{rel}: prompt attribute not identified ({pr})')
        self.prompt = pr[0]
        # refused flag: initialised from `self.<prompt> is None`
        rf = [a for a, vs_ in assigns.items() for v in vs_
              if isinstance(v, ast.Compare) and self_attr(v.left) == self.prompt and isinstance(v.ops[0], ast.Is)]
        if len(rf) != 1:
            raise AnalysisError(f'{rel}: refused flag not identified ({rf})')
        self.refused = rf[0]
        # unimplemented list: appended to in the FieldNotImplemented handler
        ul = []
        try:
            gf = core.func(rel, self.name, 'unimplemented_fields')
            ul = [self_attr(r.value) for r in ast.walk(gf.node) if isinstance(r, ast.Return) and r.value is not None and self_attr(r.value)]
        except AnalysisError:
            pass
        if len(set(ul)) != 1:
            ul = [self_attr(c.func.value) for c in calls_in(self.handlers['FieldNotImplemented']) if call_name(c) == 'append' and self_attr(c.func.value)]
        if len(set(ul)) != 1:
            raise AnalysisError(f'{rel}: unimplemented list not identified ({ul})')
        self.unimplemented = ul[0]
        # solved flag: what solve returns
        rets = [self_attr(r.value) for r in ast.walk(self.solve.node) if isinstance(r, ast.Return) and r.value is not None]
        rets = [r for r in rets if r]
        if len(set(rets)) != 1:
            raise AnalysisError(f'{rel}: solve() does not return one attribute ({rets})')
        self.solved = rets[0]
        # solving set: tested with `not in` in the UnmetDependency handler
        ss = [a for a, vs_ in assigns.items() if isinstance(vs_[0], ast.Call) and call_name(vs_[0]) == 'set' and not vs_[0].args]
        if len(set(ss)) > 1:
            # several sets: the solving set is the one the UnmetDependency handler tests the dependency against
            tested = {self_attr(c.comparators[0]) for c in ast.walk(self.handlers['UnmetDependency']) if isinstance(c, ast.Compare) and len(c.ops) == 1
                      and isinstance(c.ops[0], (ast.NotIn, ast.In)) and self_attr(c.comparators[0]) in ss}
            ss = sorted(tested)
        if len(set(ss)) != 1:
            raise AnalysisError(f'{rel}: solving set not identified ({ss})')
        self.solving = ss[0]
        # queue: popped in solve, result passed to the attempt method
        q = []
        for c in calls_in(self.solve.node):
            if call_name(c) == self.attempt.name:
                for a in c.args:
                    if isinstance(a, ast.Call) and call_name(a) == 'pop' and self_attr(a.func.value):
                        q.append(self_attr(a.func.value))
        if len(set(q)) != 1:
            raise AnalysisError(f'{rel}: unattempted queue not identified ({q})')
        self.queue = q[0]
        # maps
        def dict_attr_indexed_in(fn_node, key_pred):
            return None
        fm = []
        try:
            sol = core.func(rel, self.name, 'solution')
            fm = [self_attr(a) for c in calls_in(sol.node) if call_name(c) == 'to_config' for a in c.args if self_attr(a)]
        except AnalysisError:
            pass
        self.field_map = fm[0] if len(fm) == 1 else self._map_indexed_by(self.handlers['UnmetDependency'], 'dependency')
        self.forms = 'forms'
        self.all_attrs = set(assigns)

    def _map_indexed_by(self, node, attr):
        for n in ast.walk(node):
            if isinstance(n, ast.Subscript) and isinstance(n.slice, ast.Attribute) and n.slice.attr == attr and self_attr(n.value):
                return self_attr(n.value)
        raise AnalysisError(f'{self.rel}: field map not identified')

    def describe(self):
        return {k: getattr(self, k) for k in ('name', 'value_store', 'field_tracker', 'input_tracker', 'input_store', 'prompt',
                                              'refused', 'unimplemented', 'solved', 'solving', 'queue', 'field_map')}


def get_core(tree):
    if not hasattr(tree, '_core'):
        tree._core = Core(tree)
    return tree._core
