#!/venv/bin/python
"""Developer tool: writes sa/data/statutory_amounts.json.

OFFICIAL VALUES below are typed from the published figures (Rev. Proc. 2020-45,
2021-45, 2022-38; the 1040 / Schedule / Form instructions of each year; NC D-401
instructions) - NOT read from the repository.  Only the *site* of each amount
(which line, in which role, combined with which inputs/lines) is resolved
against the current tree when this tool is run, and then frozen in the JSON."""
import json
import os
import pickle
import sys

sys.path.insert(0, os.path.dirname(os.path.dirname(os.path.dirname(os.path.abspath(__file__)))))
from sa.src import Tree                      # noqa: E402
from sa.lines import get_analysis            # noqa: E402
from sa.amounts import year_profiles         # noqa: E402

S, J, P, H, Q = 'Single', 'MarriedFilingJointly', 'MarriedFilingSeparately', 'HeadOfHousehold', 'QSS'


def st(single, joint, sep, hoh, qss=None):
    return {S: single, J: joint, P: sep, H: hoh, Q: joint if qss is None else qss}


ALL = lambda v: {'*': v}

OFFICIAL = {
    'standard_deduction': {2021: st(12550, 25100, 12550, 18800), 2022: st(12950, 25900, 12950, 19400), 2023: st(13850, 27700, 13850, 20800)},
    'charitable_nonitemizer_2021': {2021: st(300, 600, 300, 300, 300)},
    'qbi_threshold': {2021: st(164900, 329800, 164925, 164900, 164900), 2022: st(170050, 340100, 170050, 170050, 170050), 2023: st(182100, 364200, 182100, 182100, 182100)},
    'addl_medicare_threshold': {y: st(200000, 250000, 125000, 200000, 200000) for y in (2021, 2022, 2023)},
    'addl_medicare_withholding_threshold': {y: ALL(200000) for y in (2021, 2022, 2023)},
    'addl_medicare_rate': {y: ALL(0.009) for y in (2021, 2022, 2023)},
    'medicare_rate': {y: ALL(0.0145) for y in (2021, 2022, 2023)},
    'eic_agi_limits': {2021: st([21430, 42158, 47915, 51464], [27380, 48108, 53865, 57414], [21430, 42158, 47915, 51464], [21430, 42158, 47915, 51464], [21430, 42158, 47915, 51464]),
                       2022: st([16480, 43492, 49399, 53057], [22610, 49622, 55529, 59187], [16480, 43492, 49399, 53057], [16480, 43492, 49399, 53057], [16480, 43492, 49399, 53057]),
                       2023: st([17640, 46560, 52918, 56838], [24210, 53120, 59478, 63398], [17640, 46560, 52918, 56838], [17640, 46560, 52918, 56838], [17640, 46560, 52918, 56838])},
    'eic_investment_income': {2021: ALL(10000), 2022: ALL(10300), 2023: ALL(11000)},
    'schedule_b_threshold': {y: ALL(1500) for y in (2021, 2022, 2023)},
    'underpayment_penalty_floor': {y: ALL(1000) for y in (2021, 2022, 2023)},
    'underpayment_penalty_pct': {y: ALL(0.1) for y in (2021, 2022, 2023)},
    'capgain_0pct_breakpoint': {2021: st(40400, 80800, 40400, 54100), 2022: st(41675, 83350, 41675, 55800), 2023: st(44625, 89250, 44625, 59750)},
    'capgain_15pct_breakpoint': {2021: st(445850, 501600, 250800, 473750), 2022: st(459750, 517200, 258600, 488500), 2023: st(492300, 553850, 276900, 523050)},
    'capgain_rate_15': {y: ALL(0.15) for y in (2021, 2022, 2023)},
    'capgain_rate_20': {y: ALL(0.2) for y in (2021, 2022, 2023)},
    'amt_exemption': {2021: st(73600, 114600, 57300, 73600), 2022: st(75900, 118100, 59050, 75900), 2023: st(81300, 126500, 63250, 81300)},
    'amt_phaseout_start': {2021: st(523600, 1047200, 523600, 523600), 2022: st(539900, 1079800, 539900, 539900), 2023: st(578150, 1156300, 578150, 578150)},
    'amt_28pct_breakpoint': {2021: st(199900, 199900, 99950, 199900), 2022: st(206100, 206100, 103050, 206100), 2023: st(220700, 220700, 110350, 220700)},
    'amt_phaseout_rate': {y: ALL(0.25) for y in (2021, 2022, 2023)},
    'amt_rate_26': {y: ALL(0.26) for y in (2021, 2022, 2023)},
    'form_1116_de_minimis': {y: st(300, 600, 300, 300, 300) for y in (2021, 2022, 2023)},
    'savers_credit_agi_limit': {2021: st(33000, 66000, 33000, 49500, 33000), 2022: st(34000, 68000, 34000, 51000, 34000), 2023: st(36500, 73000, 36500, 54750, 36500)},
    'ctc_per_child': {2022: ALL(2000), 2023: ALL(2000)},
    'odc_per_dependent': {y: ALL(500) for y in (2021, 2022, 2023)},
    'ctc_phaseout_start': {y: st(200000, 400000, 200000, 200000, 200000) for y in (2021, 2022, 2023)},
    'ctc_phaseout_rate': {y: ALL(0.05) for y in (2021, 2022, 2023)},
    'actc_cap_per_child': {2022: ALL(1500), 2023: ALL(1600)},
    'ctc_2021_under6': {2021: ALL(3600)}, 'ctc_2021_6to17': {2021: ALL(3000)}, 'ctc_2021_base': {2021: ALL(2000)},
    'ctc_2021_ws_line6': {2021: st(6250, 12500, 6250, 4375, 2500)},
    'ctc_2021_first_phaseout_start': {2021: st(75000, 150000, 75000, 112500, 150000)},
    'ctc_2021_repayment_safe_harbor_agi': {2021: st(40000, 60000, 40000, 50000, 60000)},
    'ctc_2021_repayment_protection': {2021: ALL(2000)},
    'medical_floor_pct': {y: ALL(0.075) for y in (2021, 2022, 2023)},
    'salt_cap': {y: st(10000, 10000, 5000, 10000, 10000) for y in (2021, 2022, 2023)},
    'mortgage_insurance_agi_limit_2021': {2021: st(100000, 100000, 50000, 100000, 100000)},
    'hsa_limits_self_family': {2021: ALL([3600, 7200]), 2022: ALL([3650, 7300]), 2023: ALL([3850, 7750])},
    'qbi_deduction_rate': {y: ALL(0.2) for y in (2021, 2022, 2023)},
    'educator_expense_cap_two_educators': {2021: ALL(500), 2022: ALL(600), 2023: ALL(600)},
    'recovery_rebate_amount': {2021: st([1400], [1400, 2800], [1400], [1400], [1400])},
    'recovery_rebate_per_dependent': {2021: ALL(1400)},
    'recovery_rebate_phaseout_start': {2021: st(75000, 150000, 75000, 112500, 150000)},
    'recovery_rebate_phaseout_end': {2021: st(80000, 160000, 80000, 120000, 160000)},
    'recovery_rebate_phaseout_range': {2021: st(5000, 10000, 5000, 7500, 10000)},
    'nc_tax_rate': {2021: ALL(0.0525), 2022: ALL(0.0499), 2023: ALL(0.0475)},
    'nc_standard_deduction': {2021: st(10750, 21500, 10750, 16125), 2022: st(12750, 25500, 12750, 19125), 2023: st(12750, 25500, 12750, 19125)},
    'nc_child_deduction_agi_tiers': {2021: st([20000, 30000, 40000, 50000, 60000], [40000, 60000, 80000, 100000, 120000], [20000, 30000, 40000, 50000, 60000], [30000, 45000, 60000, 75000, 90000]),
                                     2022: st([20000, 30000, 40000, 50000, 60000, 70000], [40000, 60000, 80000, 100000, 120000, 140000], [20000, 30000, 40000, 50000, 60000, 70000], [30000, 45000, 60000, 75000, 90000, 105000]),
                                     2023: st([20000, 30000, 40000, 50000, 60000, 70000], [40000, 60000, 80000, 100000, 120000, 140000], [20000, 30000, 40000, 50000, 60000, 70000], [30000, 45000, 60000, 75000, 90000, 105000])},
    'nc_child_deduction_amounts': {2021: ALL([500, 1000, 1500, 2000, 2500]), 2022: ALL([500, 1000, 1500, 2000, 2500, 3000]), 2023: ALL([500, 1000, 1500, 2000, 2500, 3000])},
    'nc_real_estate_tax_cap': {y: st(10000, 10000, 5000, 10000, 10000) for y in (2021, 2022, 2023)},
    'nc_mortgage_property_tax_cap': {y: ALL(20000) for y in (2021, 2022, 2023)},
    'nc_charitable_agi_pct': {y: ALL(0.6) for y in (2021, 2022, 2023)},
    'nc_medical_floor_pct': {y: ALL(0.075) for y in (2021, 2022, 2023)},
}

# amount id -> list of (years, line, role, signature hint) use sites
SITES = {
    'standard_deduction': [((2022, 2023), '1040.12', 'ret', '-'), ((2021,), '1040.12a', 'ret', '-'), ((2021, 2022, 2023), '1040.itemizing', 'cmp', 'v:1040_sa.17')],
    'charitable_nonitemizer_2021': [((2021,), '1040.12b', 'min', 'charitable')],
    'qbi_threshold': [((2021, 2022, 2023), '1040.13', 'cmp', 'v:1040.11')],
    'addl_medicare_threshold': [((2021, 2022, 2023), '1040.25c', 'cmp', 'number_w-2'), ((2021, 2022, 2023), '8959.5', 'ret', '-'), ((2021, 2022, 2023), '8959.9', 'ret', '-'), ((2021, 2022, 2023), '8959.15', 'ret', '-')],
    'addl_medicare_withholding_threshold': [((2021, 2022, 2023), '1040.25c', 'cmp', '=v:w-2:*.box_5')],
    'addl_medicare_rate': [((2021, 2022, 2023), '8959.7', 'rate', ''), ((2021, 2022, 2023), '8959.13', 'rate', ''), ((2021, 2022, 2023), '8959.17', 'rate', '')],
    'medicare_rate': [((2021, 2022, 2023), '8959.21', 'rate', '')],
    'eic_agi_limits': [((2022, 2023), '1040.27', 'cmp', '=v:1040.11'), ((2021,), '1040.27a', 'cmp', '=v:1040.11'), ((2021,), '1040.27b', 'cmp', '=v:1040.11'), ((2021,), '1040.27c', 'cmp', '=v:1040.11'), ((2021,), '1040.27a_checkbox', 'cmp', '=v:1040.11')],
    'eic_investment_income': [((2022, 2023), '1040.27', 'cmp', 'v:1040.2a'), ((2021,), '1040.27a', 'cmp', 'v:1040.2a')],
    'schedule_b_threshold': [((2021, 2022, 2023), '1040.2b', 'cmp', ''), ((2021, 2022, 2023), '1040.3b', 'cmp', ''), ((2021, 2022, 2023), '1040_sb.part_3', 'cmp', 'v:1040_sb.4'), ((2021, 2022, 2023), '1040_sb.part_3', 'cmp', 'v:1040_sb.6')],
    'underpayment_penalty_floor': [((2021, 2022, 2023), '1040.38', 'cmp', 'v:1040.37')],
    'underpayment_penalty_pct': [((2021, 2022, 2023), '1040.38', 'rate', '')],
    'capgain_0pct_breakpoint': [((2021, 2022, 2023), '1040_qualdiv_capgain_tax_wkst.6', 'ret', '-')],
    'capgain_15pct_breakpoint': [((2021, 2022, 2023), '1040_qualdiv_capgain_tax_wkst.13', 'ret', '-')],
    'capgain_rate_15': [((2021, 2022, 2023), '1040_qualdiv_capgain_tax_wkst.18', 'rate', '')],
    'capgain_rate_20': [((2021, 2022, 2023), '1040_qualdiv_capgain_tax_wkst.21', 'rate', '')],
    'amt_exemption': [((2021, 2022, 2023), '1040_s2_need_6251.6', 'ret', '-')],
    'amt_phaseout_start': [((2021, 2022, 2023), '1040_s2_need_6251.8', 'ret', '-')],
    'amt_28pct_breakpoint': [((2021, 2022, 2023), '1040_s2_need_6251.need_6251', 'cmp', 'v:1040_s2_need_6251.11')],
    'amt_phaseout_rate': [((2021, 2022, 2023), '1040_s2_need_6251.10', 'rate', '')],
    'amt_rate_26': [((2021, 2022, 2023), '1040_s2_need_6251.12', 'rate', '')],
    'form_1116_de_minimis': [((2021, 2022, 2023), '1040_s3.1', 'cmp', '')],
    'savers_credit_agi_limit': [((2021, 2022, 2023), '1040_s3.4', 'cmp', 'v:1040.11')],
    'ctc_per_child': [((2022, 2023), '1040_s8812.5', 'rate', '')],
    'odc_per_dependent': [((2021, 2022, 2023), '1040_s8812.7', 'rate', '')],
    'ctc_phaseout_start': [((2021, 2022, 2023), '1040_s8812.9', 'ret', '-')],
    'ctc_phaseout_rate': [((2021, 2022, 2023), '1040_s8812.11', 'rate', ''), ((2021,), '1040_s8812.5_ws_10', 'rate', '')],
    'actc_cap_per_child': [((2022, 2023), '1040_s8812.16b', 'rate', '')],
    'ctc_2021_under6': [((2021,), '1040_s8812.5_ws_1', 'rate', '')], 'ctc_2021_6to17': [((2021,), '1040_s8812.5_ws_2', 'rate', '')], 'ctc_2021_base': [((2021,), '1040_s8812.5_ws_4', 'rate', '')],
    'ctc_2021_ws_line6': [((2021,), '1040_s8812.5_ws_6', 'ret', '-')],
    'ctc_2021_first_phaseout_start': [((2021,), '1040_s8812.5_ws_8', 'ret', '-')],
    'ctc_2021_repayment_safe_harbor_agi': [((2021,), '1040_s8812.33', 'ret', '-')],
    'ctc_2021_repayment_protection': [((2021,), '1040_s8812.37', 'rate', '')],
    'medical_floor_pct': [((2021, 2022, 2023), '1040_sa.3', 'rate', '')],
    'salt_cap': [((2021, 2022, 2023), '1040_sa.5e', 'min', '')],
    'mortgage_insurance_agi_limit_2021': [((2021,), '1040_sa.8d', 'cmp', 'v:1040.11')],
    'hsa_limits_self_family': [((2021, 2022, 2023), '8889:you.3', 'ret', '-'), ((2021, 2022, 2023), '8889:spouse.3', 'ret', '-')],
    'qbi_deduction_rate': [((2021, 2022, 2023), '8995.5', 'rate', ''), ((2021, 2022, 2023), '8995.9', 'rate', ''), ((2021, 2022, 2023), '8995.14', 'rate', '')],
    'educator_expense_cap_two_educators': [((2021, 2022, 2023), '1040_s1.11', 'cmp', '')],
    'recovery_rebate_amount': [((2021,), '1040_recovery_rebate_credit_wkst.6', 'ret', '-')],
    'recovery_rebate_per_dependent': [((2021,), '1040_recovery_rebate_credit_wkst.7', 'rate', '')],
    'recovery_rebate_phaseout_start': [((2021,), '1040_recovery_rebate_credit_wkst.9_checkbox', 'cmp', 'v:1040.11')],
    'recovery_rebate_phaseout_end': [((2021,), '1040_recovery_rebate_credit_wkst.10', 'cmp', ''), ((2021,), '1040_recovery_rebate_credit_wkst.10', 'sub-from', ''), ((2021,), '1040_recovery_rebate_credit_wkst.10_checkbox', 'cmp', '')],
    'recovery_rebate_phaseout_range': [((2021,), '1040_recovery_rebate_credit_wkst.11', 'div', '')],
    'nc_tax_rate': [((2021, 2022, 2023), 'nc_d-400.15', 'rate', '')],
    'nc_standard_deduction': [((2021, 2022, 2023), 'nc_d-400_sa.nc_standard_deduction', 'ret', '-')],
    'nc_child_deduction_agi_tiers': [((2021, 2022, 2023), 'nc_d-400_child_deduction_wkst.4', 'cmp', '')],
    'nc_child_deduction_amounts': [((2021, 2022, 2023), 'nc_d-400_child_deduction_wkst.4', 'ret', '-')],
    'nc_real_estate_tax_cap': [((2021, 2022, 2023), 'nc_d-400_sa.2', 'min', '')],
    'nc_mortgage_property_tax_cap': [((2021, 2022, 2023), 'nc_d-400_sa.4', 'ret', '-')],
    'nc_charitable_agi_pct': [((2021, 2022, 2023), 'nc_d-400_sa.6', 'rate', '')],
    'nc_medical_floor_pct': [((2021, 2022, 2023), 'nc_d-400_sa.7c', 'rate', '')],
}


def main():
    tree = Tree()
    an = get_analysis(tree)
    out = []
    problems = []
    for y in an.cat.years:
        e = an.cat.find(y, '1040').input_map()['filing_status'].attrs['enum']
        prof = year_profiles(an, y, e)
        qname = [m for m in e.members if m.startswith('Qualifying')][0]
        for aid, sites in SITES.items():
            if y not in OFFICIAL[aid]:
                continue
            off = OFFICIAL[aid][y]
            for years, line, role, hint in sites:
                if y not in years:
                    continue
                per = prof.get(line, {})
                cands = [sg for (r, sg) in per if r == role and ((hint.startswith('=') and sg == hint[1:]) or (not hint.startswith('=') and hint in sg))]
                if len(cands) != 1:
                    problems.append((y, aid, line, role, hint, cands))
                    continue
                vals = {}
                for k, v in off.items():
                    k2 = qname if k == Q else k
                    vals[k2] = sorted(float(x) for x in (v if isinstance(v, list) else [v]))
                out.append({'id': aid, 'year': y, 'line': line, 'role': role, 'sig': cands[0], 'values': vals})
    for p in problems:
        print('UNRESOLVED SITE', p)
    path = os.path.join(os.path.dirname(os.path.dirname(os.path.abspath(__file__))), 'data', 'statutory_amounts.json')
    json.dump({'source': __doc__, 'entries': out}, open(path, 'w'), indent=1)
    print(len(out), 'entries;', len(problems), 'unresolved')


if __name__ == '__main__':
    main()
