"""Concrete evaluation of the symbolic terms produced by lineabs at chosen points.
Used only to compare a definition with an instruction inside a function class in
which finitely many points decide equality (step functions with breakpoints at
the multiples of a printed step); it evaluates the analysis result, not the
repository's code."""
import math

from .amounts import canon
from .lineabs import E


class Undefined(Exception):
    pass


def ev(e, env):
    if not isinstance(e, E):
        if e is None:
            return 0.0
        return e
    op = e.op
    if op in ('i', 'v'):
        k = f'{op}:{canon(e.args[0])}'
        if k not in env:
            raise Undefined(k)
        return env[k]
    a = [ev(x, env) for x in e.args] if op not in ('call',) else None
    try:
        if op == 'add':
            return a[0] + a[1]
        if op == 'sub':
            return a[0] - a[1]
        if op == 'mul':
            return a[0] * a[1]
        if op == 'div':
            return a[0] / a[1]
        if op == 'floordiv':
            return a[0] // a[1]
        if op == 'mod':
            return a[0] % a[1]
        if op == 'pow':
            return a[0] ** a[1]
        if op == 'neg':
            return -a[0]
        if op == 'min':
            return min(a)
        if op == 'max':
            return max(a)
        if op == 'lt':
            return a[0] < a[1]
        if op == 'le':
            return a[0] <= a[1]
        if op == 'gt':
            return a[0] > a[1]
        if op == 'ge':
            return a[0] >= a[1]
        if op == 'eq':
            return a[0] == a[1]
        if op == 'ne':
            return a[0] != a[1]
        if op == 'not':
            return not a[0]
        if op == 'and':
            return all(a)
        if op == 'or':
            return any(a)
        if op == 'ite':
            return a[1] if a[0] else a[2]
        if op == 'call':
            name = e.args[0]
            args = [ev(x, env) for x in e.args[1:]]
            fn = {'float': float, 'int': int, 'round': round, 'abs': abs, 'ceil': math.ceil, 'floor': math.floor, 'bool': bool,
                  'trunc': math.trunc}.get(name)
            if fn is None:
                raise Undefined(f'call {name}')
            return fn(*args)
    except (ZeroDivisionError, TypeError, ValueError) as ex:
        raise Undefined(str(ex))
    raise Undefined(f'op {op}')


def value_at(d, env):
    """-> ('value', x) | ('raise', None) | ('undecided', why): the outcome of the definition at the point"""
    hits = []
    for p in d.paths:
        try:
            if all(bool(ev(g[0], env)) == bool(g[1]) for g in p.guards):
                hits.append(p)
        except Undefined as ex:
            return 'undecided', str(ex)
    if len(hits) != 1:
        return 'undecided', f'{len(hits)} paths match the point'
    p = hits[0]
    if p.outcome.kind != 'ret':
        return 'raise', None
    try:
        return 'value', ev(p.outcome.value, env)
    except Undefined as ex:
        return 'undecided', str(ex)
