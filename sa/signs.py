"""Sign analysis (non-negativity) of line definitions by abstract interpretation
over the symbolic path results of lineabs, under the premise that amount and
count inputs are non-negative.  Greatest fixed point over the line graph: a line
is non-negative if every value-returning path yields a non-negative expression,
assuming the lines it reads from the current candidate set are non-negative."""
from fractions import Fraction

from .amounts import canon
from .lineabs import E
from .linform import lin_of, NonLinear, Lin


def fr(x):
    return Fraction(repr(x)) if isinstance(x, float) else Fraction(x)


class SignCtx:
    def __init__(self, nn_lines, input_types):
        self.nn = nn_lines            # set of canonical 'v:form.line' atoms assumed >= 0
        self.itypes = input_types     # canonical 'i:...' -> 'float' | 'int' | 'bool' | ...
        self.ub = {}

    zero = frozenset()

    def atom_nn(self, e):
        key = f'{e.op}:{canon(e.args[0])}'
        if key in self.zero:
            return True
        if e.op == 'i':
            return e.ty in ('float', 'int', 'bool')
        if e.ty == 'bool':
            return True
        return key in self.nn


def nonneg(e, ctx, guards=()):
    """True if the expression is provably >= 0"""
    if e is None or e is False or e is True:
        return True
    if isinstance(e, (int, float)):
        return e >= 0
    if isinstance(e, str):
        return True
    if not isinstance(e, E):
        return False
    op = e.op
    if op in ('i', 'v'):
        return ctx.atom_nn(e)
    if op == 'add':
        return nonneg(e.args[0], ctx, guards) and nonneg(e.args[1], ctx, guards)
    if op in ('mul', 'div'):
        a, b = e.args
        return nonneg(a, ctx, guards) and nonneg(b, ctx, guards)
    if op == 'sub':
        a, b = e.args
        if nonpos(b, ctx, guards) and nonneg(a, ctx, guards):
            return True
        return ge_by_guard(a, b, guards) or ge_by_structure(a, b, ctx)
    if op == 'neg':
        return nonpos(e.args[0], ctx, guards)
    if op == 'max':
        return any(nonneg(a, ctx, guards) for a in e.args)
    if op == 'min':
        return all(nonneg(a, ctx, guards) for a in e.args)
    if op == 'sumn':
        return nonneg(e.args[2], ctx, guards)
    if op == 'ite':
        return nonneg(e.args[1], ctx, guards) and nonneg(e.args[2], ctx, guards)
    if op == 'loopval':
        return nonneg(e.args[1], ctx, guards) and nonneg(e.args[2], ctx, guards)
    if op == 'call':
        name = e.args[0]
        if name in ('float', 'round', 'int', 'ceil', 'bool', 'len') and len(e.args) >= 2:
            return nonneg(e.args[1], ctx, guards)
        if name == 'abs':
            return True
        if isinstance(name, str) and name.endswith(':figure_tax'):
            return True          # justified by C07: the tax schedule is non-negative on [0, max]
        return False
    if op in ('lt', 'le', 'gt', 'ge', 'eq', 'ne', 'not', 'and', 'or', 'in', 'notin', 'exists_n', 'forall_n'):
        return True
    return False


def nonpos(e, ctx, guards=()):
    if isinstance(e, (int, float)) and not isinstance(e, bool):
        return e <= 0
    if isinstance(e, E) and e.op in ('i', 'v') and f'{e.op}:{canon(e.args[0])}' in ctx.zero:
        return True
    if isinstance(e, E):
        if e.op == 'neg':
            return nonneg(e.args[0], ctx, guards)
        if e.op == 'min':
            return any(nonpos(a, ctx, guards) for a in e.args)
        if e.op == 'sub':
            return ge_by_guard(e.args[1], e.args[0], guards)
    return False


def _lin(e):
    try:
        return lin_of(e)
    except NonLinear:
        return None


def ge_by_guard(a, b, guards):
    """a >= b follows from a guard on the path: (b < a) true, or (a < b) false"""
    la, lb = _lin(a), _lin(b)
    if la is None or lb is None:
        return False
    want = la.add(lb, -1)          # a - b
    for (c, pol, _n, _r) in guards:
        if isinstance(c, E) and c.op == 'lt':
            x, y = _lin(c.args[0]), _lin(c.args[1])
            if x is None or y is None:
                continue
            d = y.add(x, -1)       # y - x  (> 0 when the guard is true)
            if pol and _dominates(want, d):
                return True
            if not pol and x.add(y, -1) == want:      # not (x < y)  =>  x - y >= 0
                return True
    return False


def _dominates(want, d):
    """want >= d  structurally: want == d, or want == d + const with const >= 0"""
    diff = want.add(d, -1)
    return diff.is_const() and diff.const >= 0


_UNIT = Lin(1).freeze()


def ub_set(e, ctx, depth=0):
    """set of frozen linear forms that bound the expression from above"""
    out = set()
    l = _lin(e)
    if l is not None:
        out.add(l.freeze())
    if isinstance(e, E):
        if e.op == 'min':
            for x in e.args:
                out |= ub_set(x, ctx, depth + 1)
        if e.op == 'v' and depth < 6:
            out |= ctx.ub.get(f'v:{canon(e.args[0])}', set())
        if e.op == 'mul':
            # x * r with 0 <= r <= 1 is bounded by x (when x >= 0)
            a, b = e.args
            for x, r in ((a, b), (b, a)):
                if isinstance(r, (int, float)) and 0 <= r <= 1 and nonneg(x, ctx):
                    out |= ub_set(x, ctx, depth + 1)
                elif isinstance(r, E) and depth < 4 and _UNIT in ub_set(r, ctx, depth + 1) and nonneg(r, ctx) and nonneg(x, ctx):
                    out |= ub_set(x, ctx, depth + 1)      # r is an allowed ratio: a line or term capped at 1
        if e.op == 'call' and e.args[0] in ('float', 'round') and len(e.args) >= 2 and e.args[0] == 'float':
            out |= ub_set(e.args[1], ctx, depth + 1)
    return out


def compute_ub(defs, ctx):
    """upper-bound sets of every line from its own definition: the bounds common
    to all value paths (a blank path is 0, bounded by any non-negative form)"""
    ub = {}
    for _ in range(3):
        ctx.ub = ub
        new = {}
        for k, d in defs.items():
            sets = []
            for p in d.paths:
                if p.outcome.kind != 'ret':
                    continue
                v = p.outcome.value
                if isinstance(v, (tuple, list)):
                    sets = None
                    break
                if v is None or (isinstance(v, (int, float)) and not isinstance(v, bool) and v == 0):
                    continue          # handled by requiring the bound itself to be >= 0 at the use site
                sets.append(ub_set(v, ctx))
            if sets:
                common = set.intersection(*sets) if sets else set()
                if common:
                    new[k] = common
        ub = new
    return ub


def ge_by_structure(a, b, ctx):
    """a >= b because b is min(a, ...) or b <= a by construction"""
    la0 = _lin(a)
    if la0 is not None and la0.freeze() in ub_set(b, ctx) and nonneg(a, ctx):
        return True
    if isinstance(b, E) and b.op == 'min':
        la = _lin(a)
        for x in b.args:
            lx = _lin(x)
            if la is not None and lx is not None and la == lx:
                return True
    if isinstance(a, E) and a.op == 'max':
        lb = _lin(b)
        for x in a.args:
            lx = _lin(x)
            if lb is not None and lx is not None and lb == lx:
                return True
    return False


def upper_bounds(d_paths):
    return None


def line_nonneg(d, ctx):
    """-> (ok, witness) : every value path of the definition is >= 0"""
    for p in d.paths:
        if p.outcome.kind != 'ret':
            continue
        v = p.outcome.value
        vals = v if isinstance(v, (tuple, list)) else [v]
        for x in vals:
            if not nonneg(x, ctx, p.guards):
                return False, x
    return True, None


def fixpoint(defs, ctx_factory):
    """greatest fixed point: start from all amount lines, drop the unprovable"""
    cand = set(defs)
    changed = True
    witness = {}
    while changed:
        changed = False
        ctx = ctx_factory(cand)
        for k in sorted(cand):
            ok, w = line_nonneg(defs[k], ctx)
            if not ok:
                cand.discard(k)
                witness[k] = w
                changed = True
    return cand, witness
