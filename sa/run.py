#!/venv/bin/python
"""Entry point: run.py <property id> [--tier quick|thorough] [--replay path]"""
import argparse
import importlib
import json
import os
import sys
import traceback

sys.path.insert(0, os.path.dirname(os.path.dirname(os.path.abspath(__file__))))

from sa.report import Report          # noqa: E402
from sa.src import AnalysisError, Tree  # noqa: E402


def main():
    ap = argparse.ArgumentParser()
    ap.add_argument('pid')
    ap.add_argument('--tier', default=os.environ.get('VERIF_TIER', 'quick'))
    ap.add_argument('--replay', default=None)
    args = ap.parse_args()
    pid = args.pid.upper()
    try:
        seed = int(os.environ.get('VERIF_SEED', '0'))
    except ValueError:
        seed = 0
    tier = args.tier if args.tier in ('quick', 'thorough') else 'quick'
    try:
        mod = importlib.import_module(f'sa.checks.{pid.lower()}')
    except ImportError as e:
        print(f'ANALYSIS-ERROR property={pid} no check module: {e}')
        return 2
    rep = Report(pid, tier, seed)
    try:
        tree = Tree()
        mod.check(tree, rep, tier=tier, seed=seed)
        if tier == 'thorough':
            if hasattr(mod, 'thorough'):
                mod.thorough(tree, rep, seed=seed)
            from sa.selftest import selftest
            selftest(pid, rep, seed=seed)
    except AnalysisError as e:
        rep.error(str(e))
    except Exception:
        rep.error('analyser crashed: ' + traceback.format_exc().strip().splitlines()[-1])
        traceback.print_exc()
    rc = rep.finish()
    if args.replay:
        try:
            want = json.load(open(args.replay))
        except Exception as e:
            print(f'ANALYSIS-ERROR property={pid} cannot read replay file: {e}')
            return 2
        hit = [v for v in rep.violations + rep.known_hits
               if v['rule'] == want.get('rule') and v['key'] == want.get('key')]
        if hit:
            print(f"REPLAY: still reported: {hit[0]['rule']} {hit[0]['key']}: {hit[0]['message']} ({hit[0]['where']})")
            return 1
        print('REPLAY: no longer reported on the current tree')
        return 0 if rc != 2 else 2
    return rc


if __name__ == '__main__':
    try:
        rc = main()
        sys.stdout.flush()
    except BrokenPipeError:
        rc = 0
        try:
            sys.stdout.close()
        except Exception:
            pass
    os._exit(rc) if False else sys.exit(rc)
