"""All line definitions of all years evaluated once (shared by the form-level
checks), plus the static line-demand graph."""
import ast
import json
import os

from .formx import Catalogue, field_closure, pdf_value_fn
from .interp import Rec, Closure, Scope
from .lineabs import LineEval, InputsTok, ValuesTok, E, eval_field

DATA = os.path.join(os.path.dirname(os.path.abspath(__file__)), 'data')


def load_data(name):
    with open(os.path.join(DATA, name)) as f:
        return json.load(f)


class DefResult:
    def __init__(self, year, fr, rec, kind, name, paths, truncated, closure):
        self.year = year
        self.fr = fr
        self.rec = rec
        self.kind = kind          # 'line' | 'pdf' | 'needs_filing'
        self.name = name
        self.paths = paths
        self.truncated = truncated
        self.closure = closure

    @property
    def key(self):
        return f'{self.year}/{self.fr.name}.{self.name}'

    @property
    def where(self):
        return f'{self.closure.rel}:{self.closure.node.lineno}'

    def reads(self):
        seen = {}
        for p in self.paths:
            for r in p.reads:
                seen.setdefault((r.kind, r.text), r)
        return list(seen.values())

    def imprecise(self):
        out = []
        for p in self.paths:
            for i in p.imprecise:
                if i not in out:
                    out.append(i)
        return out


class Analysis:
    def __init__(self, tree, cat=None):
        self.tree = tree
        self.cat = cat or Catalogue(tree)
        self.defs = {}           # (year, form instance name, line) -> DefResult
        self.pdfs = []           # DefResult for PDF value functions
        self.filing = []         # DefResult for needs_filing
        for y in self.cat.years:
            for fr in self.cat.forms(y):
                if fr.rec is None:
                    continue
                for rec in fr.fields:
                    if not isinstance(rec, Rec):
                        continue
                    clo = field_closure(rec)
                    if clo is None:
                        continue
                    ev = LineEval(self.cat, y, fr)
                    paths = ev.run(clo, [rec, InputsTok(fr.rec), ValuesTok(fr.rec)])
                    nm = rec.attrs.get('_name')
                    self.defs[(y, fr.name, nm)] = DefResult(y, fr, rec, 'line', nm, paths, ev.truncated, clo)
                fmap = fr.field_map()
                for k, prec in enumerate(fr.pdf_fields if isinstance(fr.pdf_fields, list) else []):
                    if not isinstance(prec, Rec):
                        continue
                    clo = pdf_value_fn(prec)
                    if clo is None:
                        continue
                    line = prec.attrs.get('field_name')
                    target = self._pdf_target(y, fr, line)
                    from .lineabs import decl_type
                    ty, meta = decl_type(target, 'v') if target is not None else (None, None)
                    val = E('v', f'{fr.name}.{line}' if isinstance(line, str) and '.' not in line else str(line), ty=ty, meta=meta)
                    ev = LineEval(self.cat, y, fr)
                    paths = ev.run(clo, [prec, val, target if target is not None else E('top', 'unmapped line')])
                    self.pdfs.append(DefResult(y, fr, prec, 'pdf', f'pdf[{k}]:{prec.attrs.get("pdf_field_name")}', paths, ev.truncated, clo))
                c, m = fr.cls.find_method('needs_filing')
                if m is not None:
                    ip = self.cat.interp
                    clo = ip.make_closure(m, Scope(ns=ip.module_ns(c.rel), rel=c.rel, cls=c), c.rel)
                    ev = LineEval(self.cat, y, fr)
                    paths = ev.run(clo, [fr.rec, ValuesTok(fr.rec, raw=True)])
                    self.filing.append(DefResult(y, fr, fr.rec, 'needs_filing', 'needs_filing', paths, ev.truncated, clo))

    def _pdf_target(self, y, fr, line):
        if not isinstance(line, str):
            return None
        if '.' in line:
            fpart, name = line.split('.', 1)
            fname, _, inst = fpart.partition(':')
            t = self.cat.find(y, fname, inst or None)
            return t.field_map().get(name) if t is not None else None
        return fr.field_map().get(line)

    def all_defs(self):
        yield from self.defs.values()
        yield from self.pdfs
        yield from self.filing

    # ---- demand graph: line -> set of (year, form name, line) it may read
    def demand_edges(self, d):
        out = set()
        for r in d.reads():
            if r.kind != 'v' or r.res is None or r.res.form is None or r.res.decl is None:
                continue
            out.add((d.year, r.res.form.name if isinstance(r.res.instance, (str, type(None))) else r.res.form.name, r.res.name))
        return out


def get_analysis(tree):
    if not hasattr(tree, '_analysis'):
        from .checks.c17 import get_catalogue
        tree._analysis = Analysis(tree, get_catalogue(tree))
    return tree._analysis
