"""E4: a small PDF reader (stdlib only) for the bundled form templates: object
loader (plain objects + /ObjStm), AcroForm field tree (full names, /FT /Ff
/MaxLen /AP states /Opt), XFA template packet (SOM path, speak text, caption,
maxChars, check-box items)."""
import re
import zlib
import xml.etree.ElementTree as ET

from .src import AnalysisError


class Ref:
    __slots__ = ('num', 'gen')

    def __init__(self, num, gen):
        self.num = num
        self.gen = gen

    def __repr__(self):
        return f'{self.num} {self.gen} R'


class Name(str):
    pass


class Stream:
    def __init__(self, d, raw):
        self.d = d
        self.raw = raw

    def data(self):
        f = self.d.get('Filter')
        if f is None:
            return self.raw
        fs = f if isinstance(f, list) else [f]
        out = self.raw
        for x in fs:
            if x == 'FlateDecode':
                try:
                    out = zlib.decompress(out)
                except zlib.error:
                    out = zlib.decompressobj().decompress(out)
                parms = self.d.get('DecodeParms')
                if isinstance(parms, dict) and parms.get('Predictor', 1) >= 10:
                    out = _png_unpredict(out, parms.get('Columns', 1))
            else:
                raise AnalysisError(f'unsupported stream filter {x}')
        return out


def _png_unpredict(data, columns):
    rowlen = columns + 1
    out = bytearray()
    prev = bytearray(columns)
    for i in range(0, len(data), rowlen):
        ft = data[i]
        row = bytearray(data[i + 1:i + rowlen])
        if ft == 2:
            for j in range(len(row)):
                row[j] = (row[j] + prev[j]) & 255
        elif ft == 1:
            for j in range(1, len(row)):
                row[j] = (row[j] + row[j - 1]) & 255
        elif ft != 0:
            raise AnalysisError(f'unsupported PNG predictor {ft}')
        out += row
        prev = row
    return bytes(out)


WS = b' \t\r\n\x0c\x00'
DELIM = b'()<>[]{}/%'


class Lexer:
    def __init__(self, data, pos=0):
        self.d = data
        self.p = pos

    def skip(self):
        d = self.d
        while self.p < len(d):
            c = d[self.p:self.p + 1]
            if c in (b' ', b'\t', b'\r', b'\n', b'\x0c', b'\x00'):
                self.p += 1
            elif c == b'%':
                while self.p < len(d) and d[self.p:self.p + 1] not in (b'\r', b'\n'):
                    self.p += 1
            else:
                break

    def parse(self):
        self.skip()
        d = self.d
        c = d[self.p:self.p + 1]
        if c == b'<':
            if d[self.p:self.p + 2] == b'<<':
                self.p += 2
                out = {}
                while True:
                    self.skip()
                    if d[self.p:self.p + 2] == b'>>':
                        self.p += 2
                        return out
                    k = self.parse()
                    v = self.parse()
                    out[str(k)] = v
            end = d.index(b'>', self.p)
            hx = re.sub(rb'\s', b'', d[self.p + 1:end])
            self.p = end + 1
            if len(hx) % 2:
                hx += b'0'
            return PStr(bytes.fromhex(hx.decode('ascii')))
        if c == b'(':
            return self.string()
        if c == b'/':
            self.p += 1
            st = self.p
            while self.p < len(d) and d[self.p] not in WS and d[self.p] not in DELIM:
                self.p += 1
            raw = d[st:self.p]
            raw = re.sub(rb'#([0-9A-Fa-f]{2})', lambda m: bytes([int(m.group(1), 16)]), raw)
            return Name(raw.decode('latin-1'))
        if c == b'[':
            self.p += 1
            out = []
            while True:
                self.skip()
                if d[self.p:self.p + 1] == b']':
                    self.p += 1
                    return out
                out.append(self.parse())
        # number / ref / keyword
        st = self.p
        while self.p < len(d) and d[self.p] not in WS and d[self.p] not in DELIM:
            self.p += 1
        tok = d[st:self.p]
        if not tok:
            raise AnalysisError(f'PDF syntax error at offset {self.p}')
        if re.fullmatch(rb'[+-]?\d+', tok):
            # maybe "n g R"
            m = re.match(rb'\s+(\d+)\s+R(?![A-Za-z])', d[self.p:self.p + 24])
            if m and tok.isdigit():
                self.p += m.end()
                return Ref(int(tok), int(m.group(1)))
            return int(tok)
        if re.fullmatch(rb'[+-]?(\d+\.\d*|\.\d+)', tok):
            return float(tok)
        if tok == b'true':
            return True
        if tok == b'false':
            return False
        if tok == b'null':
            return None
        return Keyword(tok.decode('latin-1'))

    def string(self):
        d = self.d
        assert d[self.p:self.p + 1] == b'('
        self.p += 1
        depth = 1
        out = bytearray()
        while True:
            c = d[self.p]
            if c == 0x5c:
                n = d[self.p + 1]
                self.p += 2
                m = {ord('n'): 10, ord('r'): 13, ord('t'): 9, ord('b'): 8, ord('f'): 12, ord('('): 40, ord(')'): 41, 0x5c: 0x5c}
                if n in m:
                    out.append(m[n])
                elif 48 <= n <= 55:
                    oc = chr(n)
                    for _ in range(2):
                        if 48 <= d[self.p] <= 55:
                            oc += chr(d[self.p])
                            self.p += 1
                    out.append(int(oc, 8) & 255)
                elif n in (10, 13):
                    if n == 13 and d[self.p] == 10:
                        self.p += 1
                else:
                    out.append(n)
                continue
            if c == 40:
                depth += 1
            elif c == 41:
                depth -= 1
                if depth == 0:
                    self.p += 1
                    return PStr(bytes(out))
            out.append(c)
            self.p += 1


class Keyword(str):
    pass


class PStr(bytes):
    def text(self):
        if self.startswith(b'\xfe\xff'):
            return self[2:].decode('utf-16-be', 'replace')
        return self.decode('latin-1')


class PDF:
    def __init__(self, data, label=''):
        self.data = data
        self.label = label
        self.objs = {}
        self._scan()

    def _scan(self):
        d = self.data
        for m in re.finditer(rb'(?<![0-9])(\d+)\s+(\d+)\s+obj\b', d):
            num, gen = int(m.group(1)), int(m.group(2))
            lx = Lexer(d, m.end())
            try:
                v = lx.parse()
            except (AnalysisError, ValueError, IndexError):
                continue
            lx.skip()
            if d[lx.p:lx.p + 6] == b'stream' and isinstance(v, dict):
                p = lx.p + 6
                if d[p:p + 2] == b'\r\n':
                    p += 2
                elif d[p:p + 1] in (b'\n', b'\r'):
                    p += 1
                ln = v.get('Length')
                if isinstance(ln, Ref):
                    ln = None
                end = None
                if isinstance(ln, int) and d[p + ln:p + ln + 20].lstrip(b'\r\n').startswith(b'endstream'):
                    end = p + ln
                if end is None:
                    end = d.index(b'endstream', p)
                    while end > p and d[end - 1:end] in (b'\n', b'\r'):
                        end -= 1
                v = Stream(v, d[p:end])
            self.objs[num] = v        # later definitions win (incremental updates)
        # object streams
        for num, v in list(self.objs.items()):
            if isinstance(v, Stream) and v.d.get('Type') == 'ObjStm':
                try:
                    body = v.data()
                except Exception as e:
                    raise AnalysisError(f'{self.label}: cannot inflate object stream {num}: {e}')
                n = v.d.get('N', 0)
                first = v.d.get('First', 0)
                head = body[:first].split()
                for i in range(n):
                    onum = int(head[2 * i])
                    off = int(head[2 * i + 1])
                    lx = Lexer(body, first + off)
                    try:
                        if onum not in self.objs or not isinstance(self.objs[onum], Stream):
                            self.objs[onum] = lx.parse()
                    except Exception:
                        continue

    def get(self, v):
        seen = 0
        while isinstance(v, Ref):
            v = self.objs.get(v.num)
            seen += 1
            if seen > 20:
                return None
        return v

    def catalog(self):
        for v in self.objs.values():
            d = v.d if isinstance(v, Stream) else v
            if isinstance(d, dict) and d.get('Type') == 'Catalog':
                return d
        raise AnalysisError(f'{self.label}: no /Catalog')


class Widget:
    def __init__(self):
        self.name = None        # fully qualified
        self.ft = None          # Tx | Btn | Ch | Sig
        self.ff = 0
        self.maxlen = None
        self.states = []        # on-states of /AP /N (check boxes / radios), without Off
        self.opts = None
        self.tu = None
        self.is_terminal = True
        self.kids_states = {}   # kid index -> states (radio groups with unnamed kids)

    @property
    def kind(self):
        if self.ft == 'Tx':
            return 'text'
        if self.ft == 'Ch':
            return 'choice'
        if self.ft == 'Btn':
            if self.ff & (1 << 16):
                return 'pushbutton'
            return 'radio' if self.ff & (1 << 15) else 'checkbox'
        return self.ft


def load_fields(pdf):
    cat = pdf.catalog()
    acro = pdf.get(cat.get('AcroForm'))
    if not isinstance(acro, dict):
        raise AnalysisError(f'{pdf.label}: no /AcroForm')
    out = {}

    def ap_states(d):
        ap = pdf.get(d.get('AP'))
        if not isinstance(ap, dict):
            return []
        n = pdf.get(ap.get('N'))
        if isinstance(n, dict):
            return [k for k in n.keys() if k != 'Off']
        return []

    def walk(ref, prefix, inh):
        d = pdf.get(ref)
        if isinstance(d, Stream):
            d = d.d
        if not isinstance(d, dict):
            return
        inh = dict(inh)
        for k in ('FT', 'Ff', 'MaxLen', 'Opt'):
            if k in d:
                inh[k] = pdf.get(d[k])
        t = d.get('T')
        name = prefix
        if t is not None:
            t = pdf.get(t)
            tn = t.text() if isinstance(t, PStr) else str(t)
            name = f'{prefix}.{tn}' if prefix else tn
        kids = pdf.get(d.get('Kids'))
        named_kids = []
        unnamed_kids = []
        if isinstance(kids, list):
            for k in kids:
                kd = pdf.get(k)
                if isinstance(kd, dict) and 'T' in kd:
                    named_kids.append(k)
                else:
                    unnamed_kids.append(k)
        if t is not None and not named_kids:
            w = Widget()
            w.name = name
            w.ft = str(inh.get('FT')) if inh.get('FT') is not None else None
            w.ff = inh.get('Ff', 0) or 0
            w.maxlen = inh.get('MaxLen')
            opt = inh.get('Opt')
            if isinstance(opt, list):
                w.opts = []
                for o in opt:
                    o = pdf.get(o)
                    if isinstance(o, list) and o:
                        ov = pdf.get(o[0])
                        w.opts.append(ov.text() if isinstance(ov, PStr) else str(ov))
                    elif isinstance(o, PStr):
                        w.opts.append(o.text())
                    else:
                        w.opts.append(str(o))
            tu = pdf.get(d.get('TU'))
            w.tu = tu.text() if isinstance(tu, PStr) else None
            st = ap_states(d)
            for i, k in enumerate(unnamed_kids):
                kd = pdf.get(k)
                if isinstance(kd, dict):
                    ks = ap_states(kd)
                    w.kids_states[i] = ks
                    for s in ks:
                        if s not in st:
                            st.append(s)
            w.states = st
            out[name] = w
        for k in named_kids:
            walk(k, name, inh)
        if t is None:
            for k in unnamed_kids:
                walk(k, name, inh)

    fields = pdf.get(acro.get('Fields'))
    if not isinstance(fields, list):
        raise AnalysisError(f'{pdf.label}: /AcroForm has no /Fields')
    for f in fields:
        walk(f, '', {})
    return out, acro


class XfaField:
    def __init__(self):
        self.som = None
        self.speak = None
        self.caption = None
        self.maxchars = None
        self.items = None
        self.kind = None       # textEdit | checkButton | choiceList | ...
        self.tooltip = None
        self.order = 0


def _local(tag):
    return tag.rsplit('}', 1)[-1]


def load_xfa(pdf, acro):
    xfa = pdf.get(acro.get('XFA'))
    if xfa is None:
        return None
    body = None
    if isinstance(xfa, list):
        for i in range(0, len(xfa) - 1, 2):
            nm = xfa[i]
            nm = nm.text() if isinstance(nm, PStr) else str(nm)
            if nm == 'template':
                st = pdf.get(xfa[i + 1])
                if isinstance(st, Stream):
                    body = st.data()
    elif isinstance(xfa, Stream):
        whole = xfa.data()
        m = re.search(rb'<template\s+xmlns', whole)
        if m:
            e = re.search(rb'</template\s*>', whole[m.start():])
            if e:
                body = whole[m.start():m.start() + e.end()]
    if body is None:
        return None
    try:
        root = ET.fromstring(body)
    except ET.ParseError as e:
        raise AnalysisError(f'{pdf.label}: XFA template does not parse: {e}')
    out = {}
    counter = [0]

    def text_of(el):
        return ' '.join(''.join(el.itertext()).split())

    def walk(el, path):
        # index among same-named siblings
        counts = {}
        for ch in el:
            tag = _local(ch.tag)
            if tag in ('subform', 'field', 'exclGroup', 'area', 'draw'):
                nm = ch.get('name')
                if tag == 'area' and nm is None:
                    walk(ch, path)
                    continue
                if nm is None:
                    if tag in ('subform',):
                        walk(ch, path)
                    continue
                idx = counts.get(nm, 0)
                counts[nm] = idx + 1
                p = f'{path}.{nm}[{idx}]' if path else f'{nm}[{idx}]'
                if tag == 'field':
                    f = XfaField()
                    f.som = p
                    counter[0] += 1
                    f.order = counter[0]
                    for sub in ch.iter():
                        t = _local(sub.tag)
                        if t == 'speak' and f.speak is None:
                            f.speak = text_of(sub)
                        elif t == 'toolTip' and f.tooltip is None:
                            f.tooltip = text_of(sub)
                        elif t == 'text' and sub.get('maxChars') and f.maxchars is None:
                            try:
                                f.maxchars = int(sub.get('maxChars'))
                            except ValueError:
                                pass
                        elif t in ('textEdit', 'checkButton', 'choiceList', 'numericEdit', 'dateTimeEdit', 'button', 'signature', 'barcode', 'imageEdit', 'passwordEdit') and f.kind is None:
                            f.kind = t
                        elif t == 'comb' and sub.get('numberOfCells') and f.maxchars is None:
                            try:
                                f.maxchars = int(sub.get('numberOfCells'))
                            except ValueError:
                                pass
                    cap = ch.find('{*}caption')
                    if cap is not None:
                        f.caption = text_of(cap)
                    items = ch.find('{*}items')
                    if items is not None:
                        f.items = [text_of(x) for x in items]
                    out[p] = f
                elif tag in ('subform', 'exclGroup', 'area'):
                    walk(ch, p)
            elif tag in ('pageSet', 'proto', 'desc', 'variables'):
                continue
    walk(root, '')
    return out


_cache = {}


class Template:
    def __init__(self, tree, rel):
        self.rel = rel
        data = tree.read_bytes(rel)
        if not data.startswith(b'%PDF'):
            raise AnalysisError(f'{rel} is not a PDF file')
        self.pdf = PDF(data, rel)
        self.fields, acro = load_fields(self.pdf)
        self.xfa = load_xfa(self.pdf, acro)
        self._text = None

    def xfa_for(self, name):
        if not self.xfa:
            return None
        return self.xfa.get(name)

    def title(self):
        """dc:title of the XMP metadata packet (None if the document has none)."""
        for v in self.pdf.objs.values():
            if isinstance(v, Stream) and v.d.get('Type') == 'Metadata':
                try:
                    body = v.data()
                except Exception:
                    continue
                m = re.search(rb'<dc:title>.*?<rdf:li[^>]*>(.*?)</rdf:li>', body, re.S)
                if m:
                    return m.group(1).decode('utf-8', 'replace').strip()
        return None

    def page_text(self):
        """Best-effort text of the page content streams (literal strings in TJ/Tj
        operators; works for the IRS forms' simple fonts)."""
        if self._text is None:
            chunks = []
            for v in self.pdf.objs.values():
                if isinstance(v, Stream) and v.d.get('Type') not in ('ObjStm', 'XRef', 'XObject', 'Metadata') and 'Subtype' not in v.d:
                    try:
                        body = v.data()
                    except Exception:
                        continue
                    if b'BT' not in body:
                        continue
                    for m in re.finditer(rb'\[((?:[^\]\\]|\\.)*)\]\s*TJ|\(((?:[^)\\]|\\.)*)\)\s*Tj', body):
                        if m.group(1) is not None:
                            s = b''.join(re.findall(rb'\(((?:[^)\\]|\\.)*)\)', m.group(1)))
                        else:
                            s = m.group(2)
                        chunks.append(s.decode('latin-1'))
            self._text = '\n'.join(chunks)
        return self._text


def load_template(tree, rel):
    key = (tree.root, rel)
    if key not in _cache:
        _cache[key] = Template(tree, rel)
    return _cache[key]
