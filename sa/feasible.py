"""Path feasibility from the values a line can hold: a line whose definition returns only constants (on every path that
returns at all) can only ever hold those constants (None/blank stored as the line type's empty value).  A guard that
tests such a line for truth, or compares it with a constant, has a known answer; a path that assumes the other answer can
never run.  Used where "which amounts / branches are applied" matters (C08): an arm that became dead because the line
it tests changed its type is an amount that is no longer applied."""
from .lineabs import E


def const_sets(an, year):
    out = {}
    for d in an.defs.values():
        if d.year != year:
            continue
        vals = []
        ok = True
        for p in d.paths:
            if p.outcome.kind != 'ret':
                continue
            v = p.outcome.value
            if isinstance(v, E) or isinstance(v, (list, tuple, dict)) or p.imprecise:
                ok = False
                break
            if v is None or (isinstance(v, str) and v.strip() == ''):
                v = d.rec.attrs.get('_empty_value')
            vals.append(v)
        if ok and vals:
            out[f'{d.fr.name}.{d.name}'] = vals
    return out


def _truthy(v):
    try:
        return bool(v)
    except Exception:
        return True


def decided(c, csets):
    """True / False when the condition has the same answer for every value the tested line can hold, else None"""
    if not isinstance(c, E):
        return None
    if c.op == 'v' and isinstance(c.args[0], str) and c.args[0] in csets:
        ts = {_truthy(x) for x in csets[c.args[0]]}
        return ts.pop() if len(ts) == 1 else None
    if c.op == 'not':
        r = decided(c.args[0], csets)
        return None if r is None else not r
    if c.op in ('eq', 'ne', 'is', 'isnot') and len(c.args) == 2:
        a, b = c.args
        if isinstance(b, E) and not isinstance(a, E):
            a, b = b, a
        if isinstance(a, E) and a.op == 'v' and isinstance(a.args[0], str) and a.args[0] in csets and not isinstance(b, E):
            rs = set()
            for x in csets[a.args[0]]:
                try:
                    rs.add((x == b) if type(x) is type(b) or isinstance(x, (int, float)) and isinstance(b, (int, float)) else False)
                except Exception:
                    return None
            if len(rs) == 1:
                r = rs.pop()
                return r if c.op in ('eq', 'is') else not r
    return None


def infeasible(path, csets):
    """the first guard of the path that can never have the assumed answer, or None"""
    for (c, pol, _n, _r) in path.guards:
        r = decided(c, csets)
        if r is not None and r != pol:
            return c, pol
    return None
