"""Slope proofs: the relational prover of C15 with a second copy of every variable,
d:<v>, standing for the derivative of v with respect to one designated input.
Unfolding a line adds, besides `v = value`, the equation `d:v = value'` (the same
linear form over the d: variables); the linear cases of min / max / floor-at-zero
choose value and slope together; a non-decreasing transform (rounding, the tax
function, "next multiple") only fixes the sign of the slope to that of its
argument's slope (two cases).  Base facts: d:x = 1, d:(any other input) = 0, and
the sign of d:L for every line L whose direction is already known (lemmas).
Goal d:L >= 0: every leaf system with d:L < 0 is refuted by exact Fourier-Motzkin,
i.e. the slope is non-negative in every feasible region of the piecewise-linear
function.  Continuity across input-dependent decisions is checked separately."""
from fractions import Fraction

from .linform import Lin, lin_of, NonLinear
from .relational import Prover, Con, _Budget

MONOTONE_OPS = ('ceil', 'floor', 'int')


class SlopeProver(Prover):
    def __init__(self, defs, nn_atoms, zero_atoms, x_atom, lemma, input_atom):
        super().__init__(defs, nn_atoms, zero_atoms)
        self.x = x_atom
        self.lemma = lemma                # atom -> '+', '-', '0' or None
        self.input_atom = input_atom      # atom -> True if it is an input (or the mirror line of one)
        self.max_depth = 60
        self.max_cases = 2000
        self.deadline_s = 12.0

    # ---- slope of a linear form
    def prime(self, lin, st):
        """coefficient dict over d: variables"""
        coeffs = {}
        for t, c in lin.terms.items():
            if t[0] == 'a':
                v = 'd:' + t[1]
            else:
                v = 'd:' + self.var_of_term(t, st)
            coeffs[v] = coeffs.get(v, 0) + c
        return coeffs

    def slope_eq(self, name, lin, st):
        """d:name = lin'"""
        co = self.prime(lin, st)
        a = dict(co)
        a['d:' + name] = a.get('d:' + name, 0) - 1
        b = {k: -v for k, v in a.items()}
        return [Con(a, 0), Con(b, 0)]

    def slope_same(self, a, b, st):
        """a' = b'"""
        ca, cb = self.prime(a, st), self.prime(b, st)
        d = dict(ca)
        for k, v in cb.items():
            d[k] = d.get(k, 0) - v
        return [Con(d, 0), Con({k: -v for k, v in d.items()}, 0)]

    def slope_sign(self, lin, st, nonneg):
        co = self.prime(lin, st)
        return Con(co if nonneg else {k: -v for k, v in co.items()}, 0)

    # ---- entry
    def prove_slope(self, atom, want):
        """d:atom >= 0 (want '+') or <= 0 (want '-') in every region"""
        import time
        self.cases = 0
        self.t_end = time.time() + self.deadline_s
        self.names = {}
        self.order = []
        self.form_prefix = atom.rsplit('.', 1)[0]
        st = {'todo': [], 'active': set(), 'unfolded': set(), 'cross': 0}
        goal = Con({'d:' + atom: (-1 if want == '+' else 1)}, 0, strict=True)      # negation of the claim
        alts = self.line_cases(atom, st)
        if alts is None:
            return False
        st['unfolded'].add(atom)
        try:
            for alt in alts:
                if not self.search([goal] + alt, self.branch(st), 0):
                    return False
            return True
        except _Budget:
            return False

    # ---- hooks
    def extend_vars(self, vars_):
        return set(vars_) | {v[2:] for v in vars_ if v.startswith('d:v:')}

    def search(self, cons, st, depth):
        import time
        if time.time() > self.t_end:
            raise _Budget()
        return super().search(cons, st, depth)

    def pick_candidates(self, vars_, st):
        """the goal's own form first, in discovery order (as in the value prover); when nothing of it is left, the lines of
        other forms whose slope occurs: unknown direction first, then those that unfold without a case split"""
        cands = super().pick_candidates({v for v in vars_ if not v.startswith('d:')} | {v for v in vars_ if self.same_form(v)}, st)
        cands = [v for v in cands if self.same_form(v)]
        if cands or st['cross'] >= 10:
            return cands
        slope_needed = {v[2:] for v in vars_ if v.startswith('d:v:')}
        pool = [v for v in slope_needed if v in self.defs and v not in st['unfolded'] and ':*' not in v]

        def score(v):
            d = self.defs[v]
            rets = [p for p in d.paths if p.outcome.kind == 'ret']
            cheap = len(rets) == 1 and not rets[0].guards
            if self.lemma(v) is None:
                return 0
            return 1 if cheap else 2
        return sorted(pool, key=lambda v: (score(v), v))

    def sign_facts(self, cons):
        out = super().sign_facts([c for c in cons])
        vars_ = set()
        for c in cons:
            vars_.update(c.coeffs)
        for v in vars_:
            if not v.startswith('d:'):
                continue
            a = v[2:]
            if a == self.x:
                out += [Con({v: 1}, -1), Con({v: -1}, 1)]          # = 1
            elif a.startswith('%'):
                continue
            elif a.startswith('i:') or self.input_atom(a):
                out += [Con({v: 1}, 0), Con({v: -1}, 0)]           # = 0
            else:
                s = self.lemma(a)
                if s == '0':
                    out += [Con({v: 1}, 0), Con({v: -1}, 0)]
                elif s == '+':
                    out.append(Con({v: 1}, 0))
                elif s == '-':
                    out.append(Con({v: -1}, 0))
        return out

    def line_cases(self, atom, st):
        d = self.defs.get(atom)
        if d is None:
            return None
        x = Lin(0, {('a', atom): 1})
        alts = []
        for p in d.paths:
            if p.outcome.kind != 'ret':
                continue
            v = p.outcome.value
            if isinstance(v, (tuple, list)):
                return None
            if v is None or v is False or v == '':
                val = Lin(0)
            else:
                try:
                    val = lin_of(v, self.zero)
                except NonLinear:
                    return None
            alt = self.eq(x, val, st) + self.slope_eq(atom, val, st)
            for g in p.guards:
                c = self.guard_con(g[0], g[1], st)
                if c is not None:
                    alt.append(c)
            alts.append(alt)
            if len(alts) > 12:
                return None
        return alts or None

    def term_cases(self, name, t, st):
        x = Lin(0, {('a', name): 1})
        k = t[0]
        # Choices are made in the interior of a region (strict comparison) or, where two candidates tie, only if they also
        # move together (equal slopes): a tie at a single point of the axis has measure zero and must not mix one-sided slopes.
        if k == 'max0':
            f = self.thaw(t[1])
            zero = Lin(0)
            return [[self.ge(f, zero, st, True)] + self.eq(x, f, st) + self.slope_eq(name, f, st),
                    [self.ge(zero, f, st, True)] + self.eq(x, zero, st) + self.slope_eq(name, zero, st),
                    self.eq(f, zero, st) + self.slope_same(f, zero, st) + self.eq(x, zero, st) + self.slope_eq(name, zero, st)]
        if k in ('min', 'max'):
            fs = [self.thaw(f) for f in t[1]]
            if len(fs) > 3:
                return [[]]
            alts = []
            for i, fi in enumerate(fs):
                others = [fj for j, fj in enumerate(fs) if j != i]
                combos = [[]]
                for fj in others:
                    strict = self.ge(fj, fi, st, True) if k == 'min' else self.ge(fi, fj, st, True)
                    tie = self.eq(fi, fj, st) + self.slope_same(fi, fj, st)
                    combos = [c + [strict] for c in combos] + [c + tie for c in combos]
                for c in combos:
                    alts.append(self.eq(x, fi, st) + self.slope_eq(name, fi, st) + c)
            return alts
        if k in MONOTONE_OPS:
            f = self.thaw(t[1])
            base = super().term_cases(name, t, st)[0]
            dv = 'd:' + name
            return [base + [self.slope_sign(f, st, True), Con({dv: 1}, 0)],
                    base + [self.slope_sign(f, st, False), Con({dv: -1}, 0)]]
        if k == 'sumn':
            body = self.thaw(t[2])
            base = super().term_cases(name, t, st)[0]
            return [base + self.slope_eq(name, body, st)]
        if k == 'ftax':
            # the tax function is non-decreasing in the amount (decided by C07)
            arg = self.thaw(t[1])
            dv = 'd:' + name
            return [[self.slope_sign(arg, st, True), Con({dv: 1}, 0), Con({name: 1}, 0)],
                    [self.slope_sign(arg, st, False), Con({dv: -1}, 0), Con({name: 1}, 0)]]
        if k == 'prod':
            parts = list(t[1])
            if len(parts) == 2 and all(p[0] == 'a' for p in parts) and all(p[1].startswith('i:') or p[1] in self.nn for p in parts):
                da, db, dv = 'd:' + parts[0][1], 'd:' + parts[1][1], 'd:' + name
                pos = [Con({name: 1}, 0)]
                return [pos + [Con({da: 1}, 0), Con({db: 1}, 0), Con({dv: 1}, 0)],
                        pos + [Con({da: -1}, 0), Con({db: -1}, 0), Con({dv: -1}, 0)],
                        pos + [Con({da: 1}, 0, True), Con({db: -1}, 0, True)],
                        pos + [Con({da: -1}, 0, True), Con({db: 1}, 0, True)]]
            return [[]]
        return super().term_cases(name, t, st)
