"""Grammar for the arithmetic instructions printed on the forms (XFA speak text
of the box a line is mapped to, or a cited worksheet transcription).  An
instruction is armed only if its whole arithmetic sentence parses."""
import re

LABEL = r'(\d{1,2}[a-z]{0,2})'
FORMS = [
    (r'Schedule 1\b', '1040_s1'), (r'Schedule 2\b', '1040_s2'), (r'Schedule 3\b', '1040_s3'), (r'Schedule A\b', '1040_sa'),
    (r'Schedule B\b', '1040_sb'), (r'Schedule 8812\b', '1040_s8812'), (r'Form 1040(?:,? (?:or )?1040-S ?R)?(?:,? or 1040-N ?R)?', '1040'),
    (r'Schedule S\b', 'nc_d-400_ss'), (r'Form 8995\b', '8995'), (r'Form 8959\b', '8959'), (r'Form 8889\b', '8889'), (r'Form 8606\b', '8606'),
]


class Instr:
    def __init__(self, kind, **kw):
        self.kind = kind
        self.__dict__.update(kw)

    def __repr__(self):
        return f'{self.kind} ' + ' '.join(f'{k}={v}' for k, v in self.__dict__.items() if k != 'kind')


def clean(text):
    t = ' ' + (text or '') + ' '
    t = re.sub(r'Open parenthesis\.|Close parenthesis\.', ' ', t)
    t = re.sub(r'\bLines?\b', lambda m_: m_.group(0).lower(), t)
    t = t.replace('-0-', '0').replace('–', '-').replace('—', '-')
    t = re.sub(r'\s+', ' ', t)
    return t


def parse_labels(s):
    """'1z, 2b, 3b, and 8' / '1 through 4, 5a, 5b, and 7' -> list of items (label | ('range', a, b))"""
    s = s.strip().rstrip('.')
    s = re.sub(r',?\s+and\s+', ', ', s)
    items = []
    for part in [p.strip() for p in s.split(',') if p.strip()]:
        m = re.fullmatch(LABEL + r'\s+through\s+' + LABEL, part)
        if m:
            items.append(('range', m.group(1), m.group(2)))
            continue
        if re.fullmatch(LABEL, part):
            items.append(part)
            continue
        return None
    return items or None


def form_of(text):
    for pat, fid in FORMS:
        if re.search(pat, text):
            return fid
    return None


def parse(text):
    """-> Instr or None"""
    t = clean(text)
    m = re.search(r'Subtract line ' + LABEL + r' from line ' + LABEL + r'\. If zero or less, enter 0\. If more than zero and not a multiple of \$([0-9,]+), enter the next multiple of \$([0-9,]+)', t)
    if m and m.group(3) == m.group(4):
        return Instr('nextmult', a=m.group(2), b=m.group(1), step=m.group(3).replace(',', ''))
    if re.search(r'far right column|not a multiple of', t):
        return None
    m = re.search(r'Divide line ' + LABEL + r' by line ' + LABEL + r'\. Enter the result as a decimal \(?rounded to at least (?:three|3) places\)?\. If the result is 1\.000 or more, enter .{0,2}1\.000', t)
    if m:
        return Instr('ratio', a=m.group(1), b=m.group(2))
    floor = bool(re.search(r'If (?:zero or less|less than zero|the result is (?:zero or less|less than zero)), enter 0', t)) or \
        bool(re.search(r'If line ' + LABEL + r' is more than line ' + LABEL + r', enter 0', t))
    m = re.search(r'If line ' + LABEL + r' is more than line ' + LABEL + r', subtract line ' + LABEL + r' from line ' + LABEL + r'[.,; ]', t)
    if m and m.group(1) == m.group(4) and m.group(2) == m.group(3):
        return Instr('condsub', a=m.group(1), b=m.group(2))
    m = re.search(r'Subtract line ' + LABEL + r' from line ' + LABEL + r'[.,; ]', t)
    if m:
        return Instr('subfloor' if floor else 'sub', a=m.group(2), b=m.group(1))
    m = re.search(r'from Form(?:\(s\))? W-2, box (\d{1,2})\b', t)
    if m and not re.search(r'Subtract|Multiply|Add lines|smaller|larger', t):
        return Instr('w2sum', box=m.group(1))
    m = re.search(r'Add the amounts on line (\d{1,2})\.', t)
    if m:
        return Instr('addlisting', a=m.group(1))
    cap = bool(re.search(r'If (?:greater|more) than zero, enter 0', t))
    m = re.search(r'Multiply line ' + LABEL + r' by ([0-9.]+) ?% \((0?\.[0-9]+)\)\.? .{0,40}do not enter more than (?:the amount on )?line ' + LABEL, t)
    if m:
        return Instr('rate_capped', a=m.group(1), rate=m.group(3), cap=m.group(4))
    m = re.search(r'(?:Add|Combine) (?:the amounts in the far right column for )?lines ((?:' + LABEL + r'|through|and|,|\s)+?)\s*(?:\.|,? column|$)', t)
    if m:
        items = parse_labels(m.group(1))
        if items:
            return Instr('addcap' if cap else ('addfloor' if floor else 'add'), items=items)
    m = re.search(r'Multiply line ' + LABEL + r' by ([0-9.]+) ?% \((0?\.[0-9]+)\)', t)
    if m:
        floor_a_zero = bool(re.search(r'If zero or less, enter a zero', t))
        return Instr('ratefloor' if (floor or floor_a_zero) else 'rate', a=m.group(1), rate=m.group(3), pct=m.group(2))
    m = re.search(r'Multiply line ' + LABEL + r' by \$([0-9,]+)', t)
    if m:
        return Instr('amount', a=m.group(1), amount=m.group(2).replace(',', ''))
    m = re.search(r'Multiply line ' + LABEL + r' by line ' + LABEL + r'[.,; ]', t)
    if m:
        return Instr('product', a=m.group(1), b=m.group(2))
    m = re.search(r'Enter the (smaller|larger) of line ' + LABEL + r' or (?:line )?' + LABEL + r'[.,; ]', t)
    if m:
        return Instr(m.group(1), a=m.group(2), b=m.group(3))
    m = re.search(r'Enter the (smaller|larger) of line ' + LABEL + r' or \$([0-9,]+)', t)
    if m:
        return Instr(m.group(1) + '_const', a=m.group(2))
    # carries from another form:  "... from Schedule 1, line 10"  /  "amount from line 11 of your Form 1040"
    m = re.search(r'(?:[Aa]mount|income|credits?|deductions?|benefits|[Ww]ages|adjustments to income) from ((?:Schedule|Form) [0-9A-Za-z\- ,or]+?), line ' + LABEL + r'[.,; ]', t)
    if m and form_of(m.group(1)):
        return Instr('carry', form=form_of(m.group(1)), a=m.group(2))
    m = re.search(r'from ((?:Schedule|Form) [0-9A-Za-z\- ]+?), line ' + LABEL + r'\. ', t)
    if m and form_of(m.group(1)):
        return Instr('carry', form=form_of(m.group(1)), a=m.group(2))
    m = re.search(r'Enter (?:the )?amount from line ' + LABEL + r' of your ((?:Schedule|Form) [0-9A-Za-z\- ,or]+?)[.,;]', t)
    if m and form_of(m.group(2)):
        return Instr('carry', form=form_of(m.group(2)), a=m.group(1))
    m = re.search(r'Enter (?:the )?amount from ((?:Schedule|Form) [0-9A-Za-z\- ,or]+?), line ' + LABEL + r'[.,; ]', t)
    if m and form_of(m.group(1)):
        return Instr('carry', form=form_of(m.group(1)), a=m.group(2))
    m = re.search(r'Enter the amount from line ' + LABEL + r'[.,; ]', t)
    if m and ' of your ' not in t[m.end() - 1:m.end() + 10]:
        return Instr('copy', a=m.group(1))
    return None
