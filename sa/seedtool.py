#!/venv/bin/python
"""Developer tool (not a registered check): confirm a seeded change in a scratch
worktree (tests still pass, demo fails with it and passes without), store it
under /verif/seeded/<id>/, and run the checks against it on /repo (apply, run,
undo)."""
import json
import os
import shutil
import subprocess
import sys
import tempfile

VERIF = os.path.dirname(os.path.dirname(os.path.abspath(__file__)))
PY = '/venv/bin/python'


def sh(cmd, cwd=None, env=None, timeout=900):
    e = dict(os.environ)
    if env:
        e.update(env)
    r = subprocess.run(cmd, shell=True, cwd=cwd, env=e, capture_output=True, text=True, timeout=timeout)
    return r.returncode, (r.stdout + r.stderr)


def confirm(src, sid):
    """src: directory with patch.diff, demo.py, meta.json"""
    wt = tempfile.mkdtemp(prefix='habutax-seed-')
    os.rmdir(wt)
    rc, out = sh(f'git -C /repo worktree add -q --detach {wt} HEAD')
    assert rc == 0, out
    res = {'id': sid}
    try:
        rc, out = sh(f'{PY} {src}/demo.py {wt}', cwd=wt, env={'PYTHONPATH': wt})
        res['demo_clean'] = 'PASS' if rc == 0 else f'rc={rc}: {out[-300:]}'
        rc, out = sh(f'git apply --3way {src}/patch.diff', cwd=wt)
        if rc != 0:
            rc, out = sh(f'git apply {src}/patch.diff', cwd=wt)
        res['applies'] = rc == 0
        if rc != 0:
            res['apply_error'] = out[-400:]
            return res
        rc, out = sh(f'{PY} -m pytest -q -p no:cacheprovider --continue-on-collection-errors 2>&1 | tail -1', cwd=wt, env={'PYTHONPATH': wt})
        res['tests_with_change'] = out.strip()
        rc, out = sh(f'{PY} {src}/demo.py {wt}', cwd=wt, env={'PYTHONPATH': wt})
        res['demo_changed'] = 'FAIL' if rc != 0 else 'PASS (demo does not notice the change)'
        res['demo_changed_tail'] = out.strip()[-300:]
        rc, out = sh('git diff HEAD', cwd=wt)
        res['diff'] = out
    finally:
        sh(f'git -C /repo worktree remove --force {wt}')
        shutil.rmtree(wt, ignore_errors=True)
    return res


def run_checks(patch_text, pids):
    """apply to /repo, run quick checks, undo"""
    rc, out = sh('git -C /repo status --porcelain --untracked-files=no')
    assert out.strip() == '', f'/repo is dirty: {out}'
    with tempfile.NamedTemporaryFile('w', suffix='.diff', delete=False) as f:
        f.write(patch_text)
        pf = f.name
    results = {}
    try:
        rc, out = sh(f'git -C /repo apply {pf}')
        assert rc == 0, out
        procs = {}
        for pid in pids:
            procs[pid] = subprocess.Popen(f'{PY} {VERIF}/sa/run.py {pid}', shell=True, stdout=subprocess.PIPE, stderr=subprocess.STDOUT, text=True,
                                          env=dict(os.environ, VERIF_NO_EVIDENCE='1'))
        for pid, p in procs.items():
            out, _ = p.communicate(timeout=1200)
            lines = [l for l in out.splitlines() if l.startswith(('VIOLATION', 'ANALYSIS-ERROR')) or (l.startswith('  ') and not l.startswith(('  rule', '  analysed', '  self-test')))]
            results[pid] = {'rc': p.returncode, 'lines': [l[:400] for l in lines[:6]]}
    finally:
        sh('git -C /repo checkout -- .')
        os.unlink(pf)
    return results


def recheck(ids):
    """re-run all claimed checks against the stored patches and refresh meta.json"""
    claimed = [c['property_id'] for c in json.load(open(os.path.join(VERIF, 'MANIFEST.json')))['checks']]
    root = os.path.join(VERIF, 'seeded')
    rows = []
    for sid in sorted(os.listdir(root)):
        if ids and sid not in ids:
            continue
        d = os.path.join(root, sid)
        patch = open(os.path.join(d, 'patch.diff')).read()
        rc, out = sh('git -C /repo apply --check -', cwd='/repo') if False else (0, '')
        try:
            checks = run_checks(patch, claimed)
        except AssertionError as e:
            rows.append((sid, 'PATCH DOES NOT APPLY', str(e)[:100]))
            continue
        fired = sorted(p for p, r in checks.items() if r['rc'] == 1)
        errs = sorted(p for p, r in checks.items() if r['rc'] == 2)
        meta = json.load(open(os.path.join(d, 'meta.json')))
        meta['checks_run'] = claimed
        meta['checks_reporting_a_violation'] = fired
        meta['checks_with_analysis_error'] = errs
        meta['first_reports'] = {p: checks[p]['lines'][:3] for p in fired + errs}
        json.dump(meta, open(os.path.join(d, 'meta.json'), 'w'), indent=1)
        target = meta.get('property') or sid[:3]
        rows.append((sid, 'target ' + ('CAUGHT' if target in fired else 'missed'), ' '.join(fired) + (' errors: ' + ' '.join(errs) if errs else '')))
    for r in rows:
        print(*r, sep='  |  ')


def main():
    if sys.argv[1] == '--recheck':
        return recheck(set(sys.argv[2:]))
    src, sid = sys.argv[1], sys.argv[2]
    pids = sys.argv[3].split(',') if len(sys.argv) > 3 else None
    meta = json.load(open(os.path.join(src, 'meta.json')))
    res = confirm(src, sid)
    print(json.dumps({k: v for k, v in res.items() if k != 'diff'}, indent=1))
    ok = res.get('applies') and res.get('demo_clean') == 'PASS' and res.get('demo_changed') == 'FAIL' and '55 passed' in res.get('tests_with_change', '')
    if not ok:
        print('NOT CONFIRMED')
        return 1
    dst = os.path.join(VERIF, 'seeded', sid)
    os.makedirs(dst, exist_ok=True)
    open(os.path.join(dst, 'patch.diff'), 'w').write(res['diff'])
    shutil.copy(os.path.join(src, 'demo.py'), os.path.join(dst, 'demo.py'))
    all_pids = pids or [json.loads(l)['id'] for l in open(os.path.join(VERIF, 'properties.jsonl'))]
    claimed = {c['property_id'] for c in json.load(open(os.path.join(VERIF, 'MANIFEST.json')))['checks']}
    all_pids = [p for p in all_pids if p in claimed]
    checks = run_checks(res['diff'], all_pids)
    fired = sorted(p for p, r in checks.items() if r['rc'] == 1)
    errs = sorted(p for p, r in checks.items() if r['rc'] == 2)
    meta2 = {'id': sid, 'property': meta.get('property'), 'title': meta.get('title'), 'what_it_breaks': meta.get('what_it_breaks'),
             'needs_to_manifest': meta.get('needs_to_manifest'), 'why_tests_miss_it': meta.get('why_tests_miss_it'), 'files': meta.get('files'),
             'confirmed': {'tests_with_change': res['tests_with_change'], 'demo_on_clean_tree': res['demo_clean'], 'demo_on_changed_tree': res['demo_changed'],
                           'how': 'scratch git worktree of /repo HEAD under $TMPDIR: demo.py on the clean worktree, git apply patch.diff, pytest (BASELINE command), demo.py again; worktree removed'},
             'checks_run': all_pids, 'checks_reporting_a_violation': fired, 'checks_with_analysis_error': errs,
             'first_reports': {p: checks[p]['lines'][:3] for p in fired + errs}}
    json.dump(meta2, open(os.path.join(dst, 'meta.json'), 'w'), indent=1)
    print('CONFIRMED', sid, 'fired:', fired, 'errors:', errs)
    for p in fired + errs:
        for l in checks[p]['lines'][:2]:
            print('   ', p, l[:300])
    return 0


if __name__ == '__main__':
    sys.exit(main())
