"""The claim table behind MANIFEST.json (see mkmanifest.py)."""

NOT_BUILT = 'check not built yet in this round (design in DESIGN.md); listed here until its checker exists and is quiet on the unchanged tree'


def fill(claim, na):
    for pid in ['C%02d' % i for i in range(1, 21)]:
        na(pid, NOT_BUILT)
    del_na = []

    def c(pid, *a):
        claim(pid, *a)

    c('C17',
      'Decision procedure over an exhaustively enumerated finite set: every (year, form class, allowed instance) constructor is statically evaluated and every (threshold table, filing status) pair, every input/line name and every class attribute is checked against rules R17.1-R17.6. Exhaustive for the shipped catalogue; no sampling.',
      'Trusted: the static constructor evaluator sa/interp.py (fails closed on anything it does not model). Not decided: the exact text layout printed by list-forms/list-form-inputs (only the names/metadata it prints).',
      'static constructor evaluation (AST partial evaluator) + exhaustive table rules', 'DESIGN.md §3 C17')

    c('C10',
      'Decision procedure over all syntactic paths: every line definition, PDF value function and needs_filing method of all three years (about 2 550 definitions, 4 900 paths) is abstractly interpreted with helpers and the core methods it calls inlined from source; every input/line/form/threshold/enum/attribute/callee reference on any path is resolved against the statically built same-year catalogue (rules R10.1-R10.9, incl. unbounded indices into fixed name blocks and s.form() availability). R10.10: the set of run-time types each returned expression can have (Python numeric promotion; sum over zero copies = the int 0 unless the path guards exclude the empty case, decided by constant folding and exact linear infeasibility) must be the declared line type, otherwise the type choke point aborts the solve with a TypeError instead of computing the line (about 1 940 line definitions). Exhaustive over the shipped definitions; independent of which inputs make a path execute.',
      'Trusted: sa/interp.py and sa/lineabs.py (fail closed: unmodelled constructs are listed as undecided or raise an analysis error; floors on the number of definitions, paths, reads and call sites). Assumes integer inputs used to build names are >= 0. Forms in sa/data/absent_forms.json (1040_s2, 1099-oid) are accepted as deliberately absent.',
      'abstract interpretation of line definitions (path enumeration, inlined helpers) + catalogue resolution', 'DESIGN.md §3 C10')

    c('C18',
      'Exhaustive table-versus-artifact agreement: all ~1 800 (form instance, mapping) pairs of the three years are compared with the field tree, kinds, export values, /MaxLen / maxChars, /Opt lists and XFA accessibility labels parsed from the 39 bundled PDF templates (stdlib PDF reader); exclusive check-box groups are decided by evaluating each mapping value function over the finite domain of its driving line; filing forms must have template, mappings and the sequence number the template prints.',
      'Trusted: sa/pdfx.py (object streams, AcroForm tree, XFA template packet) with floors on parsed fields/labels; eight label exceptions confirmed by reading are frozen in sa/data/label_exceptions.json, one per template field with a reason. Not decided: what pdftk does with the form data; NC filing-status boxes driven by five separate lines are not judged for exclusivity.',
      'cross-artifact agreement check (statically evaluated pdf_fields tables vs parsed PDF templates)', 'DESIGN.md §3 C18')

    c('C07',
      'Abstract interpretation of figure_tax over piecewise-affine functions of one real variable: for each year and each of the five filing statuses the function is folded into a partition of [0, 1e12] with exact rational pieces and compared, on the common refinement (every open piece and every break point, about 62 000 per run), with the statutory schedule built from an independent table of bracket edges; monotonicity, bounded step and QSS = MFJ are checked on the computed function; the three call sites per year must pass (line value, Form 1040 filing status) to the same year\'s function. All reals, not sampled incomes.',
      'Trusted: sa/pwaffine.py (exits 2 if figure_tax leaves the piecewise-affine subset) and the bracket edges typed into sa/data/tax_schedules.json from Rev. Proc. 2020-45/2021-45/2022-38 (cross-validated: they reproduce every cell of all three tax tables and every worksheet row). Not decided: float rounding of b*x-d (at most 1 ulp before the cent rounding).',
      'abstract interpretation (piecewise-affine domain) + exact comparison with a statutory oracle', 'DESIGN.md §3 C07')

    CORE_NOTE = ('Trusted: sa/cfg.py (statement CFG + dominators), sa/core.py (role inference for the solver attributes; a role that cannot be inferred uniquely, '
                 'or an anchor function that vanished, is an analysis error), and the rule texts in sa/corerules.py. ')
    c('C01',
      'Structural clauses decided on every CFG path of the core: success flag only under the conjunction of the three emptiness conditions (K1), CLI reports all three diagnostics on failure and the success text only on success (K1b), the four signalling exceptions are recorded on all handler paths and cannot be swallowed anywhere on the solve call path, no try in any of the 2 400 line definitions (K2), not_implemented() always raises (K3), unknown form aborts before any state change (K4), unimplemented list only grows (K5), single value-store writer and raising reads (K6/K7), accessor discipline of all line definitions (L1).',
      CORE_NOTE + 'Not decided: that the dependency trackers never lose a registered waiter (algorithmic, all histories), hence the full clause "no demanded line is left without a value".',
      'CFG dominance / must-pass-through / who-writes / exception-flow rules + abstract interpretation of line definitions (L1)', 'DESIGN.md §3 C01')
    c('C03',
      'The three premises from which the fixed-point property follows are each decided structurally: P1 purity of all shipped line definitions and module helpers (L1 access discipline, L2 effect analysis over all paths), P2 absent keys abort before anything is stored (K7, K11, K6), P3 stores only grow and stored values are never rewritten (K6, K8), plus deterministic rounding at the choke point (K21).',
      CORE_NOTE + 'The implication premises => property is argued in DESIGN.md, not mechanised. Not decided: arbitrary generated form programs (P1 is per program) and all evaluation orders (needs C06).',
      'effect analysis of line definitions (abstract interpretation) + CFG dominance / who-writes rules', 'DESIGN.md §3 C03')
    c('C04',
      'Scheduling clauses: who may schedule (K12), adding a form schedules exactly required_fields() and registers fields(), input-only loading touches no solve state (K13), the dependency handler adds the named form fully and schedules exactly the missing line (K13b), the solution lists every stored value (K14), input forms register mirror lines as required (K21d).',
      CORE_NOTE + 'Not decided: that every scheduled line received a value on a successful run (C06) and which lines the data-dependent demand consists of.',
      'who-may-call + CFG dominance rules on the solver', 'DESIGN.md §3 C04')
    c('C05',
      'Premises of order/layout independence: purity of all line definitions (L1, L2), write-once stores behind one read gate (K6, K7, K8, K11), determinism lint over the core and all 76 form modules - no time/random/environment/identity/set-order dependence (K16), file and prompt answers share one store entry and one validation gate (K8, K18).',
      CORE_NOTE + 'Not decided: independence from the attempt order for all schedules (needs "no waiter lost", C06); the schedule-permutation hook named by the property is a dynamic device and is not used.',
      'effect analysis + determinism lint + who-writes rules', 'DESIGN.md §3 C05')
    c('C06',
      'Four structural clauses only: store => meet with the same key (K9), refusal monotone, re-tested between prompts, prompt called from one place (K10), a dependency is scheduled once and marked (K12), line-attempt loops iterate over materialised sequences, never the live generator (K15). Each has a concrete failure mode (lost release, endless prompting, duplicate scheduling, livelock).',
      CORE_NOTE + 'NOT decided and not claimed: termination of the work list, the bound on evaluations per line and exactly-once release - these quantify over all histories of register/meet/drain (model-checking territory).',
      'CFG successor / cycle / dominance rules on the solver', 'DESIGN.md §3 C06')
    c('C11',
      'Gate clauses: in InputStore.__getitem__ the converted value is dominated, in order, by specification-known, supplied and valid(text) on the same unmodified text, each failure raising its own exception (K11); sole access path to the raw configuration (K11b, L1 over all line definitions); valid() implementations go through value() (K11c); float inputs pass a finiteness test (K11d); supplied <=> found, no fallback/defaults (K11e); prompt loop returns only validated answers (K20).',
      CORE_NOTE + 'Not decided: the accepted language of each validator for arbitrary strings (unicode digits, underscores, case).',
      'CFG dominance (ordered must-pass-through) rules on inputs.py + accessor discipline of line definitions', 'DESIGN.md §3 C11')
    c('C12',
      'Choke-point rules: TypedField.value returns the empty value only for None/blank text and otherwise only after an exact type test whose failing branch raises a TypeError naming the line (K21a); FloatField rounds to the declared places on the way into the store (K21b); nothing bypasses it (K21c, K6); empty values and types per class (K21e); input-form mirror table agrees with the value types of the input classes (K21d).',
      CORE_NOTE + 'The behaviour for every Python value a definition might return is exactly the choke point; nothing further is assumed.',
      'CFG dominance rules on fields.py / form.py + who-calls', 'DESIGN.md §3 C12')
    c('C13',
      'Who-calls / def-use clauses: prompt only from _attempt_input, which is only called from the loop over the input tracker\'s unmet dependencies with the waiters of that same input (K10, K17); tracker fed only by the MissingInput handler (K2, K17); MissingInput raised only by the store after provides() was false (K11, K17); answers land in the object that write() serialises and the CLI writes that very store (K8, K18).',
      CORE_NOTE + 'Not decided: "re-running asks nothing and produces the identical solution" - a two-run history over the INI text round trip.',
      'who-may-call + def-use rules on solver.py / inputs.py / CLI', 'DESIGN.md §3 C13')
    c('C14',
      'Agreement clauses between writer and reader: tax-year section/key/getint/catalogue index/section removal (K22a); per-type to_string/from_string consistency and filler re-typing (K22b); all ~130 enum-typed inputs and lines per year use enumerations whose str(member) is the member name; parsers carrying user text have interpolation disabled (K22c); to_config writes every value (K14).',
      CORE_NOTE + 'Not decided: exact round trip of every float/int/str value (numeric formatting, multi-line text) - runtime values.',
      'writer/reader agreement rules (AST) + catalogue sweep', 'DESIGN.md §3 C14')
    c('C19',
      'Structural clauses: taint rule - every value written between the parentheses of a PDF literal string passes through the escaping function, which handles backslash first, then both parentheses (K23a); selection by needs_filing, ordering by (jurisdiction, sequence_no), one pass (K23b) with class rules over all 70 form classes (input forms/worksheets constant-False, filing forms uniquely positioned); raise-never-truncate and no swallowing handler on the fill path (K23c).',
      CORE_NOTE + 'Not decided: what pdftk does with the form data; non-ASCII text.',
      'taint / def-use / exception-flow rules on pdf_filler.py and pdf_fields.py + catalogue class rules', 'DESIGN.md §3 C19')
    c('C20',
      'Structural clauses: Solver.solve() inside a try whose finally writes the store back under --writeback-input only, no swallowing handler, nothing interactive before the protected region (K19); Ctrl-C becomes "not supplied", other interruptions propagate (K20); answers are stored immediately into the store object the CLI writes (K8, K18); refusal stops prompting (K10).',
      CORE_NOTE + 'Not decided: well-formedness of the written file for arbitrary answer text and atomicity of write() (truncate-then-write).',
      'CFG / try-finally structure rules on the CLI and the solver', 'DESIGN.md §3 C20')

    c('C09',
      'Partial evaluation of all line definitions under "this declaration is affirmative" (3-valued conditions, inter-line constant propagation): the ~78 frozen gate declarations per year must still have a reader that refuses on every path after reading them (R9.1); every other reader of a gate must refuse by itself, through the lines it must read / a required line of its form, or because every demander aborts - the contradiction rule "one reader refuses, a sibling proceeds" (R9.2); ~22 frozen limit gates per year keep a not-implemented path guarded by amount > limit (R9.3); the signal is real (K1, K2, K3).',
      'Trusted: sa/gates.py + sa/lineabs.py; the frozen table sa/data/gates.json (inferred, then confirmed by reading; composite declarations listed under not_gates with a reason and not judged). Not decided: that a gate is reached for given data; gates on derived amounts outside the frozen limit list.',
      'partial evaluation / abstract interpretation of line definitions under assumptions + sibling contradiction rule', 'DESIGN.md §3 C09')

    c('C08',
      'Exhaustive comparison of (year, amount, use site, filing status) triples: every line definition is partially evaluated under each of the five statuses and the constants it uses are extracted with role and the inputs/lines they are combined with; 174 frozen use sites of 53 statutory amounts x 3 years x statuses (about 510 triples) must equal an independent table of published values; where the IRS template prints dollar amounts on the mapped box, the values used must be among them.',
      'Trusted: sa/amounts.py + sa/lineabs.py; the published values typed into sa/tools/make_statutory_table.py (Rev. Proc. 2020-45/2021-45/2022-38, form instructions, NC D-401) and frozen in sa/data/statutory_amounts.json. Amounts not in the table are not covered; tiered tables are compared as sets per status.',
      'partial evaluation per filing status + semantic constant extraction + comparison with an independent oracle table', 'DESIGN.md §3 C08')

    c('C02',
      'Translation validation between two static artifacts: the instruction printed for a line (accessibility text of the IRS template box it is mapped to; cited transcriptions for the two 1040 worksheets and the NC D-400 face, whose templates carry no text) parsed by a sentence grammar and armed only when the whole arithmetic sentence parses and all operands are implemented lines (about 445 armed lines over three years: add/combine 150, subtract 140, smaller-of 34, multiply 55, carry/copy 45, conditional subtract 12), against the linear normal form of every value-returning path of the line definition. Wrong operand, sign, rate, dropped summand or floor, wrong carried line are decided on every path.',
      'Trusted: sa/instr.py grammar, sa/linform.py normal forms, sa/lineabs.py; worksheet wording in sa/data/worksheets/*.txt (from the published instructions, typed from memory), three frozen path exceptions with reasons in sa/data/c02_exceptions.json. Not decided: about 645 lines whose instruction is prose ("see instructions", per-payer listings, status amounts), NC schedules, numeric equality on concrete returns.',
      'translation validation: instruction grammar vs linear normal form of abstractly interpreted definitions', 'DESIGN.md §3 C02')

    c('C15',
      'Balance identities decided on linear normal forms of all paths (overpayment/amount owed are the two signed halves of payments minus tax under complementary guards, refund + applied = overpayment; NC likewise: 6 identities x 3 years). Non-negativity in two stages: abstract interpretation in a sign domain with symbolic upper bounds (min(a,b)<=a, x*r<=x for a rate or a ratio line capped at 1, a-b>=0 under a guard or when a bounds b) as a greatest fixed point over the line graph, then relational proofs for the rest: the definitions of the lines read are unfolded path by path, min/max/floor terms split into their linear cases and every leaf system {guards, equalities, sign facts, symbolic upper bounds, goal<0} refuted by exact Fourier-Motzkin elimination over the rationals (same form first, at most 6 lines of other forms per branch). About 535-560 of the ~580-610 amount lines per year are proven and frozen (R15.2: must stay provable); the credit lines the forms define as non-negative but that are not provable are reported at the line where the sign is lost (R15.3).',
      'Trusted: sa/signs.py, sa/relational.py, sa/linform.py, sa/lineabs.py; frozen lists sa/data/nonneg_lines.json (lines provable on the confirmed baseline), nonneg_required.json (credit lines required although unprovable) and balance_identities.json. Known finding (reproduced on the real code, 2022 and 2023): Credit Limit Worksheet A line 3 and through it Schedule 8812 line 14 / Form 1040 line 19 are negative when Schedule 3 line 1 exceeds the tax. Not armed (listed in the evidence with the losing expression): lines whose sign depends on AGI, which may legitimately be negative (1040.9/11, 8812.1/3, Schedule A 2/3, 6251 worksheet, 8995.11, NC 6/8/12b/14), Form 8606 lines that need mutually consistent inputs, 2021 Schedule 8812 Part III lines that are non-negative only in the context in which they are demanded, and the signed NC pseudo-line "refund". Rounding of stored values is not modelled.',
      'abstract interpretation (sign + upper-bound domain, greatest fixed point) + polyhedral case analysis (exact Fourier-Motzkin) + linear identities', 'DESIGN.md §3 C15, §10')
    c('C16',
      'Two of the four relations plus a sibling rule: renumbering invariance as a symmetry rule on every definition (index only in instance position, only permutation-invariant combination, fixed positions only in the frozen per-payer listing lines); taxpayer/spouse atom symmetry of every definition that treats both; withholding one-for-one: each source enters its line and each link of 25a/b/c -> 25d -> 33 with coefficient exactly 1 on every value path, and total tax and its ancestors lie outside the taint closure of the withholding sources (with the C15 identity this gives refund-minus-owed moving dollar for dollar).',
      'Trusted: sa/lineabs.py, sa/linform.py, sa/symmetry.py; frozen tables listing_lines.json, withholding_chain.json, symmetry_exceptions.json (one accepted asymmetry with reason). NOT decided and not claimed: "more wages never lower total tax" and "a larger deduction never raises it" (monotonicity through data-dependent switches); float re-association under renumbering.',
      'symmetry / taint / linear-coefficient rules over abstractly interpreted definitions', 'DESIGN.md §3 C16')
