"""The claim table behind MANIFEST.json (see mkmanifest.py)."""

NOT_BUILT = 'check not built yet in this round (design in DESIGN.md); listed here until its checker exists and is quiet on the unchanged tree'


def fill(claim, na):
    for pid in ['C%02d' % i for i in range(1, 21)]:
        na(pid, NOT_BUILT)
    del_na = []

    def c(pid, *a):
        claim(pid, *a)

    c('C17',
      'Decision procedure over an exhaustively enumerated finite set: every (year, form class, allowed instance) constructor is statically evaluated and every (threshold table, filing status) pair, every input/line name and every class attribute is checked against rules R17.1-R17.6. Exhaustive for the shipped catalogue; no sampling.',
      'Trusted: the static constructor evaluator sa/interp.py (fails closed on anything it does not model). Not decided: the exact text layout printed by list-forms/list-form-inputs (only the names/metadata it prints).',
      'static constructor evaluation (AST partial evaluator) + exhaustive table rules', 'DESIGN.md §3 C17')
