"""The claim table behind MANIFEST.json (see mkmanifest.py)."""

NOT_BUILT = 'check not built yet in this round (design in DESIGN.md); listed here until its checker exists and is quiet on the unchanged tree'


def fill(claim, na):
    for pid in ['C%02d' % i for i in range(1, 21)]:
        na(pid, NOT_BUILT)
    del_na = []

    def c(pid, *a):
        claim(pid, *a)

    c('C17',
      'Decision procedure over an exhaustively enumerated finite set: every (year, form class, allowed instance) constructor is statically evaluated and every (threshold table, filing status) pair, every input/line name and every class attribute is checked against rules R17.1-R17.6. Exhaustive for the shipped catalogue; no sampling.',
      'Trusted: the static constructor evaluator sa/interp.py (fails closed on anything it does not model). Not decided: the exact text layout printed by list-forms/list-form-inputs (only the names/metadata it prints).',
      'static constructor evaluation (AST partial evaluator) + exhaustive table rules', 'DESIGN.md §3 C17')

    c('C10',
      'Decision procedure over all syntactic paths: every line definition, PDF value function and needs_filing method of all three years (about 2 550 definitions, 4 900 paths) is abstractly interpreted with helpers and the core methods it calls inlined from source; every input/line/form/threshold/enum/attribute/callee reference on any path is resolved against the statically built same-year catalogue (rules R10.1-R10.9, incl. unbounded indices into fixed name blocks and s.form() availability). Exhaustive over the shipped definitions; independent of which inputs make a path execute.',
      'Trusted: sa/interp.py and sa/lineabs.py (fail closed: unmodelled constructs are listed as undecided or raise an analysis error; floors on the number of definitions, paths, reads and call sites). Assumes integer inputs used to build names are >= 0. Forms in sa/data/absent_forms.json (1040_s2, 1099-oid) are accepted as deliberately absent.',
      'abstract interpretation of line definitions (path enumeration, inlined helpers) + catalogue resolution', 'DESIGN.md §3 C10')

    c('C18',
      'Exhaustive table-versus-artifact agreement: all ~1 800 (form instance, mapping) pairs of the three years are compared with the field tree, kinds, export values, /MaxLen / maxChars, /Opt lists and XFA accessibility labels parsed from the 39 bundled PDF templates (stdlib PDF reader); exclusive check-box groups are decided by evaluating each mapping value function over the finite domain of its driving line; filing forms must have template, mappings and the sequence number the template prints.',
      'Trusted: sa/pdfx.py (object streams, AcroForm tree, XFA template packet) with floors on parsed fields/labels; eight label exceptions confirmed by reading are frozen in sa/data/label_exceptions.json, one per template field with a reason. Not decided: what pdftk does with the form data; NC filing-status boxes driven by five separate lines are not judged for exclusivity.',
      'cross-artifact agreement check (statically evaluated pdf_fields tables vs parsed PDF templates)', 'DESIGN.md §3 C18')

    c('C07',
      'Abstract interpretation of figure_tax over piecewise-affine functions of one real variable: for each year and each of the five filing statuses the function is folded into a partition of [0, 1e12] with exact rational pieces and compared, on the common refinement (every open piece and every break point, about 62 000 per run), with the statutory schedule built from an independent table of bracket edges; monotonicity, bounded step and QSS = MFJ are checked on the computed function; the three call sites per year must pass (line value, Form 1040 filing status) to the same year\'s function. All reals, not sampled incomes.',
      'Trusted: sa/pwaffine.py (exits 2 if figure_tax leaves the piecewise-affine subset) and the bracket edges typed into sa/data/tax_schedules.json from Rev. Proc. 2020-45/2021-45/2022-38 (cross-validated: they reproduce every cell of all three tax tables and every worksheet row). Not decided: float rounding of b*x-d (at most 1 ulp before the cent rounding).',
      'abstract interpretation (piecewise-affine domain) + exact comparison with a statutory oracle', 'DESIGN.md §3 C07')
