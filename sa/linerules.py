"""L1 (access discipline) and L2 (effect freedom) of line definitions, from the
events recorded by the abstract interpreter, plus a purity lint for the
module-level helpers of form packages (figure_tax ...)."""
import ast

from .lines import get_analysis
from .src import unparse

PURE_EXTERNAL = {'math.ceil', 'math.floor'}
PURE_BUILTINS = {'sum', 'min', 'max', 'float', 'int', 'str', 'len', 'round', 'range', 'list', 'abs', 'bool', 'tuple', 'sorted', 'any', 'all',
                 'isinstance', 'type', 'enumerate', 'zip', 'dict', 'set', 'reversed', 'divmod', 'frozenset', 'map', 'filter', 'pow'}


def l1_access(tree, rep):
    an = get_analysis(tree)
    n = 0
    for d in an.defs.values():
        n += 1
        bad = []
        for p in d.paths:
            for (kind, data, node, rel) in p.events:
                if kind == 'access':
                    bad.append((data, f'{rel}:{getattr(node, "lineno", 0)}'))
        rep.ob('L1', d.key, not bad,
               f'{d.key} uses the input/value accessor other than by subscripting: {bad[:2]} (a default, a membership test or an iteration hides a missing dependency from the solver)',
               bad[0][1] if bad else d.where)
    rep.floor('line definitions checked for L1', n, 2200)


def l2_effects(tree, rep):
    an = get_analysis(tree)
    n = 0
    for d in an.defs.values():
        n += 1
        bad = []
        for p in d.paths:
            for (kind, data, node, rel) in p.events:
                where = f'{rel}:{getattr(node, "lineno", 0)}'
                if kind == 'effect':
                    bad.append((data, where))
                elif kind == 'extcall' and data not in PURE_EXTERNAL:
                    bad.append((f'call of {data}', where))
                elif kind == 'try':
                    bad.append(('try statement', where))
        rep.ob('L2', d.key, not bad,
               f'{d.key} is not a pure function of what it reads: {bad[:2]}', bad[0][1] if bad else d.where)
    # module-level helpers of the form packages
    cat = an.cat
    helpers = 0
    # building an input / line / mapping object is not an effect: the classes of the core modules may be instantiated
    core_classes = set()
    for crel in ('habutax/inputs.py', 'habutax/fields.py', 'habutax/pdf_fields.py'):
        core_classes |= {c.name for c in ast.walk(tree.module(crel)) if isinstance(c, ast.ClassDef)}
    for y in cat.years:
        for rel in tree.form_modules(y):
            mod = tree.module(rel)
            for fn in [x for x in mod.body if isinstance(x, ast.FunctionDef)]:
                helpers += 1
                bad = []
                for x in ast.walk(fn):
                    if isinstance(x, (ast.Global, ast.Nonlocal)):
                        bad.append(f'{type(x).__name__.lower()} declaration')
                    if isinstance(x, (ast.Assign, ast.AugAssign)):
                        for t in (x.targets if isinstance(x, ast.Assign) else [x.target]):
                            if isinstance(t, (ast.Attribute, ast.Subscript)):
                                bad.append(f'store to {unparse(t, 40)}')
                    if isinstance(x, ast.Call):
                        f = x.func
                        nm = f.id if isinstance(f, ast.Name) else None
                        local_fns = {z.name for z in mod.body if isinstance(z, ast.FunctionDef)}
                        if nm is not None and nm not in PURE_BUILTINS and nm not in local_fns and nm not in core_classes:
                            bad.append(f'call of {nm}()')
                        if isinstance(f, ast.Attribute) and f.attr in ('append', 'extend', 'update', 'pop', 'clear', 'write', 'add'):
                            bad.append(f'mutating call .{f.attr}()')
                    if isinstance(x, (ast.Import, ast.ImportFrom, ast.Try, ast.With)):
                        bad.append(type(x).__name__)
                rep.ob('L2', f'{rel}:{fn.name}', not bad, f'module-level helper {fn.name}() of {rel} has effects: {bad[:3]}', f'{rel}:{fn.lineno}')
    rep.floor('line definitions checked for L2', n, 2200)
    rep.floor('module-level helpers checked for L2', helpers, 9)


ONE_SHOT = ('iter', 'map', 'filter', 'zip', 'enumerate', 'reversed', 'islice', 'chain', 'count', 'cycle')


def l2b_shared_iterators(tree, rep):
    """A line definition may be evaluated several times (it is re-attempted after every dependency it waited for) and
    aborted in the middle.  A one-shot iterator - a generator expression, iter(), map(), zip() ... - created once outside
    the definition and consumed inside it is state shared between those evaluations: a re-attempt continues where the
    aborted one stopped.  Rule: no name bound to a one-shot iterator at class-body, constructor or module level is used
    inside a nested lambda / def of a form module."""
    an = get_analysis(tree)
    n = 0
    for y in an.cat.years:
        for rel in tree.form_modules(y):
            mod = tree.module(rel)
            scopes = [mod] + [x for x in ast.walk(mod) if isinstance(x, (ast.FunctionDef, ast.ClassDef))]
            for sc in scopes:
                shots = {}
                for st in ast.walk(sc):
                    if not (isinstance(st, ast.Assign) and len(st.targets) == 1 and isinstance(st.targets[0], ast.Name)):
                        continue
                    owner = enclosing_scope(st)
                    if not (owner is sc or (isinstance(sc, ast.Module) and owner is None)):
                        continue          # bound in a nested scope: looked at when that scope is `sc`
                    v = st.value
                    fname = None
                    if isinstance(v, ast.Call):
                        fname = v.func.id if isinstance(v.func, ast.Name) else v.func.attr if isinstance(v.func, ast.Attribute) else None
                    if isinstance(v, ast.GeneratorExp) or fname in ONE_SHOT:
                        shots[st.targets[0].id] = st
                if not shots:
                    continue
                for inner in ast.walk(sc):
                    if inner is sc or not isinstance(inner, (ast.Lambda, ast.FunctionDef)):
                        continue
                    used = {x.id for x in ast.walk(inner) if isinstance(x, ast.Name) and isinstance(x.ctx, ast.Load)} & set(shots)
                    local = {a.arg for a in inner.args.args}
                    for nm in sorted(used - local):
                        n += 1
                        rep.ob('L2b', f'{rel}@{nm}', False,
                               f'{rel}: `{nm}` is a one-shot iterator created once ({unparse(shots[nm].value, 50)}) and consumed inside a line definition: '
                               f'an evaluation that is aborted and retried continues where the first one stopped, so the stored value is computed from a partial view', f'{rel}:{inner.lineno}')
    rep.ob('L2b', 'no-shared-one-shot-iterators', True)
    return n


def l2c_generators_consumed_once(tree, rep):
    """A generator expression bound to a name inside a definition can be walked once; a second sum()/any()/comprehension
    over the same name on the same path adds nothing, so the operands it was meant to contribute are silently missing
    from the line.  Decided per path by the abstract interpreter (two consumers on different branches are fine)."""
    an = get_analysis(tree)
    n = 0
    for d in list(an.defs.values()) + list(getattr(an, 'pdfs', [])):
        bad = []
        for p in d.paths:
            for (kind, data, node, rel) in p.events:
                if kind == 'exhausted':
                    bad.append((data, f'{rel}:{getattr(node, "lineno", 0)}'))
        n += 1
        if bad:
            rep.ob('L2c', d.key, False, f'{d.key}: {bad[0][0]} - the amounts it should have added are left out of the line', bad[0][1])
    rep.ob('L2c', 'no-generator-is-consumed-twice', True)
    rep.floor('definitions checked for twice-consumed generators', n, 2200)


def l3_lines_are_read_not_recomputed(tree, rep):
    """A definition that needs another line reads it (`v['11']`): it then gets the stored value - rounded to that line's
    places, the value the solution shows - and the solver knows about the dependency.  Calling the other line's
    definition function directly recomputes it unrounded and leaves the line undemanded: the product no longer equals
    "line 8 times line 11" of the same solution."""
    import ast as _ast
    from .formx import field_closure
    an = get_analysis(tree)
    owner = {}
    for d in an.defs.values():
        clo = field_closure(d.rec)
        node = getattr(clo, 'node', None)
        if isinstance(node, _ast.FunctionDef):
            owner.setdefault((d.year, getattr(clo, 'rel', None), node.lineno), []).append(d)
    n = 0
    for d in an.defs.values():
        n += 1
        bad = []
        for p in d.paths:
            for (kind, data, node, rel) in p.events:
                if kind != 'callnode':
                    continue
                crel, lineno, name = data
                for o in owner.get((d.year, crel, lineno), []):
                    if o.key != d.key and o.fr.name == d.fr.name:
                        bad.append((name, o.key, f'{rel}:{getattr(node, "lineno", 0)}'))
        if bad:
            rep.ob('L3', d.key, False,
                   f'{d.key} calls {bad[0][0]}(), the definition of line {bad[0][1]}, instead of reading that line: it works with the unrounded amount (not the one the solution shows '
                   'on that line) and the line is no longer demanded', bad[0][2])
    rep.ob('L3', 'no-definition-recomputes-another-line', True)
    rep.floor('definitions checked for recomputing another line', n, 2200)


def l4_no_demand_inside_assert(tree, rep):
    """`assert` statements are not compiled under `python -O` / PYTHONOPTIMIZE.  A line or input that a definition reads
    only inside an assert is demanded in one interpreter mode and not in the other: the forms and lines it pulls in (and
    the gate it may be) silently drop out of the solution.  Reads that also occur outside an assert on the same path are
    fine (the assert then only re-checks a value the definition uses anyway)."""
    import ast as _ast
    an = get_analysis(tree)
    n = 0

    def in_assert(node):
        p = node
        while p is not None:
            if isinstance(p, _ast.Assert):
                return True
            p = getattr(p, 'parent', None)
        return False
    for d in an.defs.values():
        n += 1
        bad = None
        for p in d.paths:
            inside, outside = {}, set()
            for r in p.reads:
                if r.atom is None:
                    continue
                if in_assert(r.node):
                    inside.setdefault(r.atom, r)
                else:
                    outside.add(r.atom)
            only = [r for a, r in inside.items() if a not in outside]
            if only:
                bad = only[0]
                break
        if bad is not None:
            rep.ob('L4', d.key, False,
                   f'{d.key} reads {bad.atom} only inside an assert statement: with assertions switched off (python -O) the line is not read, so what it demands is missing from the '
                   'solution although the solve succeeds', f'{bad.rel}:{getattr(bad.node, "lineno", 0)}')
    rep.ob('L4', 'no-read-lives-only-in-an-assert', True)
    rep.floor('definitions checked for reads inside assert', n, 2200)


def l5_widened_flags_read_through_their_line(tree, rep):
    """Where a form has a yes/no input X and a yes/no line X that can be true although the answer was "no" (the line adds what
    the program detects by itself: foreign tax on a 1099 means Schedule 3 part I is needed whatever was answered), every
    other definition consults the line.  Reading the raw answer instead misses exactly the detected cases: the amounts
    carried to the other lines then disagree with each other within one solution."""
    from .lineabs import E as _E
    an = get_analysis(tree)
    wid = {}
    for d in an.defs.values():
        nm = d.name
        if nm in d.fr.input_map() and d.rec.cls.name == 'BooleanField':
            atom = f'i:{d.fr.name}.{nm}'
            for p in d.paths:
                if p.outcome.kind == 'ret' and p.outcome.value is True and not any(
                        isinstance(c, _E) and c.op == 'i' and f'i:{c.args[0]}' == atom and pol is True for c, pol, _a, _b in p.guards):
                    wid[(d.year, atom)] = d
    n = 0
    for d in an.defs.values():
        for r in d.reads():
            w = wid.get((d.year, r.atom))
            if w is None or w is d:
                continue
            n += 1
            rep.ob('L5', f'{d.key}<-{r.atom}', False,
                   f'{d.key} reads the answer {r.atom} although line {w.key} widens it (that line is true also when the program detects the situation by itself): '
                   f'with the answer "no" and the situation detected, {d.key} behaves as if it did not exist while the lines that read {w.key} carry its amounts',
                   f'{r.rel}:{getattr(r.node, "lineno", 0)}')
    rep.ob('L5', 'widened-declarations-are-read-through-their-line', True)
    rep.floor('widened yes/no declarations', len(wid), 4)


def l6_iterated_sequences_are_not_edited(tree, rep):
    """`for x in items: ... items.remove(x)` skips the element that follows every removed one (the list shifts under the
    iterator), so which elements are looked at depends on their order: with the copies of a form in the list, renumbering
    the copies changes the result.  Rule: inside a `for` over a name, that name is not edited in place (remove, pop,
    insert, append, extend, del, slice assignment)."""
    import ast as _ast
    an = get_analysis(tree)
    n = 0
    rels = [rel for y in an.cat.years for rel in tree.form_modules(y)] + ['habutax/solver.py', 'habutax/form.py', 'habutax/inputs.py', 'habutax/values.py', 'habutax/pdf_filler.py', 'habutax/__init__.py']
    for rel in rels:
        mod = tree.module(rel)
        for loop in [x for x in _ast.walk(mod) if isinstance(x, _ast.For) and isinstance(x.iter, _ast.Name)]:
            n += 1
            name = loop.iter.id
            bad = None
            for x in _ast.walk(loop):
                if isinstance(x, _ast.Call) and isinstance(x.func, _ast.Attribute) and isinstance(x.func.value, _ast.Name) and x.func.value.id == name \
                        and x.func.attr in ('remove', 'pop', 'insert', 'append', 'extend', 'clear', 'sort', 'reverse'):
                    bad = x
                if isinstance(x, _ast.Delete) and any(isinstance(t_, _ast.Subscript) and isinstance(t_.value, _ast.Name) and t_.value.id == name for t_ in x.targets):
                    bad = x
                if isinstance(x, _ast.Assign) and any(isinstance(t_, _ast.Subscript) and isinstance(t_.slice, _ast.Slice) and isinstance(t_.value, _ast.Name) and t_.value.id == name for t_ in x.targets):
                    bad = x
            if bad is not None:
                rep.ob('L6', f'{rel}:{loop.lineno}@{name}', False,
                       f'{rel}: `{unparse(bad, 50)}` edits `{name}` inside the loop that iterates over it: the element after each removed (or before each inserted) one is skipped or seen twice, '
                       'so the outcome depends on the order of the elements - for numbered copies of a form, on their numbering', f'{rel}:{bad.lineno}')
    rep.ob('L6', 'no-sequence-is-edited-while-it-is-iterated', True)
    rep.floor('for loops over a named sequence checked', n, 10)


def enclosing_scope(node):
    p = getattr(node, 'parent', None)
    while p is not None and not isinstance(p, (ast.FunctionDef, ast.Lambda, ast.ClassDef)):
        p = getattr(p, 'parent', None)
    return p


def lines_with_try(tree):
    an = get_analysis(tree)
    out = []
    for d in an.all_defs():
        for p in d.paths:
            for (kind, data, node, rel) in p.events:
                if kind == 'try':
                    out.append(f'{d.key} at {rel}:{getattr(node, "lineno", 0)}')
    # syntactic sweep too (a try on a path the interpreter cut short would otherwise be missed)
    for y in an.cat.years:
        for rel in tree.form_modules(y):
            for x in ast.walk(tree.module(rel)):
                if isinstance(x, ast.Try):
                    out.append(f'{rel}:{x.lineno}')
    return sorted(set(out))


def l7_signals_are_called(tree, rep):
    """`self.not_implemented` without the call parentheses is an expression statement that does nothing: the branch that was
    meant to refuse falls through and the line answers as if the situation were supported.  Every bare expression statement
    in a form module that merely names an attribute or a variable (no call, no subscript read that demands a line) is
    reported; a subscript read such as `v['7a']` standing alone IS a demand and is left alone."""
    import ast as _ast
    n = 0
    for rel in sorted(r for y in tree.years() for r in tree.form_modules(y)):
        mod = tree.module(rel)
        for st in _ast.walk(mod):
            if isinstance(st, _ast.Expr):
                n += 1
                v = st.value
                if isinstance(v, _ast.Attribute) or (isinstance(v, _ast.Name) and v.id not in ('Ellipsis',)):
                    what = _ast.unparse(v)
                    rep.ob('L7', f'{rel}:{st.lineno}@{what}', False,
                           f'`{what}` stands alone as a statement: it names a method or value without calling or using it, so nothing happens - if it was meant to refuse '
                           '(not_implemented) the definition answers for a situation it does not support, and the solve can succeed', f'{rel}:{st.lineno}')
    rep.ob('L7', 'no-statement-merely-names-a-method', True)
    rep.floor('expression statements of the form modules looked at', n, 100)
    return n
