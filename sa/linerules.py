"""L1 (access discipline) and L2 (effect freedom) of line definitions, from the
events recorded by the abstract interpreter, plus a purity lint for the
module-level helpers of form packages (figure_tax ...)."""
import ast

from .lines import get_analysis
from .src import unparse

PURE_EXTERNAL = {'math.ceil', 'math.floor'}
PURE_BUILTINS = {'sum', 'min', 'max', 'float', 'int', 'str', 'len', 'round', 'range', 'list', 'abs', 'bool', 'tuple', 'sorted', 'any', 'all',
                 'isinstance', 'type', 'enumerate', 'zip', 'dict', 'set'}


def l1_access(tree, rep):
    an = get_analysis(tree)
    n = 0
    for d in an.defs.values():
        n += 1
        bad = []
        for p in d.paths:
            for (kind, data, node, rel) in p.events:
                if kind == 'access':
                    bad.append((data, f'{rel}:{getattr(node, "lineno", 0)}'))
        rep.ob('L1', d.key, not bad,
               f'{d.key} uses the input/value accessor other than by subscripting: {bad[:2]} (a default, a membership test or an iteration hides a missing dependency from the solver)',
               bad[0][1] if bad else d.where)
    rep.floor('line definitions checked for L1', n, 2200)


def l2_effects(tree, rep):
    an = get_analysis(tree)
    n = 0
    for d in an.defs.values():
        n += 1
        bad = []
        for p in d.paths:
            for (kind, data, node, rel) in p.events:
                where = f'{rel}:{getattr(node, "lineno", 0)}'
                if kind == 'effect':
                    bad.append((data, where))
                elif kind == 'extcall' and data not in PURE_EXTERNAL:
                    bad.append((f'call of {data}', where))
                elif kind == 'try':
                    bad.append(('try statement', where))
        rep.ob('L2', d.key, not bad,
               f'{d.key} is not a pure function of what it reads: {bad[:2]}', bad[0][1] if bad else d.where)
    # module-level helpers of the form packages
    cat = an.cat
    helpers = 0
    for y in cat.years:
        for rel in tree.form_modules(y):
            mod = tree.module(rel)
            for fn in [x for x in mod.body if isinstance(x, ast.FunctionDef)]:
                helpers += 1
                bad = []
                for x in ast.walk(fn):
                    if isinstance(x, (ast.Global, ast.Nonlocal)):
                        bad.append(f'{type(x).__name__.lower()} declaration')
                    if isinstance(x, (ast.Assign, ast.AugAssign)):
                        for t in (x.targets if isinstance(x, ast.Assign) else [x.target]):
                            if isinstance(t, (ast.Attribute, ast.Subscript)):
                                bad.append(f'store to {unparse(t, 40)}')
                    if isinstance(x, ast.Call):
                        f = x.func
                        nm = f.id if isinstance(f, ast.Name) else None
                        local_fns = {z.name for z in mod.body if isinstance(z, ast.FunctionDef)}
                        if nm is not None and nm not in PURE_BUILTINS and nm not in local_fns:
                            bad.append(f'call of {nm}()')
                        if isinstance(f, ast.Attribute) and f.attr in ('append', 'extend', 'update', 'pop', 'clear', 'write', 'add'):
                            bad.append(f'mutating call .{f.attr}()')
                    if isinstance(x, (ast.Import, ast.ImportFrom, ast.Try, ast.With)):
                        bad.append(type(x).__name__)
                rep.ob('L2', f'{rel}:{fn.name}', not bad, f'module-level helper {fn.name}() of {rel} has effects: {bad[:3]}', f'{rel}:{fn.lineno}')
    rep.floor('line definitions checked for L2', n, 2200)
    rep.floor('module-level helpers checked for L2', helpers, 9)


def lines_with_try(tree):
    an = get_analysis(tree)
    out = []
    for d in an.all_defs():
        for p in d.paths:
            for (kind, data, node, rel) in p.events:
                if kind == 'try':
                    out.append(f'{d.key} at {rel}:{getattr(node, "lineno", 0)}')
    # syntactic sweep too (a try on a path the interpreter cut short would otherwise be missed)
    for y in an.cat.years:
        for rel in tree.form_modules(y):
            for x in ast.walk(tree.module(rel)):
                if isinstance(x, ast.Try):
                    out.append(f'{rel}:{x.lineno}')
    return sorted(set(out))
