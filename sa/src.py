"""E1 source model: a read-only view of the repository (with in-memory overlays
for the self-test), parsed modules, and the class table of the core modules.

Nothing here imports or executes habutax code."""
import ast
import os
import warnings

REPO = os.environ.get('HABUTAX_REPO', '/repo')


class AnalysisError(Exception):
    """The analyser cannot do its job (exit 2, never a VIOLATION)."""


class Tree:
    """path -> text provider rooted at the repository; `overlay` maps a
    repo-relative path to replacement text (None = deleted)."""

    def __init__(self, root=None, overlay=None):
        self.root = root or REPO
        self.overlay = dict(overlay or {})
        self._mods = {}
        self._bytes = {}

    def with_overlay(self, overlay):
        o = dict(self.overlay)
        o.update(overlay)
        return Tree(self.root, o)

    def abspath(self, rel):
        return os.path.join(self.root, rel)

    def exists(self, rel):
        if rel in self.overlay:
            return self.overlay[rel] is not None
        return os.path.isfile(self.abspath(rel))

    def read(self, rel):
        if rel in self.overlay:
            if self.overlay[rel] is None:
                raise AnalysisError(f'file removed: {rel}')
            return self.overlay[rel]
        try:
            with open(self.abspath(rel), encoding='utf-8') as f:
                return f.read()
        except OSError as e:
            raise AnalysisError(f'cannot read {rel}: {e}')

    def read_bytes(self, rel):
        if rel not in self._bytes:
            try:
                with open(self.abspath(rel), 'rb') as f:
                    self._bytes[rel] = f.read()
            except OSError as e:
                raise AnalysisError(f'cannot read {rel}: {e}')
        return self._bytes[rel]

    def listdir(self, rel):
        names = set()
        p = self.abspath(rel)
        if os.path.isdir(p):
            names.update(os.listdir(p))
        pre = rel.rstrip('/') + '/'
        for k, v in self.overlay.items():
            if k.startswith(pre) and '/' not in k[len(pre):]:
                if v is None:
                    names.discard(k[len(pre):])
                else:
                    names.add(k[len(pre):])
        return sorted(names)

    def module(self, rel):
        """Parsed module (ast.Module with .relpath and parent links)."""
        if rel not in self._mods:
            text = self.read(rel)
            with warnings.catch_warnings():
                warnings.simplefilter('ignore')
                try:
                    mod = ast.parse(text, filename=rel)
                except SyntaxError as e:
                    raise AnalysisError(f'{rel} does not parse: {e}')
            mod.relpath = rel
            mod.text = text
            for parent in ast.walk(mod):
                for child in ast.iter_child_nodes(parent):
                    child.parent = parent
            self._mods[rel] = mod
        return self._mods[rel]

    # -- package helpers -------------------------------------------------
    def modname_to_rel(self, modname):
        """'habutax.forms.ty2023.f1040' -> repo-relative file or None."""
        base = modname.replace('.', '/')
        for cand in (base + '.py', base + '/__init__.py'):
            if self.exists(cand):
                return cand
        return None

    def years(self):
        ys = []
        for n in self.listdir('habutax/forms'):
            if n.startswith('ty') and n[2:].isdigit() and self.exists(f'habutax/forms/{n}/__init__.py'):
                ys.append(int(n[2:]))
        return sorted(ys)

    def core_modules(self):
        return [f'habutax/{n}' for n in self.listdir('habutax') if n.endswith('.py')]

    def form_modules(self, year):
        d = f'habutax/forms/ty{year}'
        return [f'{d}/{n}' for n in self.listdir(d) if n.endswith('.py')]


def loc(mod_or_rel, node):
    rel = mod_or_rel if isinstance(mod_or_rel, str) else mod_or_rel.relpath
    return f'{rel}:{getattr(node, "lineno", 0)}'


def unparse(node, limit=160):
    try:
        s = ast.unparse(node)
    except Exception:
        s = f'<{type(node).__name__}>'
    s = ' '.join(s.split())
    return s if len(s) <= limit else s[:limit - 3] + '...'


def enclosing_function(node):
    n = getattr(node, 'parent', None)
    while n is not None and not isinstance(n, (ast.FunctionDef, ast.Lambda, ast.AsyncFunctionDef)):
        n = getattr(n, 'parent', None)
    return n


def enclosing_class(node):
    n = getattr(node, 'parent', None)
    while n is not None and not isinstance(n, ast.ClassDef):
        n = getattr(n, 'parent', None)
    return n


class ClassInfo:
    def __init__(self, name, node, rel):
        self.name = name
        self.node = node
        self.rel = rel
        self.bases = [unparse(b) for b in node.bases]
        self.methods = {n.name: n for n in node.body if isinstance(n, ast.FunctionDef)}
        self.attrs = {}
        for n in node.body:
            if isinstance(n, ast.Assign):
                for t in n.targets:
                    if isinstance(t, ast.Name):
                        self.attrs[t.id] = n.value


class ClassTable:
    """Classes of a set of modules, with MRO-style method lookup by simple
    base-name resolution (the core uses single inheritance and unique names)."""

    def __init__(self, tree, rels):
        self.classes = {}
        for rel in rels:
            mod = tree.module(rel)
            for n in mod.body:
                if isinstance(n, ast.ClassDef):
                    self.classes[n.name] = ClassInfo(n.name, n, rel)

    def mro(self, name):
        out = []
        seen = set()
        todo = [name]
        while todo:
            c = todo.pop(0)
            if c in seen or c not in self.classes:
                continue
            seen.add(c)
            out.append(self.classes[c])
            todo.extend(b.split('.')[-1] for b in self.classes[c].bases)
        return out

    def is_subclass(self, name, base):
        return any(c.name == base for c in self.mro(name))

    def find_method(self, name, meth):
        for c in self.mro(name):
            if meth in c.methods:
                return c, c.methods[meth]
        return None, None

    def has_attr(self, name, attr):
        """method, class attribute, or instance attribute assigned as self.x in
        any method of the class or its bases."""
        for c in self.mro(name):
            if attr in c.methods or attr in c.attrs:
                return True
            for m in c.methods.values():
                for n in ast.walk(m):
                    if isinstance(n, ast.Attribute) and isinstance(n.ctx, ast.Store) \
                            and isinstance(n.value, ast.Name) and n.value.id == 'self' and n.attr == attr:
                        return True
        return False
