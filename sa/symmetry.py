"""Sibling symmetry: a definition that treats "you" and "spouse" (taxpayer /
spouse copies of inputs, lines and forms) in parallel must be invariant under
exchanging the two - the set of its paths (guards and results, order-free) maps
onto itself.  A stale name left after copying one block into the other breaks
the invariance."""
import re

from .lineabs import E
from .linform import lin_of, NonLinear, Lin

TOK = [(r'_you\b', '_spouse'), (r':you\.', ':spouse.'), (r'(Spouse|Both)\.taxpayer\b', r'\1.spouse'), (r'\byou_', 'spouse_')]


def swap(s):
    # two-phase replacement through placeholders
    s = re.sub(r'_you\b', '\x01', s)
    s = re.sub(r'_spouse\b', '\x02', s)
    s = re.sub(r':you\.', '\x03', s)
    s = re.sub(r':spouse\.', '\x04', s)
    s = re.sub(r'(Spouse|Both)\.taxpayer\b', lambda m: m.group(1) + '\x05', s)
    s = re.sub(r'(Spouse|Both)\.spouse\b', lambda m: m.group(1) + '\x06', s)
    return (s.replace('\x01', '_spouse').replace('\x02', '_you').replace('\x03', ':spouse.').replace('\x04', ':you.')
            .replace('\x05', '.spouse').replace('\x06', '.taxpayer'))


def swap_str(t):
    return swap(t)


def swap_val(v):
    """structure-level exchange of you <-> spouse in a value / expression"""
    from .interp import EnumMember
    if isinstance(v, E):
        args = []
        for a in v.args:
            if isinstance(a, str) and v.op in ('i', 'v', 'idx', 'fstr', 'call'):
                args.append(swap(a))
            else:
                args.append(swap_val(a))
        return E(v.op, *args, ty=v.ty, meta=v.meta)
    if isinstance(v, EnumMember):
        other = {'taxpayer': 'spouse', 'spouse': 'taxpayer'}.get(v.name)
        if other and other in v.enum.members:
            return v.enum.member(other)
        return v
    if isinstance(v, tuple):
        return tuple(swap_val(x) for x in v)
    if isinstance(v, list):
        return [swap_val(x) for x in v]
    if isinstance(v, str):
        return swap(v)
    return v


def canon_term(t):
    k = t[0]
    if k == 'a':
        return t[1]
    if k == 'max0':
        return 'max0(' + canon_frozen(t[1]) + ')'
    if k in ('min', 'max'):
        return k + '(' + ', '.join(sorted(canon_frozen(x) for x in t[1])) + ')'
    if k == 'prod':
        return 'prod(' + ', '.join(sorted(canon_term(x) if x[0] != 'lin' else canon_frozen(x[1]) for x in t[1])) + ')'
    if k == 'sumn':
        return f'sum[{t[1]}](' + canon_frozen(t[2]) + ')'
    if k == 'div':
        return 'div(' + canon_frozen(t[1][0]) + ', ' + canon_frozen(t[1][1]) + ')'
    if k == 'int':
        return 'int(' + canon_frozen(t[1]) + ')'
    return f'{k}<{t[1]}>'


def canon_frozen(f):
    const, terms = f
    parts = sorted((f'{c}*' if c != 1 else '') + canon_term(t) for t, c in terms)
    if const != 0 or not parts:
        parts.append(str(const))
    return ' + '.join(parts)


def norm_value(v):
    if isinstance(v, (tuple, list)):
        return '(' + ', '.join(norm_value(x) for x in v) + ')'
    if isinstance(v, E) or (isinstance(v, (int, float)) and not isinstance(v, bool)):
        try:
            return canon_frozen(lin_of(v).freeze())
        except NonLinear:
            return v.key() if isinstance(v, E) else repr(v)
    return repr(v)


def norm_cond(c, pol):
    if isinstance(c, E) and c.op == 'lt':
        try:
            return f'{"" if pol else "not "}0<[{canon_frozen(lin_of(c.args[1]).add(lin_of(c.args[0]), -1).freeze())}]'
        except NonLinear:
            pass
    if isinstance(c, E) and c.op == 'eq':
        return f'{"" if pol else "not "}eq{{{", ".join(sorted(norm_value(a) for a in c.args))}}}'
    return f'{"" if pol else "not "}{c.key() if isinstance(c, E) else c!r}'


def signature(p, swapped=False):
    f = swap_val if swapped else (lambda x: x)
    g = frozenset(norm_cond(f(c), pol) for (c, pol, _n, _r) in p.guards)
    o = p.outcome
    out = norm_value(f(o.value)) if o.kind == 'ret' else f'raise {o.exc}'
    return ' & '.join(sorted(g)) + ' => ' + out


NAME_PAIRS = [('1040.first_name', '1040.spouse_first_name'), ('1040.last_name', '1040.spouse_last_name'), ('1040.middle_initial', '1040.spouse_middle_initial'),
              ('1040.occupation', '1040.spouse_occupation')]


def swap_atom(a):
    """i:/v: atom text with the taxpayer and spouse roles exchanged"""
    kind, _, rest = a.partition(':')
    for x, y in NAME_PAIRS:
        if rest == x:
            return f'{kind}:{y}'
        if rest == y:
            return f'{kind}:{x}'
    t = swap(rest)
    t = re.sub(r'\.you_(\w+)$', lambda m: '.\x07' + m.group(1), t)
    t = re.sub(r'\.spouse_(\w+)$', lambda m: '.you_' + m.group(1), t)
    t = t.replace('.\x07', '.spouse_')
    return f'{kind}:{t}'


def person_atoms(d):
    """atoms read by the definition that name the taxpayer or the spouse"""
    out = set()
    for r in d.reads():
        a = r.atom
        if a is None:
            continue
        if swap_atom(a) != a:
            out.add(a)
    return out


def atom_symmetry(d, other=None):
    """-> None (not applicable) | (ok, unmatched atoms)
    single definition: the set of person-specific atoms is closed under the exchange;
    per-person instances: the `you` copy maps onto the `spouse` copy"""
    mine = person_atoms(d)
    if other is None:
        if not mine:
            return None
        sw = {swap_atom(a) for a in mine}
        missing = sorted(sw - mine)
        # a definition that only ever concerns one person is not a parallel treatment
        if not (mine & sw):
            return None
        return (not missing), missing
    theirs = person_atoms(other)
    sw = {swap_atom(a) for a in mine}
    if not mine and not theirs:
        return None
    missing = sorted(sw ^ theirs)
    return (not missing), missing
