"""E7: obligations, verdicts, evidence files, replay files, known findings."""
import hashlib
import json
import os
import sys
import time

VERIF = os.path.dirname(os.path.dirname(os.path.abspath(__file__)))
KNOWN = os.path.join(VERIF, 'known_findings.json')


def load_known():
    try:
        with open(KNOWN) as f:
            return json.load(f)
    except FileNotFoundError:
        return []


class Report:
    def __init__(self, pid, tier='quick', seed=0, level='other'):
        self.pid = pid
        self.tier = tier
        self.seed = seed
        self.level = level
        self.t0 = time.time()
        self.obligations = 0
        self.discharged = 0
        self.distinct = set()
        self.violations = []       # dicts
        self.known_hits = []
        self.samples = []
        self.rules = {}            # rule -> [n_obligations, n_ok]
        self.analysed = {}
        self.undecided = []
        self.notes = []
        self.assumptions = []
        self.explanation = ''
        self.rule_text = ''
        self.exhaustive = False
        self.errors = []
        self.extra = {}
        self._known = [k for k in load_known() if k.get('property') == pid]

    # an obligation: one rule instance examined on one construct
    def ob(self, rule, key, ok, msg='', where='', sample=None):
        self.obligations += 1
        r = self.rules.setdefault(rule, [0, 0])
        r[0] += 1
        self.distinct.add((rule, key))
        if ok:
            self.discharged += 1
            r[1] += 1
            if sample is not None or (len(self.samples) < 400 and r[0] <= 3):
                self.samples.append({'rule': rule, 'key': key, 'where': where, 'ok': True,
                                     'detail': sample if sample is not None else msg})
            return True
        self.fail(rule, key, msg, where)
        return False

    def fail(self, rule, key, msg, where=''):
        v = {'property': self.pid, 'rule': rule, 'key': key, 'message': msg, 'where': where}
        for k in self._known:
            if k.get('status') == 'known' and k.get('rule') == rule and k.get('key') == key:
                if not any(h['rule'] == rule and h['key'] == key for h in self.known_hits):
                    self.known_hits.append(v)
                return
        if not any(x['rule'] == rule and x['key'] == key for x in self.violations):
            self.violations.append(v)

    def count(self, name, n):
        self.analysed[name] = n

    def floor(self, name, n, minimum):
        """A rule matching too few sites passes vacuously: below the floor the
        run is an analysis error, not a pass."""
        self.analysed[name] = n
        if n < minimum:
            self.errors.append(f'{name}: analysed {n} < floor {minimum} (anchor vanished or extractor lost sites)')

    def error(self, msg):
        self.errors.append(msg)

    def undecide(self, what):
        self.undecided.append(what)

    def finish(self):
        wall = time.time() - self.t0
        os.makedirs(os.path.join(VERIF, 'evidence'), exist_ok=True)
        replay_paths = []
        if self.violations:
            d = os.path.join(VERIF, 'replay', self.pid)
            os.makedirs(d, exist_ok=True)
            for v in self.violations:
                h = hashlib.sha1(f"{v['rule']}|{v['key']}".encode()).hexdigest()[:12]
                p = os.path.join(d, f'{h}.json')
                with open(p, 'w') as f:
                    json.dump(v, f, indent=1)
                replay_paths.append(p)
        cov = {
            'explanation': self.explanation,
            'rule': self.rule_text,
            'obligations': self.obligations,
            'discharged': self.discharged,
            'evaluations': max(self.obligations, 1),
            'distinct_nontrivial': len(self.distinct),
            'samples': self.samples[:40] or [{'note': 'no obligation produced'}],
            'exhaustive': self.exhaustive,
            'per_rule': {k: {'obligations': v[0], 'ok': v[1]} for k, v in sorted(self.rules.items())},
            'analysed': self.analysed,
            'undecided': self.undecided[:200],
            'undecided_count': len(self.undecided),
            'known_findings_matched': self.known_hits,
            'violations_detail': self.violations[:100],
            'notes': self.notes[:200],
            'analysis_errors': self.errors,
        }
        cov.update(self.extra)
        ev = {
            'property_id': self.pid,
            'tier': self.tier,
            'seed': self.seed,
            'level': self.level,
            'coverage': cov,
            'assumptions': self.assumptions,
            'wall_s': round(wall, 3),
            'violations': len(self.violations),
        }
        if not os.environ.get('VERIF_NO_EVIDENCE'):
            with open(os.path.join(VERIF, 'evidence', f'{self.pid}.json'), 'w') as f:
                json.dump(ev, f, indent=1, default=str)
        print(f'[{self.pid}] tier={self.tier} obligations={self.obligations} discharged={self.discharged} '
              f'distinct={len(self.distinct)} violations={len(self.violations)} known={len(self.known_hits)} '
              f'undecided={len(self.undecided)} wall={wall:.2f}s')
        for k, v in sorted(self.rules.items()):
            print(f'  rule {k}: {v[1]}/{v[0]} ok')
        for k, v in sorted(self.analysed.items()):
            print(f'  analysed {k}: {v}')
        for h in self.known_hits:
            print(f"KNOWN-FINDING: property={self.pid} {h['rule']} {h['key']} — {h['message']} ({h['where']})")
        # a specific violation outranks "part of the analysis could not be done": both are printed, the exit code is 1
        for e in self.errors:
            print(f'ANALYSIS-ERROR property={self.pid} {e}')
        if self.violations:
            for v, p in zip(self.violations, replay_paths):
                print(f"  {v['rule']} {v['key']}: {v['message']} ({v['where']})")
                print(f'VIOLATION property={self.pid} replay={p}')
            return 1
        if self.errors:
            return 2
        return 0
