"""Static result types of the symbolic values produced by lineabs: the set of
Python types a returned expression can have at run time ('float', 'int', 'bool',
'str', 'none', 'enum', ...; None in the set = unknown).  Mirrors Python's numeric
promotion: int op float -> float, sum([]) of floats -> int 0 when the list can be
empty, min/max return one of their operands unchanged."""
from .lineabs import E, EnumMember

NUM = {'int', 'float', 'bool'}
UNKNOWN = None


def const_type(v):
    if v is None:
        return 'none'
    if isinstance(v, bool):
        return 'bool'
    if isinstance(v, int):
        return 'int'
    if isinstance(v, float):
        return 'float'
    if isinstance(v, str):
        return 'str'
    if isinstance(v, EnumMember):
        return 'enum'
    if isinstance(v, (list, tuple)):
        return 'list'
    return UNKNOWN


def _arith(ta, tb):
    out = set()
    for a in ta:
        for b in tb:
            if a is UNKNOWN or b is UNKNOWN:
                out.add(UNKNOWN)
            elif a == 'float' and b in NUM or b == 'float' and a in NUM:
                out.add('float')
            elif a in ('int', 'bool') and b in ('int', 'bool'):
                out.add('int')
            elif a == 'str' and b == 'str':
                out.add('str')
            else:
                out.add(UNKNOWN)
    return out


def types_of(e, nonempty=frozenset()):
    """-> set of possible run-time types of the value"""
    if not isinstance(e, E):
        return {const_type(e)}
    op = e.op
    if op in ('i', 'v'):
        return {e.ty if e.ty in ('float', 'int', 'bool', 'str', 'enum') else UNKNOWN}
    if op in ('add', 'sub', 'mul', 'floordiv', 'mod', 'pow'):
        return _arith(types_of(e.args[0], nonempty), types_of(e.args[1], nonempty))
    if op == 'div':
        ts = types_of(e.args[0], nonempty) | types_of(e.args[1], nonempty)
        return {'float'} if ts <= NUM else {UNKNOWN}
    if op == 'neg':
        return {('int' if t == 'bool' else t) for t in types_of(e.args[0], nonempty)}
    if op in ('min', 'max'):
        out = set()
        for a in e.args:
            out |= types_of(a, nonempty)
        return out
    if op == 'sumn':
        body = types_of(e.args[2], nonempty)
        out = {('int' if t == 'bool' else t) for t in body}
        cnt = e.args[0]
        key = cnt.key() if isinstance(cnt, E) else repr(cnt)
        if key not in nonempty and not (isinstance(cnt, int) and cnt > 0):
            out.add('int')          # sum([]) == 0
        return out
    if op == 'countif':
        return {'int'}
    if op in ('ite',):
        return types_of(e.args[1], nonempty) | types_of(e.args[2], nonempty)
    if op == 'loopval':
        return types_of(e.args[1], nonempty) | types_of(e.args[2], nonempty)
    if op in ('lt', 'le', 'gt', 'ge', 'eq', 'ne', 'not', 'in', 'notin', 'is', 'isnot', 'exists_n', 'forall_n'):
        return {'bool'}
    if op in ('fstr', 'format'):
        return {'str'}
    if op == 'call':
        name = e.args[0]
        if name == 'float':
            return {'float'}
        if name in ('int', 'ceil', 'floor', 'len'):
            return {'int'}
        if name == 'bool':
            return {'bool'}
        if name == 'str' or (isinstance(name, str) and name.startswith('str.') and e.ty == 'str'):
            return {'str'}
        if name == 'round':
            if len(e.args) == 2:
                return {'int'}
            return {('int' if t == 'bool' else t) for t in types_of(e.args[1], nonempty)}
        if name == 'abs':
            return {('int' if t == 'bool' else t) for t in types_of(e.args[1], nonempty)}
        if e.ty in ('float', 'int', 'bool', 'str'):
            return {e.ty}
        return {UNKNOWN}
    if op == 'enumlookup':
        return {'enum'}
    return {UNKNOWN}


def nonempty_counts(guards):
    """count expressions known to be > 0 on the path: guards (0 < n) true, (n < 1) false, (n == 0) false ..."""
    out = set()
    for g in guards:
        c, pol = g[0], g[1]
        if not isinstance(c, E):
            continue
        if c.op == 'lt' and len(c.args) == 2:
            a, b = c.args
            if pol and isinstance(a, (int, float)) and not isinstance(a, bool) and a >= 0 and isinstance(b, E):
                out.add(b.key())
            if not pol and isinstance(b, (int, float)) and not isinstance(b, bool) and b <= 1 and isinstance(a, E):
                out.add(a.key())          # not (n < 1)
        if c.op == 'eq' and len(c.args) == 2 and not pol:
            a, b = c.args
            if b == 0 and isinstance(a, E):
                out.add(a.key())
            if a == 0 and isinstance(b, E):
                out.add(b.key())
        if c.op in ('i', 'v') and pol and c.ty == 'int':
            out.add(c.key())              # truthiness of a count
    return out


# ---- feasibility of the "all sums empty" case

def _fold(e, counts):
    """value of e when every per-copy sum whose count is in `counts` is empty (count = 0)"""
    if not isinstance(e, E):
        return e
    if e.key() in counts:
        return 0
    if e.op in ('sumn', 'countif') and isinstance(e.args[0], E) and e.args[0].key() in counts:
        return 0
    if e.op in ('exists_n', 'forall_n'):
        idx = e.args[0]
        cnt = idx.args[1] if isinstance(idx, E) and len(idx.args) > 1 else None
        if isinstance(cnt, E) and cnt.key() in counts:
            return e.op == 'forall_n'
    if e.op in ('i', 'v', 'idx'):
        return e
    args = [_fold(a, counts) for a in e.args]
    conc = all(not isinstance(a, E) for a in args)
    if conc and all(isinstance(a, (int, float)) for a in args):
        try:
            if e.op == 'add':
                return args[0] + args[1]
            if e.op == 'sub':
                return args[0] - args[1]
            if e.op == 'mul':
                return args[0] * args[1]
            if e.op == 'lt':
                return args[0] < args[1]
            if e.op == 'le':
                return args[0] <= args[1]
            if e.op == 'gt':
                return args[0] > args[1]
            if e.op == 'ge':
                return args[0] >= args[1]
            if e.op == 'eq':
                return args[0] == args[1]
            if e.op == 'ne':
                return args[0] != args[1]
            if e.op == 'neg':
                return -args[0]
            if e.op == 'not':
                return not args[0]
            if e.op == 'min':
                return min(args)
            if e.op == 'max':
                return max(args)
        except Exception:
            pass
    if e.op == 'call' and len(args) == 2 and args[0] in ('float', 'round', 'int', 'abs') and isinstance(args[1], (int, float)):
        return {'float': float, 'round': round, 'int': int, 'abs': abs}[args[0]](args[1])
    return E(e.op, *args, ty=e.ty, meta=e.meta)


def _float_sum_counts(e, out):
    if not isinstance(e, E):
        return
    if e.op == 'sumn':
        if 'float' in types_of(e.args[2]) and isinstance(e.args[0], E):
            out.add(e.args[0].key())
        return
    for a in e.args:
        _float_sum_counts(a, out)


def empty_case_feasible(value, guards):
    """can the path be taken with every per-copy float sum of `value` empty?  False only when the
    guards are contradictory under that assumption (constant folding + exact linear infeasibility)"""
    from .relational import Prover, fm_infeasible
    counts = set()
    _float_sum_counts(value, counts)
    if not counts:
        return True
    pr = Prover({}, set(), frozenset())
    pr.names = {}
    pr.order = []
    pr.form_prefix = None
    st = {'todo': [], 'active': set(), 'unfolded': set(), 'cross': 0}
    cons = []
    for g in guards:
        c = _fold(g[0], counts)
        pol = g[1]
        if isinstance(c, bool) or (isinstance(c, (int, float)) and not isinstance(c, E)):
            if bool(c) != bool(pol):
                return False
            continue
        if isinstance(c, E) and c.op in ('i', 'v') and c.ty == 'int':
            c = E('lt', 0, c, ty='bool')          # truthiness of a count
        k = pr.guard_con(c, pol, st)
        if k is not None:
            cons.append(k)
    if st['todo']:
        return True          # structured terms left: not decided here
    return not fm_infeasible(cons + pr.sign_facts(cons))
