"""E5b: protocol rules K1..K23 over the core modules (DESIGN.md §3).  Each rule
function takes (core, rep) and emits obligations; a vanished anchor raises
AnalysisError (exit 2), never a pass."""
import ast

from .cfg import CFG, implied, norm_atom
from .core import attr_text, self_attr, calls_in, call_name, stmt_of, get_core
from .src import AnalysisError, unparse, enclosing_function, enclosing_class

SIGNALS = ('UnmetDependency', 'MissingInput', 'MissingInputSpecification', 'FieldNotImplemented')


def _w(f, node=None):
    return f.where(node)


def _const(e, v):
    return isinstance(e, ast.Constant) and e.value is v


def _strict(e):
    return isinstance(e, ast.Constant) and (e.value is None or e.value == 'strict')


# ---------------------------------------------------------------- K1
def k1_success_condition(core, rep):
    s = core.solver
    f = s.solve
    g = f.cfg
    # every return of solve returns the solved flag
    for r in [n for n in ast.walk(f.node) if isinstance(n, ast.Return) and enclosing_function(n) is f.node]:
        rep.ob('K1', f'solve/return@{unparse(r, 60)}', r.value is not None and self_attr(r.value) == s.solved,
               f'{f.qual} returns {unparse(r.value) if r.value else None} instead of the solved flag self.{s.solved}', _w(f, r))
    # writers of the solved flag
    need = {(f'self.{s.field_tracker}.has_unmet()', False), (f'self.{s.input_tracker}.has_unmet()', False)}
    empties = {(f'EMPTY(self.{s.unimplemented})', True), (f'NONEMPTY(self.{s.unimplemented})', False), (f'self.{s.unimplemented}', False)}
    n_true = 0
    for rel, n in core.all_nodes((ast.Assign, ast.AugAssign, ast.AnnAssign)):
        targets = n.targets if isinstance(n, ast.Assign) else [n.target]
        for t in targets:
            if isinstance(t, ast.Attribute) and t.attr == s.solved:
                fn = enclosing_function(n)
                cls = enclosing_class(n)
                inside = cls is not None and cls.name == s.name and rel == s.rel
                key = f'{rel}:{fn.name if fn else "<module>"}@{unparse(n, 60)}'
                if not rep.ob('K1', 'writer-inside-solver/' + key, inside, f'the solved flag is written outside the solver class: {unparse(n)}', f'{rel}:{n.lineno}'):
                    continue
                val = n.value
                if fn.name == '__init__':
                    rep.ob('K1', 'init-false/' + key, _const(val, False), f'the solved flag is initialised to {unparse(val)}', f'{rel}:{n.lineno}')
                    continue
                if _const(val, False):
                    rep.ob('K1', 'reset/' + key, True)
                    continue
                n_true += 1
                fi = core.func(rel, cls.name, fn.name)
                node = fi.cfg.node_of(n)
                facts = set(fi.cfg.branch_facts(node)) if node is not None else set()
                missing = [x for x in need if x not in facts]
                if not (facts & empties):
                    missing.append((f'EMPTY(self.{s.unimplemented})', True))
                ok = _const(val, True) and not missing and fn is s.solve.node
                rep.ob('K1', 'success-guard/' + key, ok,
                       f'self.{s.solved} = {unparse(val)} in {fn.name}() is not guarded by all of: no unmet line dependency, no unmet input dependency, no unimplemented line '
                       f'(missing: {[m[0] for m in missing]}; guards found: {sorted(facts)})', f'{rel}:{n.lineno}',
                       sample={'assignment': unparse(n), 'dominating_facts': sorted(map(str, facts))})
    if n_true == 0:
        raise AnalysisError('no assignment of True to the solved flag found (anchor vanished)')
    # has_unmet must be able to say True and must not ignore the table
    hu = core.method('DependencyTracker', 'has_unmet')
    rets = [r for r in ast.walk(hu.node) if isinstance(r, ast.Return)]
    has_true = any(_const(r.value, True) or not isinstance(r.value, ast.Constant) for r in rets)
    reads_unmet = any(isinstance(n, ast.Attribute) and n.attr == '_unmet' for n in ast.walk(hu.node))
    rep.ob('K1', 'has_unmet-not-trivial', has_true and reads_unmet and bool(rets),
           'DependencyTracker.has_unmet() never returns true / does not look at the unmet table', _w(hu))
    for r in rets:
        if _const(r.value, False):
            # returning False is only allowed after the scan: not inside the loop body unconditionally at function start
            node = hu.cfg.node_of(r)
            first = hu.cfg.entry.succ[0] if hu.cfg.entry.succ else None
            rep.ob('K1', 'has_unmet-false-after-scan', node is not first,
                   'DependencyTracker.has_unmet() returns False before scanning the table', _w(hu, r))


def k1b_cli_reports(core, rep):
    f = core.func('habutax/__init__.py', None, 'solve')
    # variable holding the verdict
    verdict = None
    solver_var = None
    for n in ast.walk(f.node):
        if isinstance(n, ast.Assign) and isinstance(n.value, ast.Call) and call_name(n.value) == 'solve' \
                and isinstance(n.value.func, ast.Attribute) and isinstance(n.targets[0], ast.Name):
            verdict = n.targets[0].id
            solver_var = attr_text(n.value.func.value)
    if verdict is None:
        # the verdict combined with something else (`ok = s.solve(...) and ok`)
        for n in ast.walk(f.node):
            if isinstance(n, ast.Assign) and isinstance(n.targets[0], ast.Name):
                inner = [c for c in calls_in(n.value) if call_name(c) == 'solve' and isinstance(c.func, ast.Attribute)]
                if inner:
                    verdict = n.targets[0].id
                    solver_var = attr_text(inner[0].func.value)
    if verdict is None:
        raise AnalysisError('habutax/__init__.py: solve() does not keep the verdict of Solver.solve in a variable (anchor vanished)')
    # one solve per Solver: the solved flag is set and never cleared, so a second call on the same object inherits the
    # first call's success
    sv = core.method('Solver', 'solve')
    clears = [n for n in ast.walk(sv.node) if isinstance(n, ast.Assign) and any(self_attr(t) == '_solved' for t in n.targets)
              and isinstance(n.value, ast.Constant) and n.value.value is False]
    sites = [c for c in calls_in(f.node) if call_name(c) == 'solve' and isinstance(c.func, ast.Attribute) and attr_text(c.func.value) == solver_var]
    def _in_loop(c):
        p_ = getattr(c, 'parent', None)
        while p_ is not None and p_ is not f.node:
            if isinstance(p_, (ast.For, ast.While, ast.ListComp, ast.GeneratorExp, ast.SetComp, ast.DictComp)):
                return True
            p_ = getattr(p_, 'parent', None)
        return False
    looped = [c for c in sites if _in_loop(c)]
    rep.ob('K1b', 'one-solve-per-solver', bool(clears) or (len(sites) == 1 and not looped),
           f'the CLI calls {solver_var}.solve() {"in a loop" if looped else str(len(sites)) + " times"} on one Solver object; Solver.solve() only ever sets its solved flag and never clears it, '
           'so once one call has succeeded every later call returns success whatever it ran into (unimplemented lines, missing inputs)',
           f'habutax/__init__.py:{(looped or sites or [f.node])[0].lineno}')
    ifs = [n for n in ast.walk(f.node) if isinstance(n, ast.If) and any(isinstance(x, ast.Name) and x.id == verdict for x in ast.walk(n.test))]
    if not rep.ob('K1b', 'branch-on-verdict', len(ifs) >= 1, f'the CLI never branches on the verdict variable {verdict!r}', _w(f)):
        return
    g = f.cfg
    for iff in ifs:
        pos = (verdict, True) in implied(iff.test, True)
        neg = (verdict, False) in implied(iff.test, True)
        rep.ob('K1b', f'test-is-the-verdict@{unparse(iff.test, 40)}', pos or neg,
               f'the CLI test {unparse(iff.test)!r} does not imply the verdict either way', _w(f, iff))
        fail_body = iff.orelse if pos else iff.body
        ok_body = iff.body if pos else iff.orelse
        # the failing branch reports all three diagnostics
        for getter in ('unimplemented_fields', 'unmet_input_dependencies', 'unmet_field_dependencies'):
            var = None
            for st in fail_body:
                for n in ast.walk(st):
                    if isinstance(n, ast.Assign) and isinstance(n.value, ast.Call) and call_name(n.value) == getter \
                            and attr_text(n.value.func.value) == solver_var and isinstance(n.targets[0], ast.Name):
                        var = n.targets[0].id
            printed = False
            if var:
                # the variable (or a loop variable over it) reaches a print argument inside the failing branch
                derived = {var}
                for st in fail_body:
                    for n in ast.walk(st):
                        if isinstance(n, ast.For) and any(isinstance(x, ast.Name) and x.id in derived for x in ast.walk(n.iter)):
                            for x in ast.walk(n.target):
                                if isinstance(x, ast.Name):
                                    derived.add(x.id)
                for st in fail_body:
                    for c in calls_in(st):
                        if call_name(c) == 'print' and any(isinstance(x, ast.Name) and x.id in derived - {var} for a in c.args for x in ast.walk(a)):
                            printed = True
            rep.ob('K1b', f'failure-branch-prints/{getter}', printed,
                   f'when the solve fails the CLI does not print the items of Solver.{getter}()', _w(f, iff))
            if printed:
                # ... and whether it is printed depends on that collection alone: every test between the failure branch and the
                # print mentions only this diagnostic's own variable
                foreign = []
                for st in fail_body:
                    for lp in ast.walk(st):
                        if isinstance(lp, ast.For) and any(isinstance(x, ast.Name) and x.id == var for x in ast.walk(lp.iter)):
                            p = getattr(lp, 'parent', None)
                            while p is not None and p is not iff:
                                if isinstance(p, (ast.If, ast.While)):
                                    names = {x.id for x in ast.walk(p.test) if isinstance(x, ast.Name)} - {'len'}
                                    if not names <= {var}:
                                        foreign.append(p)
                                p = getattr(p, 'parent', None)
                rep.ob('K1b', f'failure-branch-prints-unconditionally/{getter}', not foreign,
                       f'the items of Solver.{getter}() are printed only when `{unparse(foreign[0].test, 60) if foreign else ""}` also holds: a failure of another kind does not name them', _w(f, foreign[0] if foreign else iff))
        # success text only on the success branch
        for c in calls_in(f.node):
            if call_name(c) == 'print' and any(isinstance(a, ast.Constant) and isinstance(a.value, str) and 'success' in a.value.lower() for a in c.args):
                inside = any(c in list(ast.walk(st)) for st in ok_body)
                rep.ob('K1b', f'success-text-guarded@{unparse(c, 50)}', inside,
                       'the success message is printed outside the branch taken when Solver.solve() returned true', _w(f, c))


# ---------------------------------------------------------------- K2 / K3
def _handler_types(h):
    if h.type is None:
        return ['<bare>']
    if isinstance(h.type, ast.Tuple):
        return [unparse(e).split('.')[-1] for e in h.type.elts]
    return [unparse(h.type).split('.')[-1]]


def _is_reraise(h):
    body = [b for b in h.body if not isinstance(b, ast.Pass)]
    if len(body) != 1 or not isinstance(body[0], ast.Raise):
        return False
    r = body[0]
    return r.exc is None or (isinstance(r.exc, ast.Name) and r.exc.id == h.name)


def k2_signal_discipline(core, rep, lines_have_try=None):
    s = core.solver
    # exception class hierarchy in the core
    def bases_of(name, seen=()):
        ci = core.classes.classes.get(name)
        if ci is None or name in seen:
            return []
        out = []
        for b in ci.bases:
            b = b.split('.')[-1]
            out.append(b)
            out += bases_of(b, seen + (name,))
        return out
    for x in SIGNALS:
        if x not in core.classes.classes:
            raise AnalysisError(f'exception class {x} not found (anchor vanished)')
        bs = bases_of(x)
        rep.ob('K2', f'{x}/is-plain-exception', 'Exception' in bs and not any(b in SIGNALS for b in bs) and 'KeyError' not in bs and 'ValueError' not in bs,
               f'{x} derives from {bs}: a signalling exception must be a direct Exception subclass so that no unrelated handler catches it', core.classes.classes[x].rel)
    # every handler in the core
    reach = {id(f.node) for f in core.reachable_from(s.solve)}
    n_handlers = 0
    for rel, t in core.all_nodes(ast.Try):
        fn = enclosing_function(t)
        for h in t.handlers:
            n_handlers += 1
            types = _handler_types(h)
            catches = [x for x in SIGNALS if x in types] + (['<all>'] if any(tt in ('Exception', 'BaseException', '<bare>') for tt in types) else [])
            key = f'{rel}:{fn.name if fn else "<module>"}/except {"|".join(types)}'
            if not catches:
                rep.ob('K2', key + '/unrelated', True)
                continue
            if fn is s.attempt.node and rel == s.rel and '<all>' not in catches:
                rep.ob('K2', key + '/is-the-recording-handler', len(types) == 1,
                       f'the recording handler `except {"|".join(types)}` of {fn.name}() also catches {[t for t in types if t not in SIGNALS]}: an invalid (but supplied) input, for instance, would be treated as a missing one and asked again', f'{rel}:{h.lineno}')
                continue
            if _is_reraise(h):
                rep.ob('K2', key + '/re-raises', True)
                continue
            on_path = fn is not None and id(fn) in reach
            if rel == 'habutax/pdf_filler.py' and catches == ['UnmetDependency'] and not on_path:
                rep.ob('K2', key + '/filler-only', True)
                continue
            rep.ob('K2', key + '/swallows-signal', False,
                   f'handler `except {"|".join(types)}` in {fn.name if fn else rel} can swallow the solver signals {catches} (on the solve call path: {on_path})', f'{rel}:{h.lineno}')
    for rel, t in core.all_nodes(ast.Try):
        for h in t.handlers:
            if 'InvalidInput' in _handler_types(h) and not _is_reraise(h):
                fn = enclosing_function(t)
                rep.ob('K2', f'{rel}:{fn.name if fn else "<module>"}/catches-InvalidInput', False,
                       f'{fn.name if fn else rel}() catches InvalidInput: text the validator rejects must abort the solve, not be handled as something else', f'{rel}:{h.lineno}')
    if n_handlers < 5:
        raise AnalysisError(f'only {n_handlers} exception handlers found in the core (extractor lost sites)')
    # the four recording handlers record on all their paths
    af = s.attempt
    g = af.cfg
    field_param = af.node.args.args[1].arg

    def must_pass(handler, pred, what, key):
        hnode = next(n for n in g.nodes if n.kind == 'except' and n.ast is handler)
        hits = [n for n in g.nodes if n.kind == 'stmt' and n.ast is not None and any(pred(c) for c in calls_in(n.ast)) and g.dominates(hnode, n)]
        ok = bool(hits) and not g.paths_avoiding(hnode, g.exit, {n.id for n in hits})
        rep.ob('K2', key, ok, f'the {unparse(handler.type)} handler of {af.name}() can finish without {what}', _w(af, handler),
               sample={'handler': unparse(handler.type), 'records_by': [unparse(n.ast, 70) for n in hits]})

    hu = s.handlers['UnmetDependency']
    must_pass(hu, lambda c: call_name(c) == 'add_unmet' and self_attr(c.func.value) == s.field_tracker and len(c.args) == 2
              and unparse(c.args[0]) == f'{hu.name}.dependency' and unparse(c.args[1]) == field_param,
              f'registering the attempted line as waiter on {hu.name}.dependency', 'record/UnmetDependency')
    hm = s.handlers['MissingInput']
    must_pass(hm, lambda c: call_name(c) == 'add_unmet' and self_attr(c.func.value) == s.input_tracker and len(c.args) == 2
              and unparse(c.args[0]) == f'{hm.name}.input_name' and unparse(c.args[1]) == field_param,
              f'registering the attempted line as waiter on {hm.name}.input_name', 'record/MissingInput')
    hn = s.handlers['FieldNotImplemented']
    must_pass(hn, lambda c: call_name(c) == 'append' and self_attr(c.func.value) == s.unimplemented and len(c.args) == 1
              and unparse(c.args[0]) in (f'{hn.name}.field_name', f'{field_param}.name()'),
              'recording the line as unimplemented', 'record/FieldNotImplemented')
    hs = s.handlers['MissingInputSpecification']
    # loads the named form's inputs, then retries the same line and returns that result
    hnode = next(n for n in g.nodes if n.kind == 'except' and n.ast is hs)
    loads = [n for n in g.nodes if n.kind == 'stmt' and g.dominates(hnode, n) and any(
        unparse(a) == f'{hs.name}.input_name' for c in calls_in(n.ast) for a in c.args)]
    retries = [n for n in g.nodes if n.kind == 'stmt' and g.dominates(hnode, n) and any(
        call_name(c) == af.name and [unparse(a) for a in c.args] == [field_param] for c in calls_in(n.ast))]
    ok = bool(loads) and bool(retries) and not g.paths_avoiding(hnode, g.exit, {n.id for n in retries}) \
        and all(g.dominates(l, r) for l in loads for r in retries)
    rep.ob('K2', 'record/MissingInputSpecification', ok,
           f'the MissingInputSpecification handler does not (load the specification named by {hs.name}.input_name, then retry the same line) on every path', _w(af, hs))
    # definitions contain no try (zero-expected; positive control in the self-test)
    if lines_have_try is not None:
        rep.ob('K2', 'no-try-in-definitions', not lines_have_try,
               f'line definitions contain try statements: {lines_have_try[:3]}', '')


def k3_not_implemented_raises(core, rep):
    f = core.method('Field', 'not_implemented')
    g = f.cfg
    g.dominators()
    rep.ob('K3', 'never-returns', g.exit.id not in g.reachable, 'Field.not_implemented() can return normally: an unimplemented scenario would yield a value', _w(f))
    raises = [n for n in ast.walk(f.node) if isinstance(n, ast.Raise)]
    ok = bool(raises) and all(isinstance(r.exc, ast.Call) and call_name(r.exc) == 'FieldNotImplemented' for r in raises)
    rep.ob('K3', 'raises-the-signal', ok, 'Field.not_implemented() raises something other than FieldNotImplemented', _w(f))
    for r in raises:
        if isinstance(r.exc, ast.Call) and r.exc.args:
            rep.ob('K3', 'names-the-line', unparse(r.exc.args[0]) == 'self.name()',
                   f'FieldNotImplemented is raised with {unparse(r.exc.args[0])} instead of the line name', _w(f, r))
    # no subclass overrides it
    for name, ci in core.classes.classes.items():
        if name != 'Field' and core.classes.is_subclass(name, 'Field') and 'not_implemented' in ci.methods:
            rep.ob('K3', f'no-override/{name}', False, f'{name} overrides not_implemented()', ci.rel)


def k4_unknown_form_aborts(core, rep):
    s = core.solver
    f = core.func(s.rel, s.name, '_add_form')
    g = f.cfg
    # the guard: a raise of NotImplementedError under `X not in self._form_map`
    guard = None
    for n in g.nodes:
        if n.kind == 'stmt' and isinstance(n.ast, ast.Raise) and isinstance(n.ast.exc, ast.Call) and call_name(n.ast.exc) == 'NotImplementedError':
            # a local that is assigned once stands for the test it holds (`known = form_name in self._form_map`)
            once = {}
            for x in ast.walk(f.node):
                if isinstance(x, ast.Assign) and len(x.targets) == 1 and isinstance(x.targets[0], ast.Name):
                    once.setdefault(x.targets[0].id, []).append(x.value)
            facts = [(unparse(once[txt][0]) if txt in once and len(once[txt]) == 1 else txt, pol) for txt, pol in g.branch_facts(n)]
            if any(pol is True and ' not in self.' in txt for txt, pol in facts) or any(pol is False and ' in self.' in txt and ' not in ' not in txt for txt, pol in facts):
                guard = n
    if not rep.ob('K4', 'raises-on-unknown-form', guard is not None, '_add_form() no longer raises NotImplementedError for a form name missing from the form map', _w(f)):
        return
    test = next(p for p in g.nodes if p.kind == 'test' and g.dominates(p, guard) and any(s2.kind in ('T', 'F') and g.dominates(s2, guard) for s2 in p.succ))
    # every state mutation / instantiation comes after the test
    muts = []
    for n in g.nodes:
        if n.kind != 'stmt' or n.ast is None:
            continue
        st = n.ast
        writes = any(isinstance(t, (ast.Attribute, ast.Subscript)) and (attr_text(t) or attr_text(getattr(t, 'value', None)) or '').startswith('self.')
                     for x in ast.walk(st) if isinstance(x, (ast.Assign, ast.AugAssign)) for t in (x.targets if isinstance(x, ast.Assign) else [x.target]))
        inst = any(isinstance(c.func, ast.Subscript) for c in calls_in(st))
        selfcall = any(isinstance(c.func, ast.Attribute) and (attr_text(c.func) or '').startswith('self.') and call_name(c) not in ('items', 'keys', 'values') for c in calls_in(st))
        if writes or inst or selfcall:
            muts.append(n)
    bad = [n for n in muts if not g.dominates(test, n)]
    rep.ob('K4', 'check-precedes-all-effects', not bad and bool(muts),
           f'_add_form() touches solver state before checking that the form is supported: {[unparse(n.ast, 60) for n in bad]}', _w(f))
    # nobody between here and main() swallows NotImplementedError
    for rel, t in core.all_nodes(ast.Try):
        for h in t.handlers:
            types = _handler_types(h)
            if any(x in ('NotImplementedError', 'RuntimeError') for x in types) and not _is_reraise(h):
                rep.ob('K4', f'{rel}/except-NotImplementedError', False, f'a handler for {types} would hide the unsupported-form abort', f'{rel}:{h.lineno}')


def k5_who_writes(core, rep):
    s = core.solver
    # the unimplemented list is only appended to
    for rel, n in core.all_nodes(ast.Attribute):
        if n.attr != s.unimplemented:
            continue
        par = getattr(n, 'parent', None)
        fn = enclosing_function(n)
        key = f'{rel}:{fn.name if fn else "<module>"}@{unparse(stmt_of(n), 70)}'
        if isinstance(n.ctx, ast.Store):
            rep.ob('K5', 'unimplemented/' + key, fn is not None and fn.name == '__init__' and rel == s.rel,
                   f'the unimplemented list is reassigned: {unparse(stmt_of(n))}', f'{rel}:{n.lineno}')
        elif isinstance(n.ctx, ast.Del):
            rep.ob('K5', 'unimplemented/' + key, False, 'the unimplemented list is deleted', f'{rel}:{n.lineno}')
        elif isinstance(par, ast.Attribute) and isinstance(getattr(par, 'parent', None), ast.Call) and par.parent.func is par:
            rep.ob('K5', 'unimplemented/' + key, par.attr in ('append',),
                   f'the unimplemented list is modified with .{par.attr}()', f'{rel}:{n.lineno}')
        elif isinstance(par, ast.Subscript) and isinstance(par.ctx, (ast.Store, ast.Del)):
            rep.ob('K5', 'unimplemented/' + key, False, 'items of the unimplemented list are overwritten or deleted', f'{rel}:{n.lineno}')
        else:
            rep.ob('K5', 'unimplemented/' + key, True)
    # tracker internals are touched only inside DependencyTracker
    for rel, n in core.all_nodes(ast.Attribute):
        if n.attr in ('_unmet', '_met'):
            cls = enclosing_class(n)
            rep.ob('K5', f'tracker-internals/{rel}:{n.lineno}:{n.attr}', cls is not None and cls.name == 'DependencyTracker',
                   f'DependencyTracker.{n.attr} is accessed outside the class', f'{rel}:{n.lineno}')


# ---------------------------------------------------------------- K6 / K7 / K8 / K9
def _subscript_stores(core, attr):
    """(rel, fn, stmt, target) for every `X.<attr>[k] = ...` / augmented / del"""
    out = []
    for rel, n in core.all_nodes((ast.Assign, ast.AugAssign, ast.Delete)):
        targets = n.targets if isinstance(n, (ast.Assign, ast.Delete)) else [n.target]
        for t in targets:
            if isinstance(t, ast.Subscript) and isinstance(t.value, ast.Attribute) and t.value.attr == attr:
                out.append((rel, enclosing_function(n), n, t))
    return out


MUTATORS = ('pop', 'popitem', 'clear', 'update', 'setdefault', '__setitem__', '__delitem__', 'remove', 'discard')


def _key_text(fnode, e):
    """the text of a key expression, a local that is assigned once standing for what it was assigned"""
    if isinstance(e, ast.Name):
        defs_ = [m.value for m in ast.walk(fnode) if isinstance(m, ast.Assign) and len(m.targets) == 1 and isinstance(m.targets[0], ast.Name) and m.targets[0].id == e.id]
        if len(defs_) == 1:
            return unparse(defs_[0])
    return unparse(e)


def k6_single_value_writer(core, rep):
    s = core.solver
    af = s.attempt
    stores = [x for x in _subscript_stores(core, s.value_store) if x[0] == s.rel]
    if not rep.ob('K6', 'a-value-is-stored', bool(stores), f'nothing in the solver stores a computed value into self.{s.value_store}', _w(af)):
        return
    field_param = af.node.args.args[1].arg
    for rel, fn, st, t in stores:
        key = f'{fn.name if fn else "<module>"}@{unparse(st, 80)}'
        ok = fn is af.node and isinstance(st, ast.Assign) and isinstance(st.value, ast.Call) and call_name(st.value) == 'value' \
            and attr_text(st.value.func.value) == field_param and _key_text(af.node, t.slice) == f'{field_param}.name()' \
            and stmt_of(st) in s.try_.body
        rep.ob('K6', 'value-store-write/' + key, ok,
               f'the value store is written by `{unparse(st)}` in {fn.name if fn else rel}(): the only allowed write is '
               f'self.{s.value_store}[{field_param}.name()] = {field_param}.value(...) inside the try of {af.name}()', f'{rel}:{st.lineno}',
               sample={'write': unparse(st), 'function': fn.name if fn else None})
    rep.ob('K6', 'exactly-one-writer', len(stores) == 1, f'{len(stores)} statements write the value store', s.rel)
    # no other mutation of the store object anywhere in the solver, nor through .values
    for rel, c in core.all_nodes(ast.Call):
        if isinstance(c.func, ast.Attribute) and c.func.attr in MUTATORS:
            base = c.func.value
            txt = attr_text(base) or ''
            if txt.endswith('.' + s.value_store) or txt.endswith(f'.{s.value_store}.values'):
                rep.ob('K6', f'mutator/{rel}@{unparse(c, 60)}', False, f'the value store is mutated by {unparse(c)}', f'{rel}:{c.lineno}')
    # the value function is evaluated with accessors over the real stores
    acc = {}
    for n in ast.walk(s.try_):
        if isinstance(n, ast.Assign) and isinstance(n.value, ast.Call) and call_name(n.value) == 'FormAccessor' and isinstance(n.targets[0], ast.Name):
            acc[n.targets[0].id] = [unparse(a) for a in n.value.args]
    vcall = next((c for c in calls_in(s.try_) if call_name(c) == 'value' and attr_text(c.func.value) == field_param), None)
    ok = vcall is not None and len(vcall.args) == 2 and all(isinstance(a, ast.Name) and a.id in acc for a in vcall.args) \
        and acc[vcall.args[0].id] == [f'self.{s.input_store}', f'{field_param}.form()'] \
        and acc[vcall.args[1].id] == [f'self.{s.value_store}', f'{field_param}.form()']
    rep.ob('K6', 'accessors-over-the-real-stores', ok,
           f'{af.name}() does not evaluate the line with (FormAccessor(input store, line.form()), FormAccessor(value store, line.form()))', _w(af))


def k7_missing_key_raises(core, rep):
    # the store keeps what it is handed: the value a definition produced (already rounded to the line's own places by its
    # field) is what every reader and the solution see
    st_ = core.method('ValueStore', '__setitem__')
    ps = [a.arg for a in st_.node.args.args]
    if len(ps) != 3:
        raise AnalysisError('ValueStore.__setitem__ does not take (self, key, value) (anchor vanished)')
    kp, vp = ps[1], ps[2]
    rebound = [n for n in ast.walk(st_.node) if isinstance(n, (ast.Assign, ast.AugAssign, ast.AnnAssign))
               and any(isinstance(t, ast.Name) and t.id in (kp, vp) for t in (n.targets if isinstance(n, ast.Assign) else [n.target]))]
    writes = [n for n in ast.walk(st_.node) if isinstance(n, ast.Assign) and isinstance(n.targets[0], ast.Subscript) and self_attr(n.targets[0].value) == 'values']
    ok = not rebound and len(writes) == 1 and unparse(writes[0].targets[0].slice) == kp and isinstance(writes[0].value, ast.Name) and writes[0].value.id == vp
    rep.ob('K7', 'store-keeps-the-value-it-is-given', ok,
           f'ValueStore.__setitem__ does not store the value it is handed under the key it is handed ({unparse((rebound or writes or [st_.node])[0], 60)}): the stored line differs from what its '
           'definition yields (a line declared with 3 or 5 places is cut to cents, say) and everything that reads it is computed from the altered value', _w(st_))
    f = core.method('ValueStore', '__getitem__')
    key = f.node.args.args[1].arg
    rets = [r for r in ast.walk(f.node) if isinstance(r, ast.Return)]
    ok_ret = bool(rets) and all(isinstance(r.value, ast.Subscript) and unparse(r.value.slice) == key and attr_text(r.value.value) == 'self.values' for r in rets)
    rep.ob('K7', 'ValueStore.__getitem__/returns-the-stored-value', ok_ret,
           f'ValueStore.__getitem__ returns {[unparse(r.value) for r in rets]} instead of self.values[{key}]', _w(f))
    handlers = [h for t in ast.walk(f.node) if isinstance(t, ast.Try) for h in t.handlers]
    ok_h = bool(handlers)
    if not handlers:
        # the other spelling: `if key not in self.values: raise UnmetDependency(key)` before the read
        g0 = f.cfg
        absent_txt, present_txt = f'{key} not in self.values', f'{key} in self.values'
        raises0 = [n for n in g0.nodes if n.kind == 'stmt' and isinstance(n.ast, ast.Raise) and isinstance(n.ast.exc, ast.Call) and call_name(n.ast.exc) == 'UnmetDependency'
                   and [unparse(a) for a in n.ast.exc.args] == [key]
                   and ((absent_txt, True) in g0.branch_facts(n) or (present_txt, False) in g0.branch_facts(n))]
        rets0 = [n for n in g0.nodes if n.kind == 'stmt' and isinstance(n.ast, ast.Return)]
        ok_h = bool(raises0) and bool(rets0) and all((absent_txt, False) in g0.branch_facts(n) or (present_txt, True) in g0.branch_facts(n) for n in rets0)
    for h in handlers:
        raises = [b for b in ast.walk(h) if isinstance(b, ast.Raise)]
        g = CFG(ast.FunctionDef(name='h', args=f.node.args, body=h.body, decorator_list=[], lineno=h.lineno, col_offset=0), f.rel)
        g.dominators()
        if g.exit.id in g.reachable or not raises or not all(
                isinstance(r.exc, ast.Call) and call_name(r.exc) == 'UnmetDependency' and [unparse(a) for a in r.exc.args] == [key] for r in raises):
            ok_h = False
    rep.ob('K7', 'ValueStore.__getitem__/missing-key-raises-UnmetDependency', ok_h,
           'a read of a line without a value does not always raise UnmetDependency(<that key>)', _w(f))
    for c in calls_in(f.node):
        rep.ob('K7', f'ValueStore.__getitem__/no-default@{unparse(c, 40)}', call_name(c) not in ('get', 'setdefault'),
               'ValueStore.__getitem__ uses a defaulting lookup', _w(f, c))
    fa = core.method('FormAccessor', '__getitem__')
    k2 = fa.node.args.args[1].arg
    rets = [r for r in ast.walk(fa.node) if isinstance(r, ast.Return)]
    ok = len(rets) == 1 and isinstance(rets[0].value, ast.Subscript) and attr_text(rets[0].value.value) == 'self.mapping' and unparse(rets[0].value.slice) == k2 \
        and not [t for t in ast.walk(fa.node) if isinstance(t, ast.Try)]
    rep.ob('K7', 'FormAccessor.__getitem__/plain-delegation', ok,
           'FormAccessor.__getitem__ is not a plain `return self.mapping[key]` (a default or a handler would hide a missing dependency)', _w(fa))
    # qualification: only keys without a dot get the owning form prepended
    quals = [n for n in ast.walk(fa.node) if isinstance(n, ast.If)]
    okq = len(quals) == 1 and unparse(quals[0].test) in (f"'.' not in {k2}", f'"." not in {k2}') and len(quals[0].body) == 1 \
        and isinstance(quals[0].body[0], ast.Assign) and 'self.form.name()' in unparse(quals[0].body[0].value) and not quals[0].orelse
    rep.ob('K7', 'FormAccessor.__getitem__/qualification', okq,
           'FormAccessor no longer qualifies exactly the dot-free keys with the owning form name', _w(fa))



def _prompt_pair(ai_node, prompt_attr):
    """The statement of _attempt_input that binds the pair the prompt returns, as (statement whose target is the 2-tuple, the call
    of the prompt, the intermediate statement or None).  `value, supplied = self._prompt(...)` and the two-step
    `answer = self._prompt(...); value, supplied = answer` (a local assigned once) are the same thing."""
    for n in ast.walk(ai_node):
        if isinstance(n, ast.Assign) and isinstance(n.value, ast.Call) and self_attr(n.value.func) == prompt_attr and len(n.targets) == 1:
            if isinstance(n.targets[0], ast.Tuple):
                return n, n.value, None
            if isinstance(n.targets[0], ast.Name):
                nm = n.targets[0].id
                defs_ = [m for m in ast.walk(ai_node) if isinstance(m, (ast.Assign, ast.AugAssign)) and any(isinstance(t, ast.Name) and t.id == nm for t in (m.targets if isinstance(m, ast.Assign) else [m.target]))]
                later = [m for m in ast.walk(ai_node) if isinstance(m, ast.Assign) and isinstance(m.value, ast.Name) and m.value.id == nm and len(m.targets) == 1 and isinstance(m.targets[0], ast.Tuple)]
                if len(defs_) == 1 and len(later) == 1:
                    return later[0], n.value, n
    return None, None, None


def k8_input_store_writes(core, rep):
    s = core.solver
    ai = core.func(s.rel, s.name, '_attempt_input')
    stores = [x for x in _subscript_stores(core, s.input_store) if x[0] == s.rel]
    if not rep.ob('K8', 'answer-written-into-the-input-store', bool(stores),
                  f'nothing in the solver writes a prompted answer into the input store self.{s.input_store}: the answer is neither seen by the lines through the validation gate nor written back', _w(ai)):
        return
    g = ai.cfg
    # the prompt call and the names it binds
    pair, pcall, _mid = _prompt_pair(ai.node, s.prompt)
    ok_prompt = pair is not None and len(pair.targets[0].elts) == 2 and all(isinstance(e, ast.Name) for e in pair.targets[0].elts)
    rep.ob('K8', 'prompt-returns-(value, supplied)', ok_prompt, f'_attempt_input() does not unpack (value, supplied) from the prompt', _w(ai))
    if not ok_prompt:
        return
    val, sup = [e.id for e in pair.targets[0].elts]
    missing = unparse(pcall.args[0]) if pcall.args else None
    for rel, fn, st, t in stores:
        key = f'{fn.name if fn else "<module>"}@{unparse(st, 70)}'
        ok = fn is ai.node and isinstance(st, ast.Assign) and unparse(st.value) == val and unparse(t.slice) == f'{missing}.name()'
        node = g.node_of(st) if fn is ai.node else None
        guarded = node is not None and (sup, True) in g.branch_facts(node)
        rep.ob('K8', 'input-store-write/' + key, ok and guarded,
               f'the input store is written by `{unparse(st)}` in {fn.name if fn else rel}(): allowed only in _attempt_input, for the prompted input, with the answer, when it was supplied', f'{rel}:{st.lineno}')
    rep.ob('K8', 'exactly-one-writer', len(stores) == 1, f'{len(stores)} statements write the input store', s.rel)
    # `missing` is the registered specification of the input that was asked for
    name_param = ai.node.args.args[1].arg
    reg = [n for n in ast.walk(ai.node) if isinstance(n, ast.Assign) and unparse(n.targets[0]) == missing]
    rep.ob('K8', 'asks-for-the-registered-input', len(reg) == 1 and isinstance(reg[0].value, ast.Subscript) and unparse(reg[0].value.slice) == name_param,
           f'the prompted specification is not the one registered under the requested name', _w(ai))
    # nothing in the solver deletes inputs
    for rel, n in core.all_nodes((ast.Delete, ast.Call)):
        if rel != s.rel:
            continue
        if isinstance(n, ast.Delete) and any(isinstance(t, ast.Subscript) and isinstance(t.value, ast.Attribute) and t.value.attr == s.input_store for t in n.targets):
            rep.ob('K8', f'no-delete@{unparse(n, 50)}', False, 'the solver deletes an input', f'{rel}:{n.lineno}')
        if isinstance(n, ast.Call) and isinstance(n.func, ast.Attribute) and n.func.attr in MUTATORS + ('remove_option', 'remove_section', 'write') \
                and (attr_text(n.func.value) or '').endswith('.' + s.input_store):
            rep.ob('K8', f'no-mutator@{unparse(n, 50)}', False, f'the solver mutates the input store with {unparse(n)}', f'{rel}:{n.lineno}')
    # InputStore.__setitem__ writes the very (section, option) that __getitem__ reads
    st = core.method('InputStore', '__setitem__')
    sets = [c for c in calls_in(st.node) if call_name(c) == 'set' and attr_text(c.func.value) == 'self.config']
    vparam = st.node.args.args[2].arg
    ok = len(sets) == 1 and len(sets[0].args) == 3 and unparse(sets[0].args[2]) == vparam
    rep.ob('K8', 'InputStore.__setitem__/writes-config', ok, 'InputStore.__setitem__ does not store the given value in self.config', _w(st))
    if ok:
        gi = core.method('InputStore', '__getitem__')
        gets = [c for c in calls_in(gi.node) if call_name(c) == 'get' and attr_text(c.func.value) == 'self.config']
        same = len(gets) == 1 and [unparse(a).split('.')[-1] for a in gets[0].args[:2]] == [unparse(a).split('.')[-1] for a in sets[0].args[:2]]
        rep.ob('K8', 'set-and-get-address-the-same-option', same,
               'InputStore.__setitem__ and __getitem__ address the configuration with different (section, option) expressions', _w(st))


def k9_store_then_meet(core, rep):
    s = core.solver
    for (fi, attr, tracker, what) in ((s.attempt, s.value_store, s.field_tracker, 'value'),
                                       (core.func(s.rel, s.name, '_attempt_input'), s.input_store, s.input_tracker, 'input')):
        g = fi.cfg
        stores = [n for n in g.nodes if n.kind == 'stmt' and isinstance(n.ast, ast.Assign) and any(
            isinstance(t, ast.Subscript) and self_attr(t.value) == attr for t in n.ast.targets)]
        if not rep.ob('K9', f'{fi.name}/stores-a-{what}', bool(stores), f'{fi.name}() no longer stores the {what} it obtained (nothing can be announced to the tracker)', _w(fi)):
            continue
        for n in stores:
            keytxt = unparse(next(t for t in n.ast.targets if isinstance(t, ast.Subscript)).slice)
            normal = [x for x in n.succ if x.kind != 'except']
            ok = len(normal) == 1 and normal[0].kind == 'stmt' and isinstance(normal[0].ast, ast.Expr) and isinstance(normal[0].ast.value, ast.Call) \
                and call_name(normal[0].ast.value) == 'meet' and self_attr(normal[0].ast.value.func.value) == tracker \
                and [unparse(a) for a in normal[0].ast.value.args] == [keytxt]
            rep.ob('K9', f'{fi.name}/store-then-meet', ok,
                   f'in {fi.name}() the {what} store `{unparse(n.ast)}` is not immediately followed by self.{tracker}.meet({keytxt}): waiters would never be released', _w(fi, n.ast),
                   sample={'store': unparse(n.ast), 'next': [unparse(x.ast, 60) for x in normal if x.ast is not None]})
        # ... and conversely: the tracker is told "met" only on paths that did store (a handler that falls through to a common
        # meet() releases the waiters of a line that has no value: they are evaluated again and register the same wait again)
        meets = [n for n in g.nodes if n.kind == 'stmt' and n.ast is not None and any(call_name(c) == 'meet' and self_attr(c.func.value) == tracker for c in calls_in(n.ast))]
        sid = {n.id for n in stores}
        def _reach_unstored(target):
            # an exception edge out of the storing statement means the store did not happen
            seen_, todo_ = set(), [g.entry]
            while todo_:
                x = todo_.pop()
                if x.id in seen_:
                    continue
                seen_.add(x.id)
                if x is target:
                    return True
                for y in x.succ:
                    if x.id in sid and y.kind != 'except':
                        continue
                    todo_.append(y)
            return False
        for m_ in meets:
            early = _reach_unstored(m_)
            rep.ob('K9', f'{fi.name}/meet-only-after-the-store', not early,
                   f'{fi.name}() can reach self.{tracker}.meet(...) without having stored the {what} (for instance from an exception handler that falls through): the lines waiting for it are '
                   'released although it has no value - released before their dependency is met', _w(fi, m_.ast))
    # meet is called nowhere else with another key discipline
    for rel, c in core.all_nodes(ast.Call):
        if call_name(c) == 'meet' and rel == s.rel:
            fn = enclosing_function(c)
            rep.ob('K9', f'meet-sites/{fn.name}@{unparse(c, 50)}', fn.name in (s.attempt.name, '_attempt_input', 'meet'),
                   f'meet() is called from {fn.name}()', f'{rel}:{c.lineno}')


# ---------------------------------------------------------------- K10 / K12 / K13 / K14 / K15
def k10_refusal(core, rep):
    s = core.solver
    # writes to the refused flag
    n_w = 0
    for rel, n in core.all_nodes((ast.Assign, ast.AugAssign)):
        targets = n.targets if isinstance(n, ast.Assign) else [n.target]
        for t in targets:
            if isinstance(t, ast.Attribute) and t.attr == s.refused:
                fn = enclosing_function(n)
                n_w += 1
                if fn.name == '__init__' and rel == s.rel:
                    continue
                rep.ob('K10', f'refused-only-set/{fn.name}@{unparse(n, 50)}', isinstance(n, ast.Assign) and _const(n.value, True) and rel == s.rel,
                       f'the refused flag is changed by `{unparse(n)}`: once the user stopped answering it must stay set', f'{rel}:{n.lineno}')
                rep.ob('K10', f'refused-set-only-by-the-prompt-step/{fn.name}@{unparse(n, 50)}', fn.name == '_attempt_input',
                       f'{fn.name}() sets the refused flag: only a prompt that supplied nothing may stop the questions - otherwise values that would have been typed are reported missing '
                       f'although the same values in the file would have been used (file and prompt no longer equivalent)', f'{rel}:{n.lineno}')
    if n_w < 2:
        raise AnalysisError('refused flag writers not found (anchor vanished)')
    # the refusal is recorded when the prompt did not supply a value
    ai = core.func(s.rel, s.name, '_attempt_input')
    g = ai.cfg
    sets = [n for n in g.nodes if n.kind == 'stmt' and isinstance(n.ast, ast.Assign) and self_attr(n.ast.targets[0]) == s.refused]
    pair, _pcall, _mid = _prompt_pair(ai.node, s.prompt)
    sup = pair.targets[0].elts[1].id if pair is not None and len(pair.targets[0].elts) == 2 and isinstance(pair.targets[0].elts[1], ast.Name) else None
    ok = bool(sets) and all((sup, False) in g.branch_facts(n) for n in sets)
    # and on the not-supplied branch the flag is always set
    fnodes = [n for n in g.nodes if n.kind == 'F' and unparse(n.ast) == sup] + [n for n in g.nodes if n.kind == 'T' and unparse(n.ast) == f'not {sup}']
    covered = bool(fnodes) and all(not g.paths_avoiding(fn_, g.exit, {n.id for n in sets}) for fn_ in fnodes)
    rep.ob('K10', 'refusal-recorded', ok and covered, 'when the prompt supplies nothing the refused flag is not (always) set', _w(ai))
    # every way out of _attempt_input has either stored (and announced) an answer or recorded the refusal: an exit that does
    # neither leaves the input unanswered with prompting still allowed, and the next round asks the same question again - for ever
    meets = [n for n in g.nodes if n.kind == 'stmt' and any(call_name(c) == 'meet' for c in calls_in(n.ast))]
    progress = {n.id for n in sets} | {n.id for n in meets}
    idle = g.paths_avoiding(g.entry, g.exit, progress) if progress else True
    rep.ob('K10', 'every-exit-answers-or-refuses', not idle,
           '_attempt_input() can return without having stored an answer or recorded a refusal (for instance for an answer the input rejects): nothing has changed, so solve() asks the same '
           'input again in the next round and never terminates', _w(ai))
    # who calls the prompt
    for rel, c in core.all_nodes(ast.Call):
        if self_attr(c.func) == s.prompt or (isinstance(c.func, ast.Attribute) and c.func.attr == s.prompt):
            fn = enclosing_function(c)
            rep.ob('K10', f'prompt-called-only-in-_attempt_input/{fn.name}', fn is ai.node, f'the prompt callback is called from {fn.name}()', f'{rel}:{c.lineno}')
    # in solve(): every _attempt_input call is guarded by "not refused", and a cycle back to it re-tests the flag
    sv = s.solve
    g = sv.cfg
    calls = [n for n in g.nodes if n.kind in ('stmt', 'test') and any(call_name(c) == '_attempt_input' for c in calls_in(n.ast))]
    if not calls:
        raise AnalysisError('solve() does not call _attempt_input (anchor vanished)')
    k32_solve_single_exit(core, rep)
    tests = {n.id for n in g.nodes if n.kind == 'test' and any(self_attr(x) == s.refused for x in ast.walk(n.ast))}
    for n in calls:
        facts = g.branch_facts(n)
        guarded = (f'self.{s.refused}', False) in facts
        rep.ob('K10', 'ask-only-while-not-refused', guarded, 'solve() may prompt although the user already refused', _w(sv, n.ast))
        starts = list(n.succ)
        if n.kind == 'test':
            # the answer of the call itself decides the branch: only the "nothing supplied" side has to stop the questions
            t = n.ast
            neg = isinstance(t, ast.UnaryOp) and isinstance(t.op, ast.Not) and isinstance(t.operand, ast.Call) and call_name(t.operand) == '_attempt_input'
            pos = isinstance(t, ast.Call) and call_name(t) == '_attempt_input'
            if neg or pos:
                starts = [x for x in n.succ if x.kind == ('T' if neg else 'F')]
        cyc = any(g.paths_avoiding(x, n, tests) for x in starts)
        rep.ob('K10', 'flag-retested-between-prompts', not cyc, 'solve() can prompt twice in a row without re-testing the refused flag (Ctrl-C would not stop the questions)', _w(sv, n.ast))
    # _attempt_input callers
    for rel, c in core.all_nodes(ast.Call):
        if call_name(c) == '_attempt_input':
            fn = enclosing_function(c)
            rep.ob('K10', f'_attempt_input-called-only-from-solve/{fn.name}', fn is sv.node, f'_attempt_input is called from {fn.name}()', f'{rel}:{c.lineno}')


def k12_schedule_once(core, rep):
    s = core.solver
    add = core.func(s.rel, s.name, '_add_unattempted')
    allowed = {'_add_form', s.attempt.name, 'solve'}
    n_calls = 0
    for rel, c in core.all_nodes(ast.Call):
        if call_name(c) == add.name:
            n_calls += 1
            fn = enclosing_function(c)
            rep.ob('K12', f'who-schedules/{rel}:{fn.name}', rel == s.rel and fn.name in allowed,
                   f'{fn.name}() schedules lines through {add.name}(); only adding a form, a discovered dependency or an explicitly requested line may', f'{rel}:{c.lineno}')
    if n_calls < 2:
        raise AnalysisError(f'only {n_calls} scheduling sites found (anchor vanished)')
    # whatever is handed to _add_unattempted ends in the queue: the function adds (extend / append / insert / insort / +=) and
    # never skips an element - no `continue`, no early `return`, no conditional add inside a loop over what it was handed.  A
    # "do not queue it twice" test keyed by anything but the line itself (the sort key, the base name) drops a different line
    # that happens to collide; it is already marked as being solved, so nobody queues it again and its waiters wait for ever
    def _adds(x):
        return (isinstance(x, ast.Call) and isinstance(x.func, ast.Attribute) and x.func.attr in ('extend', 'append', 'insert', 'insort', 'insort_left', 'insort_right', 'appendleft', 'extendleft')) \
            or (isinstance(x, ast.AugAssign) and isinstance(x.op, ast.Add))
    adds_ = [x for x in ast.walk(add.node) if _adds(x)]
    skips = [x for x in ast.walk(add.node) if isinstance(x, (ast.Continue, ast.Break)) or (isinstance(x, ast.Return) and x is not add.node.body[-1])]
    cond_adds = []
    for lp in [x for x in ast.walk(add.node) if isinstance(x, (ast.For, ast.While))]:
        for st in lp.body:
            if isinstance(st, (ast.If, ast.Try, ast.Match)) and any(_adds(y) for y in ast.walk(st)):
                cond_adds.append(st)
    bad = (skips or cond_adds or [None])[0]
    rep.ob('K12', 'everything-handed-over-is-queued', bool(adds_) and bad is None,
           f'{add.name}() can leave out a line it was handed (`{unparse(getattr(bad, "test", bad), 60) if bad is not None else "no add found"}`): a line that is marked as being solved but never queued is never '
           'evaluated, never met, and every line waiting for it waits for ever', _w(add, bad) if bad is not None else _w(add))
    # the queue is written only by _add_unattempted (extend/append/sort) and popped only in solve
    for rel, n in core.all_nodes(ast.Attribute):
        if n.attr != s.queue or rel != s.rel:
            continue
        par = getattr(n, 'parent', None)
        fn = enclosing_function(n)
        if isinstance(par, ast.Attribute) and isinstance(getattr(par, 'parent', None), ast.Call) and par.parent.func is par:
            m = par.attr
            ok = (fn.name == add.name and m in ('extend', 'append', 'sort')) or (fn.name == 'solve' and m == 'pop')
            rep.ob('K12', f'queue-discipline/{fn.name}.{m}', ok, f'the queue of unattempted lines is changed with .{m}() in {fn.name}()', f'{rel}:{n.lineno}')
        elif isinstance(n.ctx, ast.Store):
            rep.ob('K12', f'queue-discipline/{fn.name}=', fn.name == '__init__', f'the queue is reassigned in {fn.name}()', f'{rel}:{n.lineno}')
    # in the UnmetDependency handler
    af = s.attempt
    g = af.cfg
    h = s.handlers['UnmetDependency']
    dep = f'{h.name}.dependency'
    hcalls = [n for n in g.nodes if n.kind == 'stmt' and any(call_name(c) == add.name for c in calls_in(n.ast)) and any(n.ast in ast.walk(b) for b in h.body)]
    rep.ob('K12', 'handler-schedules', len(hcalls) == 1, f'the UnmetDependency handler schedules {len(hcalls)} times', _w(af, h))
    # the line a definition turned out to need is queued, never evaluated from inside the handler: an evaluation on the spot
    # happens before the line is marked as being solved, so a cycle of on-demand lines recurses without bound
    inner = [c for b in h.body for c in calls_in(b) if call_name(c) in (af.name, 'value', '_value')]
    rep.ob('K12', 'handler-evaluates-nothing', not inner,
           f'the UnmetDependency handler calls {unparse(inner[0], 60) if inner else ""}: the missing line is evaluated on the spot instead of being queued, before it is marked as being solved - '
           'on a cycle (or self-reference) of on-demand lines the attempts nest until the interpreter gives up (RecursionError out of solve())', f'{af.rel}:{inner[0].lineno}' if inner else _w(af, h))
    for n in hcalls:
        facts = g.branch_facts(n)
        ok = (f'{dep} not in self.{s.solving}', True) in facts or (f'{dep} in self.{s.solving}', False) in facts
        rep.ob('K12', 'handler-schedules-only-new-lines', ok, 'a dependency already being solved can be scheduled again', _w(af, n.ast))
        c = next(c for c in calls_in(n.ast) if call_name(c) == add.name)
        rep.ob('K12', 'handler-schedules-exactly-the-dependency', [unparse(a) for a in c.args] == [f'self.{s.field_map}[{dep}]'],
               f'the handler schedules {unparse(c)} rather than the line it is waiting for', _w(af, n.ast))
        adds = [m for m in g.nodes if m.kind == 'stmt' and any(call_name(c2) == 'add' and self_attr(c2.func.value) == s.solving and [unparse(a) for a in c2.args] == [dep] for c2 in calls_in(m.ast))]
        ok2 = bool(adds) and not g.paths_avoiding(n, g.exit, {m.id for m in adds})
        rep.ob('K12', 'handler-marks-the-line-as-being-solved', ok2, 'after scheduling a dependency the handler does not record it in the set of lines being solved', _w(af, n.ast))


def k13_add_form(core, rep):
    s = core.solver
    f = core.func(s.rel, s.name, '_add_form')
    g = f.cfg
    params = [a.arg for a in f.node.args.args]
    io = 'input_only' if 'input_only' in params else (params[2] if len(params) > 2 else None)
    if io is None:
        raise AnalysisError('_add_form has no input-only parameter (anchor vanished)')
    d = f.node.args.defaults
    rep.ob('K13', 'input_only-defaults-to-false', len(d) >= 1 and _const(d[-1], False), 'the input-only switch of _add_form() does not default to False', _w(f))
    state_attrs = {s.forms, s.field_map, s.queue, s.solving}
    muts = []
    for n in g.nodes:
        if n.kind != 'stmt' or n.ast is None:
            continue
        st = n.ast
        hit = False
        for x in ast.walk(st):
            if isinstance(x, (ast.Assign, ast.AugAssign)):
                for t in (x.targets if isinstance(x, ast.Assign) else [x.target]):
                    base = t.value if isinstance(t, ast.Subscript) else t
                    if self_attr(base) in state_attrs:
                        hit = True
            if isinstance(x, ast.Call) and call_name(x) == '_add_unattempted':
                hit = True
        if hit:
            muts.append(n)
    if len(muts) < 3:
        raise AnalysisError(f'_add_form: only {len(muts)} scheduling/registration statements found (anchor vanished)')
    bad = [n for n in muts if (io, False) not in g.branch_facts(n)]
    # `if input_only: return` gives the fact on the fall-through only if the T branch always leaves; branch_facts uses dominance by F node
    rep.ob('K13', 'input-only-registers-nothing', not bad,
           f'with input_only the form still touches the solve state: {[unparse(n.ast, 60) for n in bad]}', _w(f))
    # scheduled set = required_fields(); registered set = fields()
    sched = [c for n in muts for c in calls_in(n.ast) if call_name(c) == '_add_unattempted']
    # a local that is assigned once stands for what it was assigned (`required = new_form.required_fields()`)
    once = {}
    for x in ast.walk(f.node):
        if isinstance(x, ast.Assign) and len(x.targets) == 1 and isinstance(x.targets[0], ast.Name):
            once.setdefault(x.targets[0].id, []).append(x.value)
    once = {k: v[0] for k, v in once.items() if len(v) == 1 and k not in params}

    def _through(e):
        return once[e.id] if isinstance(e, ast.Name) and e.id in once else e

    def _text(e):
        class _Sub(ast.NodeTransformer):
            def visit_Name(self, nd):
                return once[nd.id] if isinstance(nd.ctx, ast.Load) and nd.id in once else nd
        import copy
        return unparse(_Sub().visit(copy.deepcopy(e)))
    ok = len(sched) == 1 and len(sched[0].args) == 1 and isinstance(_through(sched[0].args[0]), ast.Call) and call_name(_through(sched[0].args[0])) == 'required_fields'
    rep.ob('K13', 'schedules-exactly-the-required-lines', ok, f'_add_form() schedules {[unparse(c) for c in sched]} instead of the form\'s required lines', _w(f))
    solv = [n for n in muts if any(isinstance(x, ast.AugAssign) and self_attr(x.target) == s.solving for x in ast.walk(n.ast))]
    ok = len(solv) == 1 and 'required_fields()' in _text(solv[0].ast) and '.name()' in _text(solv[0].ast)
    rep.ob('K13', 'marks-exactly-the-required-lines', ok, 'the set of lines being solved is not updated with the names of the required lines', _w(f))
    # a full load always schedules: the only condition the scheduling statements stand under is "not input-only" (a guard such as
    # "first time this form is seen" counts the input-only load as a first time, and the required lines of a form that was first
    # touched through one of its inputs are then never demanded)
    for n_ in [x for x in muts if any(call_name(c) == '_add_unattempted' for c in calls_in(x.ast))] + solv:
        split_nodes = [x for x in g.nodes if x.kind == 'test' and io in unparse(x.ast)]
        common = set(g.branch_facts(split_nodes[0])) if split_nodes else set()
        others = [(t_, pol) for (t_, pol) in g.branch_facts(n_) if io not in t_ and (t_, pol) not in common]
        rep.ob('K13', f'scheduling-depends-on-input_only-alone@{unparse(n_.ast, 40)}', not others,
               f'_add_form() schedules the required lines only under a further condition ({others[:2]}): a form whose inputs were loaded first (input-only) and whose lines are referred to later '
               'may never get its required lines queued - they are missing from a return that reports success', _w(f, n_.ast))
    # every call that returns normally - input-only or not, first time or not - has told the input store about the inputs of the
    # form it was asked for: an early exit before that ("this form's inputs are already known", keyed by the bare form name)
    # leaves the inputs of a second copy (8889:spouse after 8889:you) unknown, and the retry after MissingInputSpecification
    # recurses without end
    tells = [n for n in g.nodes if n.kind == 'stmt' and n.ast is not None and any(call_name(c) == 'update_input_spec' for c in calls_in(n.ast))]
    rep.ob('K13', 'inputs-registered-on-every-normal-return', bool(tells) and not g.paths_avoiding(g.entry, g.exit, {n.id for n in tells}),
           '_add_form() can return without having registered the inputs of the form it was asked for (an early exit before update_input_spec): the line that asked for one of those inputs '
           'is retried with the specification still missing - unbounded recursion instead of a question or a value', _w(f))
    reg = [n for n in g.nodes if n.kind == 'iter' and isinstance(n.ast, ast.Call) and call_name(n.ast) == 'fields']
    rep.ob('K13', 'registers-all-lines', len(reg) == 1, '_add_form() does not register every line (required and optional) of the form in the line map', _w(f))
    # handler: adds the named form fully, not input-only
    h = s.handlers['UnmetDependency']
    calls = [c for c in calls_in(h) if call_name(c) == '_add_form']
    ok = len(calls) == 1 and not calls[0].keywords and len(calls[0].args) == 1
    rep.ob('K13b', 'handler-adds-the-form-fully', ok, 'the UnmetDependency handler does not add the referenced form as a full (non input-only) form', _w(s.attempt, h))
    spec = core.func(s.rel, s.name, '_add_input_spec')
    calls = [c for c in calls_in(spec.node) if call_name(c) == '_add_form']
    ok = len(calls) == 1 and any(k.arg == io and _const(k.value, True) for k in calls[0].keywords)
    rep.ob('K13b', 'input-spec-loading-is-input-only', ok, '_add_input_spec() adds the form other than input-only: merely reading an input of a form would pull its required lines into the solution', _w(spec))


def k14_solution_lists_all(core, rep):
    f = core.method('ValueStore', 'to_config')
    loops = [n for n in ast.walk(f.node) if isinstance(n, ast.For)]
    ok = len(loops) == 1 and unparse(loops[0].iter) == 'self.values.items()'
    rep.ob('K14', 'walks-every-stored-value', ok, 'to_config() does not iterate over all stored values', _w(f))
    if ok:
        body = loops[0].body
        skips = [n for b in body for n in ast.walk(b) if isinstance(n, (ast.Continue, ast.Break, ast.Return))]
        conds = [n for b in body for n in ast.walk(b) if isinstance(n, ast.If)]
        only_section = all(len(c.body) == 1 and isinstance(c.body[0], ast.Assign) and not c.orelse for c in conds)
        rep.ob('K14', 'no-skip', not skips and only_section, 'to_config() skips some stored values', _w(f))
        # the text may be kept in a local first (`text = field.to_string(value)`), assigned once inside the loop
        once_ = {}
        for b in body:
            for n in ast.walk(b):
                if isinstance(n, ast.Assign) and len(n.targets) == 1 and isinstance(n.targets[0], ast.Name):
                    once_.setdefault(n.targets[0].id, []).append(n.value)
        def _val(e):
            return once_[e.id][0] if isinstance(e, ast.Name) and len(once_.get(e.id, ())) == 1 else e
        writes = [n for b in body for n in ast.walk(b) if isinstance(n, ast.Assign) and isinstance(n.targets[0], ast.Subscript) and isinstance(_val(n.value), ast.Call) and call_name(_val(n.value)) == 'to_string']
        rep.ob('K14', 'writes-to_string-of-the-value', len(writes) == 1, 'to_config() does not store field.to_string(value) for each value', _w(f))
    sol = core.func(core.solver.rel, core.solver.name, 'solution')
    rets = [r for r in ast.walk(sol.node) if isinstance(r, ast.Return)]
    ok = len(rets) == 1 and isinstance(rets[0].value, ast.Call) and call_name(rets[0].value) == 'to_config' and self_attr(rets[0].value.func.value) == core.solver.value_store
    rep.ob('K14', 'solution-is-the-value-store', ok, 'Solver.solution() is not the value store rendered by to_config()', _w(sol))


def k15_no_live_generator(core, rep):
    s = core.solver
    f = s.solve
    n_loops = 0
    for loop in [n for n in ast.walk(f.node) if isinstance(n, (ast.For, ast.While))]:
        if not any(call_name(c) in (s.attempt.name,) for b in loop.body for c in calls_in(b)):
            continue
        if any(isinstance(x, (ast.For, ast.While)) and any(call_name(c) == s.attempt.name for b in x.body for c in calls_in(b)) for b in loop.body for x in ast.walk(b)):
            continue     # outer loop of the work list
        n_loops += 1
        if isinstance(loop, ast.For):
            it = loop.iter
            ok = isinstance(it, ast.Call) and isinstance(it.func, ast.Name) and it.func.id in ('sorted', 'list', 'tuple')
            rep.ob('K15', f'materialised@{unparse(it, 60)}', ok,
                   f'solve() iterates directly over {unparse(it)} while attempting lines: the attempt re-registers waiters and the generator never ends', _w(f, loop))
        else:
            pops = [c for b in loop.body for c in calls_in(b) if call_name(c) == 'pop' and self_attr(c.func.value) == s.queue]
            ok = f'self.{s.queue}' in unparse(loop.test) and len(pops) >= 1
            rep.ob('K15', f'pop-until-empty@{unparse(loop.test, 60)}', ok, 'the queue loop of solve() does not shrink the queue on every iteration', _w(f, loop))
    if n_loops < 3:
        raise AnalysisError(f'solve(): only {n_loops} line-attempt loops found (anchor vanished)')


# ---------------------------------------------------------------- K11 inputs gate
def k11_input_gate(core, rep):
    f = core.method('InputStore', '__getitem__')
    g = f.cfg
    key = f.node.args.args[1].arg
    rets = [n for n in g.nodes if n.kind == 'stmt' and isinstance(n.ast, ast.Return)]
    if not rets:
        raise AnalysisError('InputStore.__getitem__ has no return (anchor vanished)')
    for r in rets:
        v = r.ast.value
        ok_shape = isinstance(v, ast.Call) and call_name(v) == 'value' and len(v.args) == 1 and isinstance(v.args[0], ast.Name)
        rep.ob('K11', 'returns-converted-text', ok_shape, f'InputStore.__getitem__ returns {unparse(v)} instead of <spec>.value(<text>)', _w(f, r.ast))
        if not ok_shape:
            continue
        spec = attr_text(v.func.value)
        text = v.args[0].id
        facts = g.branch_facts(r)
        # 1 spec known
        k_known = (f'{key} not in self.input_specs', False) in facts or (f'{key} in self.input_specs', True) in facts
        rep.ob('K11', 'gate/spec-known', k_known, 'a value can be returned for an input whose specification is unknown', _w(f, r.ast))
        # 2 provided
        k_prov = (f'self.provides({spec})', True) in facts
        rep.ob('K11', 'gate/provided', k_prov, 'a value can be returned for an input that was not supplied (silent default)', _w(f, r.ast))
        # 3 valid, on the same text variable
        k_valid = (f'{spec}.valid({text})', True) in facts
        rep.ob('K11', 'gate/validated-same-text', k_valid, f'the text converted by {spec}.value({text}) was not validated by {spec}.valid({text}) first', _w(f, r.ast))
        # the failing branches raise the right exceptions
        want = {'MissingInputSpecification': f'{key} not in self.input_specs', 'MissingInput': f'self.provides({spec})', 'InvalidInput': f'{spec}.valid({text})'}
        for exc, cond in want.items():
            rs = [n for n in g.nodes if n.kind == 'stmt' and isinstance(n.ast, ast.Raise) and isinstance(n.ast.exc, ast.Call) and call_name(n.ast.exc) == exc]
            ok = len(rs) >= 1 and all(any(cond == txt for txt, pol in g.branch_facts(n)) for n in rs) and all(unparse(n.ast.exc.args[0]) == key for n in rs)
            rep.ob('K11', f'gate/raises-{exc}', ok, f'InputStore.__getitem__ does not raise {exc}({key}) exactly when `{cond}` fails', _w(f))
        # order: known -> provided -> valid
        tests = {unparse(n.ast): n for n in g.nodes if n.kind == 'test'}
        order = [next((n for t, n in tests.items() if 'input_specs' in t), None), next((n for t, n in tests.items() if 'provides' in t), None),
                 next((n for t, n in tests.items() if '.valid(' in t), None)]
        ok = all(o is not None for o in order) and g.dominates(order[0], order[1]) and g.dominates(order[1], order[2])
        rep.ob('K11', 'gate/order', ok, 'the checks are not made in the order specification known -> supplied -> valid', _w(f))
        # the text is read once from the parser and never modified in between
        asg = [n for n in ast.walk(f.node) if isinstance(n, (ast.Assign, ast.AugAssign)) and any(
            isinstance(x, ast.Name) and x.id == text for t in (n.targets if isinstance(n, ast.Assign) else [n.target]) for x in ast.walk(t))]
        ok = len(asg) == 1 and isinstance(asg[0], ast.Assign) and isinstance(asg[0].value, ast.Call) and call_name(asg[0].value) == 'get' and attr_text(asg[0].value.func.value) == 'self.config'
        rep.ob('K11', 'gate/text-read-once', ok, 'the validated text is reassigned between validation and conversion, or does not come from the configuration', _w(f))
        if ok:
            c = asg[0].value
            rep.ob('K11e', 'no-fallback', not [k for k in c.keywords if k.arg in ('fallback', 'vars', 'raw')] and len(c.args) == 2,
                   f'the configuration read `{unparse(c)}` carries a fallback/vars argument: an absent input would silently default', _w(f, asg[0]))
            pv = core.method('InputStore', 'provides')
            has = [x for x in calls_in(pv.node) if call_name(x) == 'has_option' and attr_text(x.func.value) == 'self.config']
            p_param = pv.node.args.args[1].arg
            def _thru(fnode, e):
                # a local that is assigned once stands for what it was assigned (`section = input_obj.section()`)
                if isinstance(e, ast.Name):
                    d_ = [m.value for m in ast.walk(fnode) if isinstance(m, ast.Assign) and len(m.targets) == 1 and isinstance(m.targets[0], ast.Name) and m.targets[0].id == e.id]
                    if len(d_) == 1:
                        return d_[0]
                return e
            same = len(has) == 1 and [unparse(_thru(pv.node, a)).replace(p_param, spec) for a in has[0].args] == [unparse(_thru(f.node, a)) for a in c.args[:2]]
            rep.ob('K11e', 'supplied-iff-found', same, 'provides() and the read address the configuration with different (section, option) expressions: a supplied input could be reported missing', _w(pv))
    # K11b sole access path to the raw configuration
    for rel, n in core.all_nodes(ast.Attribute):
        if n.attr == 'config' and not (isinstance(n.value, ast.Name) and n.value.id == 'self' and enclosing_class(n) is not None and enclosing_class(n).name == 'InputStore'):
            rep.ob('K11b', f'raw-config-access/{rel}@{unparse(stmt_of(n), 60)}', False, 'the raw configuration of the input store is accessed outside InputStore', f'{rel}:{n.lineno}')
    rep.ob('K11b', 'raw-config-only-inside-InputStore', True)
    # no parser is built with defaults; no .get(..., default) on parsers
    for rel, c in core.all_nodes(ast.Call):
        if call_name(c) == 'ConfigParser':
            extra = [k.arg for k in c.keywords if k.arg != 'interpolation']
            plain = any(k.arg == 'interpolation' and _const(k.value, None) for k in c.keywords)
            rep.ob('K11e', f'no-interpolation/{rel}@{enclosing_function(c).name if enclosing_function(c) else "module"}', plain,
                   f'{unparse(c)} keeps the default %-interpolation: `%(name)s` in a supplied value is replaced by another key\'s text before any validator sees it, and a bare % raises',
                   f'{rel}:{c.lineno}')
            rep.ob('K11e', f'parser-options/{rel}@{enclosing_function(c).name if enclosing_function(c) else "module"}',
                   not extra and not c.args,
                   f'{unparse(c)} sets {extra or "positional defaults"}: defaults make an absent input appear supplied, and comment/delimiter options make text read from the file differ from the same text typed at a prompt',
                   f'{rel}:{c.lineno}')
    # K11c valid/value agreement
    base_valid = core.method('Input', 'valid')
    for name, ci in core.classes.classes.items():
        if not core.classes.is_subclass(name, 'Input'):
            continue
        if 'valid' in ci.methods:
            m = ci.methods['valid']
            param = m.args.args[1].arg
            calls_value = [c for c in calls_in(m) if call_name(c) == 'value' and (attr_text(c.func.value) == 'self' or (isinstance(c.func.value, ast.Call) and call_name(c.func.value) == 'super'))]
            rets = [r for r in ast.walk(m) if isinstance(r, ast.Return)]
            # every handler of ValueError/KeyError returns False
            hs = [h for t in ast.walk(m) if isinstance(t, ast.Try) for h in t.handlers]
            hs_ok = all(len(h.body) == 1 and isinstance(h.body[0], ast.Return) and _const(h.body[0].value, False) for h in hs)
            rep.ob('K11c', f'{name}.valid/consults-value', bool(calls_value) and hs_ok and not any(_const(r.value, True) and r is m.body[0] for r in rets),
                   f'{name}.valid() does not go through its own value() conversion (or accepts without looking)', f'{ci.rel}:{m.lineno}')
            # sibling agreement: every lookup that can fail in this class's value() is also tried, under a False-returning handler, in valid()
            if 'value' in ci.methods:
                for sub in [x for x in ast.walk(ci.methods['value']) if isinstance(x, ast.Subscript) and attr_text(x.value) and attr_text(x.value).startswith('self.')]:
                    txt = unparse(sub)
                    norm = lambda u: u.replace('.__members__[', '[')          # E.__members__[k] and E[k] are the same lookup
                    tried = [t for t in ast.walk(m) if isinstance(t, ast.Try) and any(norm(unparse(x)) == norm(txt) for b in t.body for x in ast.walk(b))
                             and all(len(h.body) == 1 and isinstance(h.body[0], ast.Return) and _const(h.body[0].value, False) for h in t.handlers)]
                    rep.ob('K11c', f'{name}.valid/tries:{txt}', bool(tried),
                           f'{name}.value() performs the lookup {txt}, which can fail, but {name}.valid() does not try it: valid() and value() disagree', f'{ci.rel}:{m.lineno}')
        if 'value' in ci.methods and name != 'Input':
            m = ci.methods['value']
            # conversion failures must surface as ValueError (what valid() catches) or KeyError handled by the class's own valid
            raises = [r for r in ast.walk(m) if isinstance(r, ast.Raise)]
            ok = all(isinstance(r.exc, ast.Call) and call_name(r.exc) == 'ValueError' for r in raises)
            rep.ob('K11c', f'{name}.value/raises-ValueError-only', ok, f'{name}.value() raises something valid() does not catch', f'{ci.rel}:{m.lineno}')
    # K11d' the numeric converters hand the text to float()/int() as it is (surrounding white space apart): a converter that
    # first deletes or swaps characters ("thousands separators", "decimal comma") turns text the user never meant as that
    # number - "4,000" as 4.0, "," as blank = 0.0 - into a value instead of reporting it invalid
    for cname_, c2 in core.classes.classes.items():
        if c2.rel != 'habutax/inputs.py' or 'value' not in c2.methods:
            continue
        mv = c2.methods['value']
        if not any(isinstance(c.func, ast.Name) and c.func.id in ('float', 'int') for c in calls_in(mv)):
            continue
        edits = [c for c in calls_in(mv) if isinstance(c.func, ast.Attribute) and c.func.attr in ('replace', 'translate', 'sub', 'subn', 'split', 'rsplit', 'partition', 'removeprefix', 'removesuffix', 'join', 'lstrip', 'rstrip')
                 or (isinstance(c.func, ast.Attribute) and c.func.attr == 'strip' and c.args)]
        rep.ob('K11d', f'{cname_}.value/text-converted-as-written', not edits,
               f'{cname_}.value() edits the text before converting it (`{unparse(edits[0], 50) if edits else ""}`): text that is not a numeral of the accepted form becomes a number '
               '("4,000" -> 4.0, "," -> blank -> 0.0) instead of being reported as invalid', f'{c2.rel}:{edits[0].lineno}' if edits else f'{c2.rel}:{mv.lineno}')
    # K11d finiteness of float inputs
    fi = core.classes.classes.get('FloatInput')
    if fi is None or 'value' not in fi.methods:
        raise AnalysisError('FloatInput.value not found (anchor vanished)')
    m = fi.methods['value']
    # every input class that converts with float() itself (FloatInput, and any subclass that overrides value() instead of
    # delegating to it) tests the result for finiteness
    floaty = ['FloatInput'] + [cn for cn, c2 in core.classes.classes.items() if cn != 'FloatInput' and c2.rel == fi.rel and 'value' in c2.methods
                               and any(isinstance(c.func, ast.Name) and c.func.id == 'float' for c in calls_in(c2.methods['value']))]
    for cname_ in floaty:
      finfo = core.func(fi.rel, cname_, 'value')
      g = finfo.cfg
      for r in [n for n in g.nodes if n.kind == 'stmt' and isinstance(n.ast, ast.Return)]:
        v = r.ast.value
        if isinstance(v, ast.Constant):
            continue
        uses_float = any(isinstance(c.func, ast.Name) and c.func.id == 'float' for c in calls_in(v)) or isinstance(v, ast.Name)
        if not uses_float:
            continue
        facts = g.branch_facts(r)
        # finite = isfinite holds, or BOTH "not nan" and "not inf" hold (isinf alone lets "nan" through, isnan alone lets "inf" through)
        not_nan = any('isnan' in txt and pol is False for txt, pol in facts)
        not_inf = any('isinf' in txt and pol is False for txt, pol in facts)
        fin = any('isfinite' in txt and pol is True for txt, pol in facts) or (not_nan and not_inf)
        if cname_ != 'FloatInput':
            rep.ob('K11d', f'{cname_}/float-input-finite', fin,
                   f'{cname_}.value() converts with float() itself and returns the result without a finiteness test (it overrides FloatInput.value instead of delegating to it): "nan", "inf" '
                   'and "1e999" validate and reach the lines', f'{fi.rel}:{r.ast.lineno}')
            continue
        rep.ob('K11d', 'float-input-finite', fin,
               'FloatInput.value() returns float(text) without a finiteness test: "nan", "inf" and "1e999" validate and reach the lines (comparisons with nan are silently false)', f'{fi.rel}:{r.ast.lineno}')


# ---------------------------------------------------------------- K16 determinism
NONDET_MODULES = {'random', 'time', 'datetime', 'secrets', 'uuid'}


def k16_determinism(core, rep, extra_modules=()):
    rels = list(core.rels)
    n = 0
    for rel in rels + list(extra_modules):
        mod = core.tree.module(rel)
        for x in ast.walk(mod):
            if isinstance(x, (ast.Import, ast.ImportFrom)):
                names = [a.name.split('.')[0] for a in x.names] if isinstance(x, ast.Import) else [(x.module or '').split('.')[0]]
                for nm in names:
                    n += 1
                    rep.ob('K16', f'{rel}/import:{nm}', nm not in NONDET_MODULES, f'{rel} imports {nm}: results must not depend on time or randomness', f'{rel}:{x.lineno}')
            if isinstance(x, ast.Call) and isinstance(x.func, ast.Name) and x.func.id in ('hash', 'id'):
                rep.ob('K16', f'{rel}/call:{x.func.id}@{unparse(x, 40)}', False, f'{unparse(x)}: object identity / hash order must not influence results', f'{rel}:{x.lineno}')
            if isinstance(x, ast.Attribute) and attr_text(x) in ('os.environ', 'os.listdir', 'os.scandir', 'os.getpid'):
                rep.ob('K16', f'{rel}/{attr_text(x)}', False, f'{attr_text(x)} used in {rel}', f'{rel}:{x.lineno}')
    # local sets whose iteration order reaches a result: a set of texts is ordered by the per-process hash seed, so joining
    # or listing it gives a different text from run to run
    def _is_set(e):
        return isinstance(e, (ast.Set, ast.SetComp)) or (isinstance(e, ast.Call) and isinstance(e.func, ast.Name) and e.func.id in ('set', 'frozenset'))
    for rel in rels + list(extra_modules):
        mod = core.tree.module(rel)
        for fn in [x for x in ast.walk(mod) if isinstance(x, (ast.FunctionDef, ast.Lambda))]:
            sets = {t_.id for x in ast.walk(fn) if isinstance(x, ast.Assign) and _is_set(x.value) for t_ in x.targets if isinstance(t_, ast.Name)}
            for x in ast.walk(fn):
                it = None
                if isinstance(x, ast.For):
                    it = x.iter
                elif isinstance(x, ast.comprehension):
                    it = x.iter
                elif isinstance(x, ast.Call):
                    nm = x.func.id if isinstance(x.func, ast.Name) else x.func.attr if isinstance(x.func, ast.Attribute) else None
                    if nm in ('join', 'list', 'tuple', 'enumerate', 'zip', 'iter', 'next', 'map', 'filter', 'reversed') and x.args:
                        it = x.args[0] if nm != 'zip' else next((a for a in x.args if (isinstance(a, ast.Name) and a.id in sets) or _is_set(a)), None)
                if it is None:
                    continue
                if (isinstance(it, ast.Name) and it.id in sets) or _is_set(it):
                    n += 1
                    rep.ob('K16', f'{rel}/set-order@{unparse(x, 50) if not isinstance(x, ast.comprehension) else unparse(it, 50)}', False,
                           f'`{unparse(it, 40)}` is a set and `{unparse(x, 60) if not isinstance(x, ast.comprehension) else unparse(it, 40)}` walks it in its internal order: for texts that order changes '
                           'with the interpreter\'s hash seed, so the value differs from one run to the next on the same inputs (use sorted(), or a list)', f'{rel}:{it.lineno}')
    # iteration over set-typed solver state
    s = core.solver
    set_attrs = set()
    for st in ast.walk(s.init.node):
        if isinstance(st, ast.Assign) and isinstance(st.value, ast.Call) and call_name(st.value) == 'set':
            for t in st.targets:
                if self_attr(t):
                    set_attrs.add(self_attr(t))
    for rel, x in core.all_nodes((ast.For, ast.comprehension, ast.Call)):
        it = None
        if isinstance(x, (ast.For, ast.comprehension)):
            it = x.iter
        elif isinstance(x.func, ast.Name) and x.func.id in ('sorted', 'list', 'tuple', 'min', 'max', 'next', 'iter') and x.args:
            it = x.args[0]
        elif isinstance(x.func, ast.Attribute) and x.func.attr in ('join', 'extend') and x.args:
            it = x.args[0]
        if it is not None and self_attr(it) in set_attrs and not (isinstance(x, ast.Call) and getattr(x.func, 'id', '') == 'sorted'):
            rep.ob('K16', f'{rel}/set-iteration@{unparse(x, 50) if not isinstance(x, ast.comprehension) else unparse(it)}', False,
                   f'the set self.{self_attr(it)} is iterated: its order is not a function of the inputs', f'{rel}:{it.lineno}')
    rep.ob('K16', 'sets-only-tested-for-membership', True, sample={'set_attributes': sorted(set_attrs)})
    if n < 10:
        raise AnalysisError('determinism lint saw fewer than 10 imports (extractor lost sites)')


# ---------------------------------------------------------------- K17 / K18 prompting
def k17_prompt_demand(core, rep):
    s = core.solver
    sv = s.solve
    # the loop that asks: iterates over the input tracker's unmet dependencies and passes the waiters of the same name
    calls = [c for c in calls_in(sv.node) if call_name(c) == '_attempt_input']
    for c in calls:
        loop = c
        while loop is not None and not isinstance(loop, ast.For):
            loop = getattr(loop, 'parent', None)
        ok_iter = loop is not None and any(call_name(x) == 'unmet_dependencies' and self_attr(x.func.value) == s.input_tracker for x in calls_in(loop.iter))
        rep.ob('K17', 'asks-only-registered-missing-inputs', ok_iter,
               'solve() asks for inputs that are not taken from the input tracker\'s unmet dependencies', _w(sv, c))
        if ok_iter and isinstance(loop.target, ast.Name) and len(c.args) == 2:
            name = loop.target.id
            nb = c.args[1]
            src = None
            if isinstance(nb, ast.Name):
                for st in loop.body:
                    if isinstance(st, ast.Assign) and isinstance(st.targets[0], ast.Name) and st.targets[0].id == nb.id:
                        src = st.value
            else:
                src = nb
            ok = unparse(c.args[0]) == name and isinstance(src, ast.Call) and call_name(src) == 'unmet_dependents' \
                and self_attr(src.func.value) == s.input_tracker and [unparse(a) for a in src.args] == [name]
            rep.ob('K17', 'quotes-the-waiters-of-that-input', ok, 'the lines quoted as needing an input are not the registered waiters of that same input', _w(sv, c))
    # the input tracker is fed only by the MissingInput handler
    for rel, c in core.all_nodes(ast.Call):
        if call_name(c) == 'add_unmet' and self_attr(c.func.value) == s.input_tracker:
            fn = enclosing_function(c)
            h = s.handlers['MissingInput']
            inside = any(c in list(ast.walk(b)) for b in h.body)
            rep.ob('K17', f'input-tracker-fed-by-MissingInput-only/{fn.name}', inside, f'the input tracker is fed from {fn.name}() outside the MissingInput handler', f'{rel}:{c.lineno}')
    # MissingInput raised only by InputStore.__getitem__
    for rel, r in core.all_nodes(ast.Raise):
        if isinstance(r.exc, ast.Call) and call_name(r.exc) == 'MissingInput':
            fn = enclosing_function(r)
            cls = enclosing_class(r)
            rep.ob('K17', f'MissingInput-raised-by-the-store/{rel}:{fn.name}', cls is not None and cls.name == 'InputStore' and fn.name == '__getitem__',
                   f'MissingInput is raised in {fn.name}()', f'{rel}:{r.lineno}')


def k18_cli_store_identity(core, rep):
    f = core.func('habutax/__init__.py', None, 'solve')
    store = None
    for n in ast.walk(f.node):
        if isinstance(n, ast.Assign) and isinstance(n.value, ast.Call) and call_name(n.value) == 'InputStore' and isinstance(n.targets[0], ast.Name):
            store = n.targets[0].id
            rep.ob('K18', 'store-built-from-the-input-file', [unparse(a) for a in n.value.args] == ['args.input_file'], f'the input store is built from {unparse(n.value)}', _w(f, n))
    if store is None:
        raise AnalysisError('CLI solve(): InputStore construction not found (anchor vanished)')
    sol = [c for c in calls_in(f.node) if call_name(c) == 'Solver']
    ok = len(sol) == 1 and sol[0].args and unparse(sol[0].args[0]) == store
    rep.ob('K18', 'solver-gets-the-same-store', ok, 'the solver is not given the store object that is later written back', _w(f))
    wr = [c for c in calls_in(f.node) if call_name(c) == 'write' and attr_text(c.func.value) == store]
    ok = len(wr) >= 1 and all([unparse(a) for a in c.args] == ['args.input_file'] for c in wr)
    rep.ob('K18', 'writes-back-the-same-store', ok, 'write-back does not write the very store the solver mutated to the input file', _w(f))
    reass = [n for n in ast.walk(f.node) if isinstance(n, ast.Assign) and any(isinstance(t, ast.Name) and t.id == store for t in n.targets)]
    rep.ob('K18', 'store-not-rebound', len(reass) == 1, f'the variable {store} is rebound', _w(f))
    w = core.method('InputStore', 'write')
    g = w.cfg
    wr = [n for n in g.nodes if n.kind == 'stmt' and n.ast is not None and any(call_name(c) == 'write' and attr_text(c.func.value) == 'self.config' for c in calls_in(n.ast))]
    ok = bool(wr) and not g.paths_avoiding(g.entry, g.exit, {n.id for n in wr})
    rep.ob('K18', 'write-serialises-the-live-config', ok, 'InputStore.write() has a path that does not serialise self.config (the object __setitem__ updates): answers would be used for the run but never reach the file', _w(w))
    ci = core.classes.classes['InputStore']
    for c in calls_in(ci.node):
        bad = [k.arg for k in c.keywords if k.arg in ('fallback', 'vars')]
        if bad:
            rep.ob('K18', f'InputStore/no-fallback@{unparse(c, 50)}', False, f'InputStore uses a defaulting configuration read `{unparse(c)}`: "absent" and "blank" become indistinguishable', f'{ci.rel}:{c.lineno}')
    si = core.method('InputStore', '__setitem__')
    g2 = si.cfg
    sets = [n for n in g2.nodes if n.kind == 'stmt' and n.ast is not None and any(call_name(c) == 'set' and attr_text(c.func.value) == 'self.config' for c in calls_in(n.ast))]
    ok = bool(sets) and not g2.paths_avoiding(g2.entry, g2.exit, {n.id for n in sets})
    rep.ob('K18', 'setitem-always-stores', ok, 'InputStore.__setitem__ has a path on which the value is not stored in the configuration', _w(si))
    # prompt wiring: the prompt function is the module's prompt_input only with --prompt-missing
    pf = [n for n in ast.walk(f.node) if isinstance(n, ast.Assign) and isinstance(n.value, ast.IfExp) and unparse(n.value.test) == 'args.prompt_missing']
    ok = len(pf) == 1 and unparse(pf[0].value.body) == 'prompt_input' and _const(pf[0].value.orelse, None)
    rep.ob('K18', 'prompt-only-when-requested', ok, 'the prompt callback is not (prompt_input if --prompt-missing else None)', _w(f))


# ---------------------------------------------------------------- K19 / K20 interruption
def k19_writeback_finally(core, rep):
    f = core.func('habutax/__init__.py', None, 'solve')
    tries = [t for t in ast.walk(f.node) if isinstance(t, ast.Try) and any(call_name(c) == 'solve' for b in t.body for c in calls_in(b))]
    if not rep.ob('K19', 'solve-inside-try', len(tries) == 1, 'Solver.solve() is not called inside exactly one try statement of the CLI', _w(f)):
        return
    t = tries[0]
    fin = t.finalbody
    writes = [c for b in fin for c in calls_in(b) if call_name(c) == 'write']
    ok = len(writes) == 1
    rep.ob('K19', 'finally-writes-back', ok, 'the finally block of the CLI solve does not write the input store back', _w(f, t))
    if ok:
        w = writes[0]
        # conditions guarding the write inside finally
        conds = []
        n = getattr(w, 'parent', None)
        while n is not None and n is not t:
            if isinstance(n, ast.If):
                conds.append(unparse(n.test))
            n = getattr(n, 'parent', None)
        flag_locals = {m.targets[0].id for m in ast.walk(f.node) if isinstance(m, ast.Assign) and len(m.targets) == 1 and isinstance(m.targets[0], ast.Name)
                       and unparse(m.value) == 'args.writeback_input'
                       and sum(1 for m2 in ast.walk(f.node) if isinstance(m2, (ast.Assign, ast.AugAssign)) and any(isinstance(t_, ast.Name) and t_.id == m.targets[0].id
                               for t_ in (m2.targets if isinstance(m2, ast.Assign) else [m2.target]))) == 1}
        conds = ['args.writeback_input' if c_ in flag_locals else c_ for c_ in conds]      # a local assigned once from the switch stands for it
        rep.ob('K19', 'write-back-unconditional-but-for-the-flag', conds == ['args.writeback_input'],
               f'the write-back is guarded by {conds}; it must depend on --writeback-input only (not on success)', _w(f, w))
        # nothing the finally block looks at before the write may be bound only inside the try body: when solve() raised, such
        # a name is unbound and the UnboundLocalError pre-empts the write
        bound_in_try = {x.id for b in t.body for x in ast.walk(b) if isinstance(x, ast.Name) and isinstance(x.ctx, ast.Store)}
        before_try = set()
        for st in f.node.body:
            if st is t:
                break
            before_try |= {x.id for x in ast.walk(st) if isinstance(x, ast.Name) and isinstance(x.ctx, ast.Store)}
        risky = []
        done = False
        for st in fin:
            for x in ast.walk(st):
                if isinstance(x, ast.Name) and isinstance(x.ctx, ast.Load) and x.id in bound_in_try - before_try \
                        and (x.lineno, x.col_offset) <= (w.lineno, w.col_offset):
                    risky.append(x)
        rep.ob('K19', 'finally-reads-nothing-bound-in-the-try-before-the-write', not risky,
               f'the finally block reads `{risky[0].id if risky else ""}` before it writes the answers back; that name is bound only inside the try body, so when Solver.solve() raises '
               '(end of input, an unsupported form, a failing line) it is unbound and the UnboundLocalError replaces the write: every answer of the session is lost',
               f'habutax/__init__.py:{risky[0].lineno}' if risky else _w(f, w))
    # handlers of this try must not swallow
    for h in t.handlers:
        rep.ob('K19', f'handler-reraises/{"|".join(_handler_types(h))}', _is_reraise(h), 'a handler around Solver.solve() swallows the exception', _w(f, h))
    # between building the store and entering the try nothing interactive happens
    g = f.cfg
    store_stmt = next((n for n in g.nodes if n.kind == 'stmt' and isinstance(n.ast, ast.Assign) and isinstance(n.ast.value, ast.Call) and call_name(n.ast.value) == 'InputStore'), None)
    first_try = g.node_of(t.body[0])
    if store_stmt is None or first_try is None:
        raise AnalysisError('CLI solve(): store construction or try body not found')
    between = [n for n in g.nodes if n.kind == 'stmt' and n is not store_stmt and g.dominates(store_stmt, n) and g.dominates(n, first_try) and n is not first_try]
    risky = [n for n in between if any(call_name(c) in ('input', 'solve', 'prompt_input') for c in calls_in(n.ast))]
    rep.ob('K19', 'nothing-interactive-before-the-try', not risky, f'user interaction before the protected region: {[unparse(n.ast, 50) for n in risky]}', _w(f))
    # the solution is read inside the try too (a failing line definition propagates through finally)
    rep.ob('K19', 'finally-present', bool(fin), 'the CLI solve has no finally block', _w(f, t))


def k20_ctrl_c(core, rep):
    # Ctrl-C has to arrive as KeyboardInterrupt: the prompt turns it into "not supplied" and the finally block writes the answers
    # back.  Resetting the SIGINT disposition (signal.SIG_DFL / SIG_IGN, or a handler that exits) kills the process before either runs.
    sig = [(rel, c) for rel, c in core.all_nodes(ast.Call) if isinstance(c.func, ast.Attribute) and c.func.attr in ('signal', 'sigaction', 'set_wakeup_fd')
           and 'signal' in unparse(c.func.value) and c.args and 'SIGINT' in unparse(c.args[0])]
    rep.ob('K20', 'ctrl-c-stays-an-exception', not sig,
           f'`{unparse(sig[0][1], 60) if sig else ""}` changes what Ctrl-C does: the process is killed (or the signal swallowed) instead of raising KeyboardInterrupt, so neither the prompt\'s '
           'handler nor the write-back in the finally block runs and every answer of the session is lost', f'{sig[0][0]}:{sig[0][1].lineno}' if sig else '')
    f = core.func('habutax/__init__.py', None, 'prompt_input')
    inputs = [c for c in calls_in(f.node) if isinstance(c.func, ast.Name) and c.func.id == 'input']
    if not inputs:
        raise AnalysisError('prompt_input() does not call input() (anchor vanished)')
    for c in inputs:
        t = c
        while t is not None and not isinstance(t, ast.Try):
            t = getattr(t, 'parent', None)
        hs = [h for h in (t.handlers if t is not None else []) if 'KeyboardInterrupt' in _handler_types(h)]
        ok = len(hs) == 1 and len(hs[0].body) == 1 and isinstance(hs[0].body[0], ast.Return) and isinstance(hs[0].body[0].value, ast.Tuple) \
            and len(hs[0].body[0].value.elts) == 2 and _const(hs[0].body[0].value.elts[1], False)
        rep.ob('K20', 'ctrl-c-means-not-supplied', ok, 'Ctrl-C at the prompt is not converted into (None, False) "not supplied"', _w(f, c))
        if t is not None:
            broad = [h for h in t.handlers if any(x in ('Exception', 'BaseException', '<bare>', 'EOFError') for x in _handler_types(h))]
            rep.ob('K20', 'other-interruptions-propagate', not broad, 'prompt_input() swallows end-of-input or other errors instead of letting them reach the write-back', _w(f, c))
    rets = [r for r in ast.walk(f.node) if isinstance(r, ast.Return) and isinstance(r.value, ast.Tuple) and len(r.value.elts) == 2 and _const(r.value.elts[1], True)]
    g = f.cfg
    ok = bool(rets)
    for r in rets:
        node = g.node_of(r)
        # reached only when the loop condition `value is None or not missing.valid(value)` is false
        loops = [n for n in g.nodes if n.kind == 'F' and n.label == 'loop-exit' and g.dominates(n, node)]
        ok = ok and any('.valid(' in unparse(n.ast) for n in loops)
    rep.ob('K20', 'answer-returned-only-when-valid', ok, 'prompt_input() can return an answer that did not pass the input\'s valid()', _w(f))
    # the text that is validated, returned, stored and written back is what input() handed over: the same characters in the
    # input file would be kept as they are, so anything done to a typed answer (stripping quotes, blanks, case) makes typed and
    # file-supplied text differ
    for r in rets:
        var = r.value.elts[0]
        if isinstance(var, ast.Name):
            other = [x for x in ast.walk(f.node) if isinstance(x, (ast.Assign, ast.AugAssign))
                     and any(isinstance(t_, ast.Name) and t_.id == var.id for t_ in (x.targets if isinstance(x, ast.Assign) else [x.target]))
                     and not (isinstance(x, ast.Assign) and (_const(x.value, None) or (isinstance(x.value, ast.Call) and isinstance(x.value.func, ast.Name) and x.value.func.id == 'input')))]
            rep.ob('K20', 'answer-is-the-text-input()-returned', not other,
                   f'prompt_input() changes the typed text (`{unparse(other[0], 70) if other else ""}`): the same characters supplied in the input file are used as they are, so the result depends on '
                   'whether a value was typed or read', _w(f, other[0]) if other else _w(f))
    # ... and what is returned is the very text that passed: nothing rewrites it between the validating loop and the return
    for r in rets:
        var = r.value.elts[0]
        if not isinstance(var, ast.Name):
            rep.ob('K20', 'answer-returned-as-typed', False, f'prompt_input() returns {unparse(var, 40)} instead of the validated answer', _w(f, r))
            continue
        whiles = [w for w in ast.walk(f.node) if isinstance(w, ast.While) and '.valid(' in unparse(w.test)]
        after = [x for x in ast.walk(f.node) if isinstance(x, (ast.Assign, ast.AugAssign)) and whiles and x.lineno > max(w.end_lineno for w in whiles)
                 and any(isinstance(t_, ast.Name) and t_.id == var.id for t_ in (x.targets if isinstance(x, ast.Assign) else [x.target]))]
        rep.ob('K20', 'answer-returned-as-typed', not after,
               f'prompt_input() rewrites the validated answer before returning it (`{unparse(after[0], 70) if after else ""}`): what reaches the solver and the written-back file is not what '
               'passed validation - an accepted spelling of "yes" (true, 1, on) can come out as "no" and a gate the user affirmed is skipped', _w(f, after[0]) if after else _w(f))
    # ordering inside _attempt_input: answer -> (assert valid) -> store
    s = core.solver
    ai = core.func(s.rel, s.name, '_attempt_input')
    g = ai.cfg
    pc = next((n for n in g.nodes if n.kind == 'stmt' and isinstance(n.ast, ast.Assign) and isinstance(n.ast.value, ast.Call) and self_attr(n.ast.value.func) == s.prompt), None)
    store = next((n for n in g.nodes if n.kind == 'stmt' and isinstance(n.ast, ast.Assign) and isinstance(n.ast.targets[0], ast.Subscript) and self_attr(n.ast.targets[0].value) == s.input_store), None)
    if pc is None:
        raise AnalysisError('_attempt_input: prompt call not found')
    if not rep.ob('K20', 'answer-stored', store is not None, '_attempt_input() does not store the answer in the input store: an interruption loses it', _w(ai)):
        return
    pair_, _pc2, mid_ = _prompt_pair(ai.node, s.prompt)
    unpack = pair_ if mid_ is not None else None          # the second step of a two-step unpacking of the prompt's pair converts nothing
    between = [n for n in g.nodes if n.kind == 'stmt' and n not in (pc, store) and n.ast is not unpack and g.dominates(pc, n) and g.dominates(n, store)]
    ok = all(isinstance(n.ast, ast.Assert) for n in between)
    rep.ob('K20', 'answer-stored-immediately', ok, f'between receiving an answer and storing it _attempt_input() does more than assert validity: {[unparse(n.ast, 50) for n in between]}', _w(ai))


# ---------------------------------------------------------------- K21 typed values
def k21_typed_values(core, rep):
    f = core.method('TypedField', 'value')
    g = f.cfg
    rets = [n for n in g.nodes if n.kind == 'stmt' and isinstance(n.ast, ast.Return)]
    calls = [n for n in ast.walk(f.node) if isinstance(n, ast.Assign) and isinstance(n.value, ast.Call) and self_attr(n.value.func) == '_value']
    if len(calls) != 1 or not isinstance(calls[0].targets[0], ast.Name):
        raise AnalysisError('TypedField.value(): call of the value function not found (anchor vanished)')
    v = calls[0].targets[0].id
    # what is type-tested is what the definition answered: nothing converts it in between (rounding a subclass of float, a
    # text or a tuple first either coerces it silently or fails with an error that does not name the line)
    again = [n for n in ast.walk(f.node) if isinstance(n, (ast.Assign, ast.AugAssign)) and n is not calls[0]
             and any(isinstance(t_, ast.Name) and t_.id == v for t_ in (n.targets if isinstance(n, ast.Assign) else [n.target]))]
    rep.ob('K21a', 'type-test-on-the-raw-answer', not again,
           f'TypedField.value() rebinds the answer (`{unparse(again[0], 50) if again else ""}`) before it is type-tested: an answer of the wrong type is converted or fails inside the conversion '
           'instead of being rejected with the TypeError that names the line', _w(f, again[0]) if again else _w(f))
    for r in rets:
        txt = unparse(r.ast.value)
        facts = g.branch_facts(r)
        if txt == 'self._empty_value':
            doms = [n for n in g.nodes if n.kind == 'T' and n.label == '' and g.dominates(n, r)]
            ok = any(_none_or_blank(n.ast, v) for n in doms)
            rep.ob('K21a', 'blank-means-empty-value', ok, 'the empty value is returned for something other than None or blank text', _w(f, r.ast))
        elif txt == v:
            exact = (f'type({v}) is not self._type', False) in facts or (f'type({v}) is self._type', True) in facts \
                or (f'type({v}) != self._type', False) in facts or (f'type({v}) == self._type', True) in facts
            rep.ob('K21a', 'exact-type-test-before-return', exact,
                   f'TypedField.value() returns the computed value without an exact type(v) is self._type test (isinstance would let a bool into an integer line); guards: {sorted(map(str, facts))}', _w(f, r.ast))
        else:
            rep.ob('K21a', f'unexpected-return@{txt}', False, f'TypedField.value() returns {txt}', _w(f, r.ast))
    raises = [n for n in g.nodes if n.kind == 'stmt' and isinstance(n.ast, ast.Raise)]
    ok = any(isinstance(n.ast.exc, ast.Call) and call_name(n.ast.exc) == 'TypeError' and 'self.name()' in unparse(n.ast.exc) for n in raises)
    rep.ob('K21a', 'wrong-type-raises-TypeError-naming-the-line', ok, 'a wrongly typed result does not raise a TypeError that names the line', _w(f))
    # None/blank test shape
    tests = [unparse(n.ast) for n in g.nodes if n.kind == 'test']
    ok = any(f'{v} is None' in t_ and 'strip()' in t_ and 'isinstance' in t_ for t_ in tests)
    rep.ob('K21a', 'none-or-blank-test', ok, f'the None / blank-text test is missing or altered ({tests})', _w(f))
    # K21b rounding
    ff = core.func('habutax/fields.py', 'FloatField', 'value')
    rets = [r for r in ast.walk(ff.node) if isinstance(r, ast.Return)]
    ok = len(rets) == 1 and isinstance(rets[0].value, ast.Call) and getattr(rets[0].value.func, 'id', None) == 'round' \
        and len(rets[0].value.args) == 2 and unparse(rets[0].value.args[1]) == 'self._places'
    sup = [c for c in calls_in(ff.node) if call_name(c) == 'value' and isinstance(c.func.value, ast.Call) and call_name(c.func.value) == 'super']
    rep.ob('K21b', 'money-rounded-on-the-way-into-the-store', ok and len(sup) == 1,
           'FloatField.value() does not return round(<typed value>, self._places)', _w(ff))
    # the declared number of places is kept as declared (0 is a legitimate declaration: whole-dollar state lines)
    fi = core.func('habutax/fields.py', 'FloatField', '__init__')
    pl = [n for n in ast.walk(fi.node) if isinstance(n, ast.Assign) and any(self_attr(t) == '_places' for t in n.targets)]
    params = [a.arg for a in fi.node.args.args]
    def _keeps(e):
        if isinstance(e, ast.Name) and e.id in params:
            return True
        if isinstance(e, ast.IfExp) and isinstance(e.test, ast.Compare) and len(e.test.ops) == 1 and isinstance(e.test.ops[0], (ast.Is, ast.IsNot)) \
                and isinstance(e.test.left, ast.Name) and e.test.left.id in params and unparse(e.test.comparators[0]) == 'None':
            kept = e.orelse if isinstance(e.test.ops[0], ast.Is) else e.body
            return isinstance(kept, ast.Name) and kept.id == e.test.left.id
        return False
    rep.ob('K21b', 'declared-places-kept-as-declared', len(pl) == 1 and _keeps(pl[0].value),
           f'FloatField.__init__ stores `{unparse(pl[0].value) if pl else None}` as the number of places instead of the declared value: a declaration the expression maps elsewhere '
           '(`places or N` turns the declared 0 of a whole-dollar line into N) is rounded and printed with the wrong precision', f'habutax/fields.py:{(pl[0] if pl else fi.node).lineno}')
    others = [(rel, n) for rel, n in core.all_nodes(ast.Attribute) if n.attr == '_places' and isinstance(n.ctx, ast.Store) and not (pl and n in pl[0].targets)]
    rep.ob('K21b', 'places-set-only-by-the-constructor', not others, 'the number of places of a line is rewritten after construction', f'{others[0][0]}:{others[0][1].lineno}' if others else None)
    # K21c nothing bypasses the choke point
    for rel, n in core.all_nodes(ast.Attribute):
        if n.attr == '_value' and isinstance(getattr(n, 'parent', None), ast.Call) and n.parent.func is n:
            cls = enclosing_class(n)
            fn = enclosing_function(n)
            rep.ob('K21c', f'_value-called-only-by-TypedField.value/{rel}:{fn.name}', cls is not None and cls.name == 'TypedField' and fn.name == 'value',
                   f'the raw value function is called from {fn.name}()', f'{rel}:{n.lineno}')
    for name, ci in core.classes.classes.items():
        if name != 'TypedField' and core.classes.is_subclass(name, 'TypedField') and 'value' in ci.methods and name != 'FloatField':
            rep.ob('K21c', f'no-override/{name}.value', False, f'{name} overrides value() and can bypass the type check', ci.rel)
    # K21e empty values
    want = {'StringField': ("''", 'str'), 'BooleanField': ('False', 'bool'), 'IntegerField': ('0', 'int'), 'FloatField': ('0.0', 'float'), 'EnumField': ('None', None)}
    for name, (empty, ty) in want.items():
        ci = core.classes.classes.get(name)
        if ci is None or '__init__' not in ci.methods:
            raise AnalysisError(f'{name}.__init__ not found (anchor vanished)')
        init = ci.methods['__init__']
        ev = [n for n in ast.walk(init) if isinstance(n, ast.Assign) and self_attr(n.targets[0]) == '_empty_value']
        ok = len(ev) == 1 and unparse(ev[0].value) == empty
        rep.ob('K21e', f'{name}/empty-value', ok, f'{name} declares the empty value {unparse(ev[0].value) if ev else None} instead of {empty}', f'{ci.rel}:{init.lineno}')
        sup = [c for c in calls_in(init) if call_name(c) == '__init__' and isinstance(c.func.value, ast.Call)]
        params = [a.arg for a in init.args.args]
        vf = 'value_fn' if 'value_fn' in params else None
        handed = len(sup) == 1 and len(sup[0].args) >= 2 and isinstance(sup[0].args[1], ast.Name) and sup[0].args[1].id == vf \
            and not any(isinstance(x, (ast.FunctionDef, ast.Lambda)) for x in ast.walk(init) if x is not init) \
            and not any(isinstance(x, ast.Assign) and any(isinstance(t, ast.Name) and t.id == vf for t in x.targets) for x in ast.walk(init))
        rep.ob('K21e', f'{name}/definition-handed-on-unchanged', handed,
               f'{name}.__init__ does not pass the line definition it was given straight to TypedField (it wraps or replaces it): values can be converted before the type check sees them', f'{ci.rel}:{init.lineno}')
        if ty is not None:
            ok = len(sup) == 1 and len(sup[0].args) == 3 and unparse(sup[0].args[2]) == ty
            rep.ob('K21e', f'{name}/declared-type', ok, f'{name} passes {unparse(sup[0].args[2]) if sup and len(sup[0].args) == 3 else None} as its type instead of {ty}', f'{ci.rel}:{init.lineno}')
    # K21d mirror table of InputForm
    f = core.func('habutax/form.py', 'InputForm', '__init__')
    table = {}
    for n in ast.walk(f.node):
        if isinstance(n, ast.If):
            t = n.test
            classes = []
            if isinstance(t, ast.Compare) and isinstance(t.left, ast.Call) and getattr(t.left.func, 'id', None) == 'type':
                c = t.comparators[0]
                classes = [unparse(e) for e in c.elts] if isinstance(c, (ast.List, ast.Tuple)) else [unparse(c)]
            made = [call_name(c) for b in n.body for c in calls_in(b) if call_name(c) and call_name(c).endswith('Field')]
            for cl in classes:
                table[cl] = made[0] if made else None
    want = {'StringInput': 'StringField', 'SSNInput': 'StringField', 'BooleanInput': 'BooleanField', 'IntegerInput': 'IntegerField',
            'FloatInput': 'FloatField', 'EnumInput': 'EnumField'}
    def value_type(cls):
        return input_value_kinds(core, cls)
    field_type = {'StringField': {'str'}, 'BooleanField': {'bool'}, 'IntegerField': {'int'}, 'FloatField': {'float'}, 'EnumField': {'enum', 'NoneType'}}
    for cl, fld in want.items():
        rep.ob('K21d', f'mirror/{cl}', table.get(cl) == fld, f'InputForm mirrors {cl} with {table.get(cl)} instead of {fld}', _w(f))
        vt = value_type(cl)
        if vt is not None:
            vt2 = set(vt)
            ok = vt2 <= field_type[fld] or (cl == 'FloatInput' and vt2 <= {'float'}) or (cl == 'SSNInput' and vt2 <= {'str'})
            rep.ob('K21d', f'value-type/{cl}', ok, f'{cl}.value() yields {sorted(vt)} but its mirror line {fld} accepts {sorted(field_type[fld])}', core.classes.classes[cl].rel)
    for cl in table:
        rep.ob('K21d', f'mirror-known/{cl}', cl in want, f'InputForm has an arm for {cl} that the analyser has no expectation for', _w(f))
    has_else_raise = any(isinstance(n, ast.Raise) and isinstance(n.exc, ast.Call) and call_name(n.exc) == 'TypeError' for n in ast.walk(f.node))
    rep.ob('K21d', 'unknown-input-class-raises', has_else_raise, 'InputForm silently ignores an input class it has no mirror for', _w(f))
    # mirror lines simply read the input
    fn = [n for n in ast.walk(f.node) if isinstance(n, ast.FunctionDef) and n is not f.node]
    ok = len(fn) == 1 and len(fn[0].body) == 1 and isinstance(fn[0].body[0], ast.Return) and isinstance(fn[0].body[0].value, ast.Subscript)
    rep.ob('K21d', 'mirror-line-returns-the-input', ok, 'the mirror line of an input form does not simply return the input value', _w(f))
    sup = [c for c in calls_in(f.node) if call_name(c) == '__init__' and isinstance(c.func.value, ast.Call)]
    ok = len(sup) == 1 and len(sup[0].args) == 4 and unparse(sup[0].args[2]) == 'fields' and unparse(sup[0].args[3]) == '[]'
    rep.ob('K21d', 'mirror-lines-are-required', ok, 'InputForm does not register its mirror lines as the required lines', _w(f))


# ---------------------------------------------------------------- K22 solution round trip (agreement clauses)
def k22_solution_agreement(core, rep):
    cli = core.func('habutax/__init__.py', None, 'solve')
    fp = core.func('habutax/__init__.py', None, 'fill_pdfs')
    # writer: solution['habutax'] = {'tax_year': args.year, ...}
    w = [n for n in ast.walk(cli.node) if isinstance(n, ast.Assign) and isinstance(n.targets[0], ast.Subscript) and isinstance(n.value, ast.Dict)]
    if len(w) != 1:
        raise AnalysisError('CLI solve(): the statement attaching the tax year to the solution was not found')
    sec_w = w[0].targets[0].slice
    keys_w = {k.value: v for k, v in zip(w[0].value.keys, w[0].value.values) if isinstance(k, ast.Constant)}
    r = [c for c in calls_in(fp.node) if call_name(c) in ('getint', 'get', 'getfloat')]
    if len(r) != 1:
        raise AnalysisError('fill_pdfs(): the read of the tax year was not found')
    sec_r, key_r = r[0].args[0], r[0].args[1]

    def const_of(e, fnode):
        if isinstance(e, ast.Constant):
            return e.value
        if isinstance(e, ast.Name):
            mod = core.mods['habutax/__init__.py']
            for n in mod.body:
                if isinstance(n, ast.Assign) and any(isinstance(t, ast.Name) and t.id == e.id for t in n.targets) and isinstance(n.value, ast.Constant):
                    return n.value.value
        return None
    sw, sr, kr = const_of(sec_w, cli.node), const_of(sec_r, fp.node), const_of(key_r, fp.node)
    # every solution that is written - complete or partial - says which year it was solved for, and the reader takes the year
    # from the file only (a default year would read a year-less file with some year's forms)
    cond = [p_ for p_ in _parents(w[0]) if isinstance(p_, (ast.If, ast.Try, ast.While, ast.For, ast.With)) and p_ is not cli.node]
    rep.ob('K22a', 'year-written-into-every-solution', not cond,
           f'the CLI attaches the tax year only under a condition (`{unparse(getattr(cond[0], "test", cond[0]), 40) if cond else ""}`): a solution written on the other branch (a partial one) carries no '
           'year and fill-pdfs cannot know which year\'s forms it was solved with', _w(cli, w[0]))
    lenient = [k.arg for k in r[0].keywords if k.arg in ('fallback', 'vars', 'raw')] + (['positional default'] if len(r[0].args) > 2 else [])
    rep.ob('K22a', 'year-read-from-the-file-only', not lenient,
           f'fill-pdfs reads the tax year with {lenient}: a solution without the year is silently read with the forms of a default year', _w(fp, r[0]))
    rep.ob('K22a', 'year-section-agrees', sw is not None and sw == sr, f'the solution writes its metadata to section {sw!r} but fill-pdfs reads {sr!r}', _w(fp))
    rep.ob('K22a', 'year-key-agrees', kr in keys_w and unparse(keys_w.get(kr)) == 'args.year' and call_name(r[0]) == 'getint',
           f'fill-pdfs reads {kr!r} with {call_name(r[0])}() but the solution writes {sorted(keys_w)} (tax year from {unparse(keys_w.get(kr)) if kr in keys_w else None})', _w(fp))
    yvar = None
    for n in ast.walk(fp.node):
        if isinstance(n, ast.Assign) and n.value is r[0] and isinstance(n.targets[0], ast.Name):
            yvar = n.targets[0].id
    pf = [c for c in calls_in(fp.node) if call_name(c) == 'PDFFiller']
    # the variable holds the recorded year on every path: the read from the solution is its only definition
    other_defs = [x for x in ast.walk(fp.node) if isinstance(x, (ast.Assign, ast.AugAssign, ast.AnnAssign, ast.NamedExpr, ast.For))
                  and any(isinstance(t, ast.Name) and t.id == yvar for t in ast.walk(x.targets[0] if isinstance(x, ast.Assign) else x.target))
                  and not (isinstance(x, ast.Assign) and x.value is r[0])]
    ok = len(pf) == 1 and len(pf[0].args) >= 2 and unparse(pf[0].args[1]) == f'forms.available_forms[{yvar}]' and not other_defs
    rep.ob('K22a', 'that-years-forms-interpret-it', ok,
           'fill-pdfs does not hand the forms of the recorded tax year to the filler' + (f' (the year variable is also set by `{unparse(other_defs[0], 60)}`)' if other_defs else ''), _w(fp, other_defs[0] if other_defs else None))
    rm = [c for c in calls_in(fp.node) if call_name(c) == 'remove_section']
    ok = len(rm) == 1 and const_of(rm[0].args[0], fp.node) == sr
    rep.ob('K22a', 'metadata-section-removed-before-filling', ok, 'the metadata section is not removed before the filler interprets sections as forms', _w(fp))
    sv = [c for c in calls_in(cli.node) if call_name(c) == 'Solver']
    ok = len(sv) == 1 and any(unparse(a) == 'forms.available_forms[args.year]' for a in sv[0].args)
    rep.ob('K22a', 'solved-with-the-recorded-year', ok, 'the solver is not built from forms.available_forms[args.year], the year written into the solution', _w(cli))
    # K22b per-type to_string / from_string
    for name in ('StringField', 'BooleanField', 'IntegerField', 'FloatField', 'EnumField'):
        for m in ('to_string', 'from_string'):
            c, node = core.classes.find_method(name, m)
            ok = node is not None and c.name != 'Field' and not any(isinstance(x, ast.Raise) for x in ast.walk(node))
            rep.ob('K22b', f'{name}.{m}/implemented', ok, f'{name}.{m}() is the raising base implementation', c.rel if c else '')
    # text and whole-number lines are written and read verbatim: str(value) out, the line's type applied to the text in
    for name in ('StringField', 'IntegerField'):
        c1, n1 = core.classes.find_method(name, 'to_string')
        c2, n2 = core.classes.find_method(name, 'from_string')
        ok = n1 is not None and len([x for x in n1.body if not (isinstance(x, ast.Expr) and isinstance(x.value, ast.Constant))]) == 1 \
            and unparse(n1.body[-1]) == f'return str({n1.args.args[1].arg})'
        rep.ob('K22b', f'{name}.to_string/verbatim', ok,
               f'{name}.to_string() (in {c1.name if c1 else "?"}) is not `return str(value)`: the text in the solution differs from the stored value (line breaks replaced, say), so the line as reported '
               'is not what its definition yields and does not read back', f'{c1.rel}:{n1.lineno}' if n1 is not None else '')
        ok = n2 is not None and unparse(n2.body[-1]) in (f'return self._type({n2.args.args[1].arg})',)
        rep.ob('K22b', f'{name}.from_string/verbatim', ok, f'{name}.from_string() (in {c2.name if c2 else "?"}) is not `return self._type(string)`', f'{c2.rel}:{n2.lineno}' if n2 is not None else '')
    ci = core.classes.classes['FloatField']
    ts, fs = ci.methods.get('to_string'), ci.methods.get('from_string')
    if ts is not None:
        vp_ = ts.args.args[1].arg
        rebound = [x for x in ast.walk(ts) if isinstance(x, (ast.Assign, ast.AugAssign)) and any(isinstance(t_, ast.Name) and t_.id == vp_ for t_ in (x.targets if isinstance(x, ast.Assign) else [x.target]))]
        fmt = [x for x in ast.walk(ts) if isinstance(x, ast.FormattedValue)]
        ok = not rebound and len([x for x in fmt if x.format_spec is not None]) == 1 and all(isinstance(x.value, ast.Name) and x.value.id in (vp_,) or 'self._places' in unparse(x.value) for x in fmt)
        rep.ob('K22b', 'FloatField.to_string/formats-the-value-itself', ok,
               f'FloatField.to_string() changes the amount before formatting it (`{unparse(rebound[0], 50) if rebound else unparse(ts.body[-1], 50)}`): a sign or digits are lost on the way into the solution '
               '(lines kept to 3 or 5 places hold small negative values that are not zero)', f'{ci.rel}:{ts.lineno}')
    if fs is not None:
        # what is read back is rounded exactly like what was stored: round(float(text), places), the operation FloatField.value
        # applies - any other scheme (scaling by 10**places first) differs from it for some magnitudes
        sp_ = fs.args.args[1].arg
        rets_ = [x for x in ast.walk(fs) if isinstance(x, ast.Return)]
        def _resolve(e, depth=0):
            if isinstance(e, ast.Name) and e.id != sp_ and depth < 3:
                asg = [x for x in ast.walk(fs) if isinstance(x, ast.Assign) and len(x.targets) == 1 and isinstance(x.targets[0], ast.Name) and x.targets[0].id == e.id]
                if len(asg) == 1:
                    return _resolve(asg[0].value, depth + 1)
            return e
        ok_r = False
        if len(rets_) == 1 and isinstance(rets_[0].value, ast.Call) and getattr(rets_[0].value.func, 'id', None) == 'round' and len(rets_[0].value.args) == 2:
            a0 = _resolve(rets_[0].value.args[0])
            ok_r = unparse(rets_[0].value.args[1]) == 'self._places' and isinstance(a0, ast.Call) and getattr(a0.func, 'id', None) == 'float' and len(a0.args) == 1 \
                and unparse(_resolve(a0.args[0])) in (sp_, f'{sp_}.strip()')
        rep.ob('K22b', 'FloatField.from_string/rounds-like-value()', ok_r,
               f'FloatField.from_string() returns `{unparse(rets_[0].value, 60) if rets_ else None}`, not round(float(text), self._places) - the rounding FloatField.value() applied when the amount '
               'was stored: for some magnitudes the amount read back differs from the amount written', f'{ci.rel}:{fs.lineno}')
    ok = ts is not None and fs is not None and 'self._places' in unparse(ts) and 'self._places' in unparse(fs) \
        and any(isinstance(x, ast.JoinedStr) for x in ast.walk(ts))
    rep.ob('K22b', 'FloatField/same-places-both-ways', ok, 'FloatField.to_string and from_string do not use the same number of decimal places', ci.rel)
    if ts is not None:
        specs = [unparse(x.format_spec) for x in ast.walk(ts) if isinstance(x, ast.FormattedValue) and x.format_spec is not None]
        rep.ob('K22b', 'FloatField/fixed-point-format', any('self._places' in sp and sp.rstrip("'\"").endswith('f') for sp in specs),
               f'FloatField.to_string formats with {specs}: exponent or general formats do not read back to the rounded value', ci.rel)
    ce = core.classes.classes['EnumField']
    ts, fs = ce.methods.get('to_string'), ce.methods.get('from_string')
    ok = ts is not None and fs is not None and any(_const(r.value, '') for r in ast.walk(ts) if isinstance(r, ast.Return)) \
        and any(_const(r.value, None) for r in ast.walk(fs) if isinstance(r, ast.Return)) \
        and any(isinstance(r.value, ast.Subscript) and 'enum()' in unparse(r.value.value) for r in ast.walk(fs) if isinstance(r, ast.Return))
    rep.ob('K22b', 'EnumField/blank-and-member-round-trip', ok, 'EnumField does not map None<->"" and member<->enum()[name]', ce.rel)
    cb = core.classes.classes['BooleanField']
    fsb = cb.methods.get('from_string')
    ok = fsb is not None and "== 'true'" in unparse(fsb) and 'lower()' in unparse(fsb)
    rep.ob('K22b', 'BooleanField/reads-str(bool)', ok, 'BooleanField.from_string does not recognise the text that str(True) writes', cb.rel)
    # enum.make gives str(member) == member name
    mk = core.func('habutax/enum.py', None, 'make')
    rets = [r for r in ast.walk(mk.node) if isinstance(r, ast.Return)]
    ok = len(rets) == 1 and isinstance(rets[0].value, ast.Call) and call_name(rets[0].value) == 'Enum' and any(k.arg == 'type' and unparse(k.value) == 'StringyEnum' for k in rets[0].value.keywords)
    rep.ob('K22b', 'enum.make/members-print-their-name', ok, 'enum.make() no longer builds enumerations whose str() is the member name that from_string looks up', _w(mk))
    se = core.classes.classes.get('StringyEnum')
    ok = se is not None and '__str__' in se.methods and unparse(se.methods['__str__'].body[-1]) == 'return self.name'
    rep.ob('K22b', 'StringyEnum.__str__/is-the-name', ok, 'StringyEnum.__str__ does not return self.name', se.rel if se else '')
    # the filler re-types every entry through the line definition
    rf = core.method('PDFFiller', '_read_form_fields')
    st = [n for n in ast.walk(rf.node) if isinstance(n, ast.Assign) and isinstance(n.targets[0], ast.Subscript) and self_attr(n.targets[0].value) == '_values']
    ok = len(st) == 1 and isinstance(st[0].value, ast.Call) and call_name(st[0].value) == 'from_string'
    rep.ob('K22b', 'filler-retypes-through-from_string', ok, 'the filler stores solution text without converting it through the line\'s from_string()', _w(rf))
    if ok:
        arg = st[0].value.args[0] if st[0].value.args else None
        src_ = arg
        if isinstance(arg, ast.Name):
            asg = [x for x in ast.walk(rf.node) if isinstance(x, ast.Assign) and any(isinstance(t_, ast.Name) and t_.id == arg.id for t_ in x.targets)]
            src_ = asg[0].value if len(asg) == 1 else None
        base_ = src_.value if isinstance(src_, ast.Subscript) else None
        if isinstance(base_, ast.Name):       # `section = self._solution[form_name]` kept in a local that is assigned once
            asg2 = [x for x in ast.walk(rf.node) if isinstance(x, ast.Assign) and any(isinstance(t_, ast.Name) and t_.id == base_.id for t_ in x.targets)]
            base_ = asg2[0].value if len(asg2) == 1 else None
        verbatim = isinstance(src_, ast.Subscript) and isinstance(base_, ast.Subscript) and self_attr(base_.value) == '_solution'
        rep.ob('K22b', 'filler-hands-from_string-the-text-as-written', verbatim,
               f'the filler converts `{unparse(src_, 70) if src_ is not None else "?"}` instead of the solution text itself: what is read back is not what was written (normalised, stripped or re-cased text)', _w(rf, st[0]))
    # K22d every section is interpreted by a fresh instance of the class the recorded year maps its name to
    addf = core.method('PDFFiller', '_add_form')
    g = addf.cfg
    app = [n for n in g.nodes if n.kind == 'stmt' and n.ast is not None and any(call_name(c) == 'append' and self_attr(c.func.value) == 'forms' for c in calls_in(n.ast))]
    inst = [n for n in g.nodes if n.kind == 'stmt' and isinstance(n.ast, ast.Assign) and isinstance(n.ast.value, ast.Call) and isinstance(n.ast.value.func, ast.Subscript)
            and self_attr(n.ast.value.func.value) == '_form_map']
    ok = len(app) == 1 and len(inst) == 1 and g.dominates(inst[0], app[0]) and unparse(inst[0].ast.targets[0]) == unparse([c for c in calls_in(app[0].ast) if call_name(c) == 'append'][0].args[0]) \
        and not [n for n in g.nodes if n.kind == 'stmt' and isinstance(n.ast, ast.Assign) and n is not inst[0] and unparse(n.ast.targets[0]) == unparse(inst[0].ast.targets[0])]
    rep.ob('K22d', 'section-interpreted-by-its-years-class', ok,
           'PDFFiller._add_form() does not, on every path, build the form from self._form_map[<name>](...) - e.g. a cache shared across solutions would read one year\'s solution with another year\'s line definitions', _w(addf))
    fm = [n for n in ast.walk(core.method('PDFFiller', '__init__').node) if isinstance(n, ast.Assign) and self_attr(n.targets[0]) == '_form_map']
    ok = len(fm) == 1 and isinstance(fm[0].value, ast.DictComp) and 'form_name' in unparse(fm[0].value.key)
    rep.ob('K22d', 'form-map-built-from-the-given-catalogue', ok, 'the filler\'s form map is not built from the catalogue it was given', 'habutax/pdf_filler.py')
    for rel in ('habutax/pdf_filler.py', 'habutax/values.py', 'habutax/fields.py', 'habutax/pdf_fields.py'):
        for n in core.mods[rel].body:
            if isinstance(n, ast.Assign) and isinstance(n.value, (ast.Dict, ast.List, ast.Set)) or (isinstance(n, ast.Assign) and isinstance(n.value, ast.Call) and call_name(n.value) in ('dict', 'list', 'set', 'defaultdict', 'OrderedDict')):
                rep.ob('K22d', f'{rel}/no-module-level-mutable-state@{unparse(n.targets[0])}', False,
                       f'{rel} keeps module-level mutable state `{unparse(n, 60)}`: what a solution reads back could depend on earlier solutions in the same process', f'{rel}:{n.lineno}')
    # K22c ConfigParser interpolation on user text
    for rel, c in core.all_nodes(ast.Call):
        if call_name(c) == 'ConfigParser':
            fn = enclosing_function(c)
            ok = any(k.arg == 'interpolation' and _const(k.value, None) for k in c.keywords)
            rep.ob('K22c', f'no-interpolation/{rel}:{fn.name if fn else "module"}', ok,
                   f'`{unparse(c)}` keeps the default %-interpolation: a "%" in a name, address or description raises on set()/get()', f'{rel}:{c.lineno}')


# ---------------------------------------------------------------- K23 filler
def k23_filler(core, rep):
    f = core.method('PDFFiller', '_create_fdf')
    # K23a every value interpolated between ( and ) passes through the module's escaping function
    joined = [n for n in ast.walk(f.node) if isinstance(n, ast.JoinedStr) and any(isinstance(v, ast.Constant) and '(' in str(v.value) for v in n.values)]
    if not joined:
        raise AnalysisError('_create_fdf(): the FDF entry template was not found (anchor vanished)')
    esc_names = set()
    for n in joined:
        for v in n.values:
            if isinstance(v, ast.FormattedValue):
                inner = v.value
                ok = isinstance(inner, ast.Call) and (call_name(inner) or '').lower().find('escape') >= 0
                if ok:
                    esc_names.add(call_name(inner))
                rep.ob('K23a', f'escaped@{unparse(inner, 30)}', ok,
                       f'{unparse(inner)} is written between the parentheses of a PDF string without escaping: a value containing ")" or "\\" corrupts the form data', _w(f, n))
    for nm in esc_names:
        cands = [x for x in core.funcs if x.name == nm and x.rel == 'habutax/pdf_filler.py']
        if not cands:
            rep.ob('K23a', f'escape-function/{nm}', False, f'escaping function {nm} not found in pdf_filler.py', f.rel)
            continue
        e = cands[0]
        src = unparse(e.node, 2000)
        # accepted idioms: replace chain with backslash first, translate with the three keys, re.sub over the class
        rep_calls = [c for c in calls_in(e.node) if call_name(c) == 'replace']
        firsts = []
        for c in rep_calls:
            if c.args and isinstance(c.args[0], ast.Constant):
                firsts.append(c.args[0].value)
        ok = False
        if rep_calls:
            # innermost replace is applied first
            order = []
            for c in sorted(rep_calls, key=lambda c: _depth(c)):
                if c.args and isinstance(c.args[0], ast.Constant):
                    order.append(c.args[0].value)
            ok = set(order) >= {'\\', '(', ')'} and order[0] == '\\'
        if 'translate' in src or 'maketrans' in src:
            ok = all(ch in src for ch in ("'('", "')'")) and '\\\\' in src
        if 're.sub' in src:
            ok = '\\\\' in src and '(' in src and ')' in src
        rep.ob('K23a', f'escape-function/{nm}/covers-backslash-and-parentheses', ok,
               f'{nm}() does not escape the backslash first and then both parentheses', _w(e))
        conds = [x for x in ast.walk(e.node) if isinstance(x, (ast.If, ast.IfExp, ast.BoolOp, ast.While, ast.For, ast.Try))]
        rets = [x for x in ast.walk(e.node) if isinstance(x, ast.Return)]
        rep.ob('K23a', f'escape-function/{nm}/unconditional', not conds and len(rets) == 1,
               f'{nm}() escapes conditionally ({[type(c).__name__ for c in conds][:3]}): every ( ) and \\ must be escaped whatever the rest of the text looks like', _w(e))
    # K23b selection and order
    fl = core.method('PDFFiller', 'fill')
    flt = [n for n in ast.walk(fl.node) if isinstance(n, ast.Assign) and isinstance(n.value, ast.ListComp)]
    ok = len(flt) == 1 and unparse(flt[0].value.generators[0].iter) == 'self.forms' and len(flt[0].value.generators[0].ifs) == 1 \
        and 'needs_filing(self._values)' in unparse(flt[0].value.generators[0].ifs[0])
    rep.ob('K23b', 'only-forms-that-need-filing', ok, 'fill() does not restrict self.forms to those whose needs_filing(values) holds', _w(fl))
    lst = flt[0].targets[0].id if ok and isinstance(flt[0].targets[0], ast.Name) else None
    sorts = [c for c in calls_in(fl.node) if call_name(c) == 'sort' and attr_text(c.func.value) == lst]
    ok2 = len(sorts) == 1 and any(k.arg == 'key' and _is_order_key(k.value) for k in sorts[0].keywords) \
        and not any(k.arg == 'reverse' and not _const(k.value, False) for k in sorts[0].keywords)
    rep.ob('K23b', 'ordered-by-jurisdiction-then-sequence', ok2,
           'fill() does not order the forms by the pair (jurisdiction, sequence_no) itself - a converted or wrapped key (for instance the sequence number as text) gives another order', _w(fl))
    loops = [n for n in ast.walk(fl.node) if isinstance(n, ast.For) and any(call_name(c) == '_fill_form' for b in n.body for c in calls_in(b))]
    ok3 = len(loops) == 1 and unparse(loops[0].iter) == lst and not any(isinstance(x, ast.For) for b in loops[0].body for x in ast.walk(b))
    rep.ob('K23b', 'each-selected-form-filled-once', ok3, 'the loop that fills forms does not run once over the filtered, sorted list', _w(fl))
    if ok3:
        lv = loops[0].target.id if isinstance(loops[0].target, ast.Name) else None
        fills = [c for b in loops[0].body for c in calls_in(b) if call_name(c) == '_fill_form']
        outvar = unparse(fills[0].args[1]) if fills and len(fills[0].args) == 2 else None
        asg = [x for b in loops[0].body for x in ast.walk(b) if isinstance(x, ast.Assign) and unparse(x.targets[0]) == outvar]
        named = len(asg) == 1 and any(isinstance(c, ast.Call) and call_name(c) == 'name' and attr_text(c.func.value) == lv for c in ast.walk(asg[0].value))
        rep.ob('K23b', 'one-output-file-per-form-instance', named and unparse(fills[0].args[0]) == lv,
               f'the intermediate PDF of a form is not named after {lv}.name() (form name plus instance): two instances of one form would overwrite each other and one would be filed twice', _w(fl))
        apps = [c for b in loops[0].body for c in calls_in(b) if call_name(c) == 'append' and [unparse(a) for a in c.args] == [outvar]]
        rep.ob('K23b', 'every-filled-form-is-concatenated', len(apps) == 1, 'a filled form is not handed to the final concatenation exactly once', _w(fl))
        if len(apps) == 1:
            acc = unparse(apps[0].func.value)
            uses = [c for c in calls_in(fl.node) if call_name(c) in ('extend', 'run') or (isinstance(c.func, ast.Attribute) and c.func.attr == 'extend')]
            handed = []
            for c in calls_in(fl.node):
                if c is apps[0]:
                    continue
                for a in list(c.args) + [k.value for k in c.keywords]:
                    if any(isinstance(x, ast.Name) and x.id == acc for x in ast.walk(a)):
                        handed.append((c, a))
            def _keeps_order(a):
                if isinstance(a, ast.Name):
                    return True
                if isinstance(a, ast.Call) and isinstance(a.func, ast.Name) and a.func.id in ('list', 'tuple') and len(a.args) == 1:
                    return _keeps_order(a.args[0])
                if isinstance(a, ast.Subscript) and isinstance(a.slice, ast.Slice) and a.slice.lower is None and a.slice.upper is None and a.slice.step is None:
                    return _keeps_order(a.value)
                if isinstance(a, ast.Starred):
                    return _keeps_order(a.value)
                if isinstance(a, (ast.List, ast.Tuple)):
                    return all(_keeps_order(e) or not any(isinstance(x, ast.Name) and x.id == acc for x in ast.walk(e)) for e in a.elts)
                if isinstance(a, ast.BinOp) and isinstance(a.op, ast.Add):
                    return all(_keeps_order(e) or not any(isinstance(x, ast.Name) and x.id == acc for x in ast.walk(e)) for e in (a.left, a.right))
                return False
            bad = [(c, a) for c, a in handed if not _keeps_order(a)]
            rep.ob('K23b', 'filled-forms-concatenated-in-fill-order', bool(handed) and not bad,
                   f'the list of filled forms reaches the concatenation as `{unparse(bad[0][1], 50) if bad else "?"}`: the attachment order established by the sort is replaced by another order '
                   '(file names sort alphabetically: Form 8959 before Form 8995, Schedule 8812 before Schedule A)', _w(fl, bad[0][0]) if bad else _w(fl))
    add = core.method('PDFFiller', '_add_form')
    app = [c for c in calls_in(add.node) if call_name(c) == 'append' and self_attr(c.func.value) == 'forms']
    rep.ob('K23b', 'one-instance-per-solution-section', len(app) == 1, 'a solution section does not map to exactly one form instance', _w(add))
    # K23c raise, never truncate
    tv = core.func('habutax/pdf_fields.py', 'TextPDFField', 'value')
    g = tv.cfg
    rets = [n for n in g.nodes if n.kind == 'stmt' and isinstance(n.ast, ast.Return)]
    for r in rets:
        sl = [x for x in ast.walk(r.ast) if isinstance(x, ast.Subscript) and isinstance(x.slice, ast.Slice)]
        rep.ob('K23c', 'TextPDFField/no-slicing', not sl, 'TextPDFField.value() returns a slice of the text (silent truncation)', _w(tv, r.ast))
        doms = [n for n in g.nodes if n.kind == 'F' and n.label == '' and g.dominates(n, r)]
        # a local that holds len(<name>) may stand for it in the test
        len_locals = {x.targets[0].id for x in ast.walk(tv.node) if isinstance(x, ast.Assign) and len(x.targets) == 1 and isinstance(x.targets[0], ast.Name)
                      and isinstance(x.value, ast.Call) and isinstance(x.value.func, ast.Name) and x.value.func.id == 'len' and len(x.value.args) == 1 and isinstance(x.value.args[0], ast.Name)}
        ok = any(_too_long_test(n.ast, len_locals) for n in doms)
        rep.ob('K23c', 'TextPDFField/returns-only-when-it-fits', ok, 'TextPDFField.value() can return a value longer than max_length', _w(tv, r.ast))
    raises = [n for n in ast.walk(tv.node) if isinstance(n, ast.Raise) and isinstance(n.exc, ast.Call) and call_name(n.exc) == 'PDFValueTooLong']
    rep.ob('K23c', 'TextPDFField/too-long-raises', len(raises) == 1, 'an over-long value does not raise PDFValueTooLong', _w(tv))
    cv = core.func('habutax/pdf_fields.py', 'ChoicePDFField', 'value')
    raises = [n for n in ast.walk(cv.node) if isinstance(n, ast.Raise) and isinstance(n.exc, ast.Call) and call_name(n.exc) == 'PDFInvalidChoiceValue']
    g = cv.cfg
    ok = len(raises) == 1 and all(any(('not in self._choices' in t_ and pol is False) or (' in self._choices' in t_ and ' not in ' not in t_ and pol is True)
                                      for t_, pol in g.branch_facts(n)) for n in g.nodes if n.kind == 'stmt' and isinstance(n.ast, ast.Return))
    rep.ob('K23c', 'ChoicePDFField/outside-choices-raises', ok, 'a value outside the choice list does not raise PDFInvalidChoiceValue', _w(cv))
    # the text that is tested for membership is the text that is returned: testing a converted copy (upper-cased, stripped)
    # lets a value through that is not one of the choices as written
    rets_c = [n.ast for n in g.nodes if n.kind == 'stmt' and isinstance(n.ast, ast.Return) and n.ast.value is not None]
    tests_c = [x for x in ast.walk(cv.node) if isinstance(x, ast.Compare) and len(x.ops) == 1 and isinstance(x.ops[0], (ast.NotIn, ast.In)) and self_attr(x.comparators[0]) == '_choices']
    same = bool(rets_c) and bool(tests_c) and all(unparse(t_.left) == unparse(r_.value) for t_ in tests_c for r_ in rets_c)
    rep.ob('K23c', 'ChoicePDFField/tests-the-value-it-returns', same,
           f'ChoicePDFField.value() tests `{unparse(tests_c[0].left, 40) if tests_c else None}` against the choice list but returns `{unparse(rets_c[0].value, 40) if rets_c else None}`: a text that only '
           'resembles a choice (other case, blanks) passes and is written into the form as it is', _w(cv))
    ff = core.method('PDFFiller', '_fill_form')
    for t in [t for t in ast.walk(ff.node) if isinstance(t, ast.Try)]:
        for h in t.handlers:
            types = _handler_types(h)
            ok = types == ['UnmetDependency'] and any(isinstance(b, ast.Assert) and 'required' in unparse(b) for b in h.body)
            rep.ob('K23c', f'_fill_form/handler:{"|".join(types)}', ok, f'_fill_form() catches {types}: a too-long or invalid value would be silently dropped', _w(ff, h))
    for fi in (fl, core.func('habutax/__init__.py', None, 'fill_pdfs')):
        for t in [t for t in ast.walk(fi.node) if isinstance(t, ast.Try)]:
            for h in t.handlers:
                rep.ob('K23c', f'{fi.name}/no-handler', _is_reraise(h), f'{fi.name}() catches exceptions of the fill step', _w(fi, h))
    # base PDFField.value falls back to the line's own to_string
    pv = core.func('habutax/pdf_fields.py', 'PDFField', 'value')
    ok = any(isinstance(r.value, ast.Call) and call_name(r.value) == 'to_string' for r in ast.walk(pv.node) if isinstance(r, ast.Return))
    rep.ob('K23c', 'PDFField/default-text-is-to_string', ok, 'without a value function a box is not filled with the line\'s to_string() text', _w(pv))


def k25_list_form_inputs(core, rep):
    f = core.func('habutax/__init__.py', None, 'list_form_inputs')
    inst = [n for n in ast.walk(f.node) if isinstance(n, ast.Assign) and isinstance(n.value, ast.Call) and any(k.arg == 'instance' for k in n.value.keywords) and isinstance(n.targets[0], ast.Name)]
    if len(inst) != 1:
        raise AnalysisError('list_form_inputs(): form instantiation not found (anchor vanished)')
    fv = inst[0].targets[0].id
    prints = [c for c in calls_in(f.node) if call_name(c) == 'print' and c.args and isinstance(c.args[0], ast.JoinedStr)]
    heads = [c for c in prints if unparse(c.args[0]).startswith(("f'[", 'f"['))]
    ok = len(heads) == 1 and any(isinstance(v, ast.FormattedValue) and unparse(v.value) == f'{fv}.name()' for v in heads[0].args[0].values) \
        and [str(v.value) for v in heads[0].args[0].values if isinstance(v, ast.Constant)] == ['[', ']']
    rep.ob('K25', 'section-header-is-the-instance-name', ok,
           f'list-form-inputs does not print the section header [{{{fv}.name()}}] (form name plus instance): the template would name a section no form reads', _w(f))
    opts = [c for c in prints if unparse(c.args[0]).startswith(("f'#{", 'f"#{'))]
    ok = len(opts) == 1 and 'base_name()' in unparse(opts[0].args[0]) and unparse(opts[0].args[0]).rstrip("'\"").endswith(' =')
    rep.ob('K25', 'one-commented-option-per-input', ok, 'list-form-inputs does not print `#<input base name> =` for each input', _w(f))
    loops = [n for n in ast.walk(f.node) if isinstance(n, ast.For) and opts and any(opts[0] in list(ast.walk(b)) for b in n.body)]
    src_ok = False
    if loops:
        it = unparse(loops[0].iter)
        # the loop variable ranges over names derived from f.inputs()
        derived = {x.targets[0].id: unparse(x.value) for x in ast.walk(f.node) if isinstance(x, ast.Assign) and isinstance(x.targets[0], ast.Name)}
        seen = set()
        cur = it
        while cur in derived and cur not in seen:
            seen.add(cur)
            cur = derived[cur]
        chain = ' '.join([it] + [derived[k] for k in seen])
        src_ok = f'{fv}.inputs()' in chain or any(f'{fv}.inputs()' in v for v in derived.values())
    rep.ob('K25', 'lists-every-input-of-the-form', bool(loops) and src_ok, 'the listed options are not derived from the inputs() of the instantiated form', _w(f))
    # everything printed once the form has been instantiated is template text: the header, a comment, a blank line or the
    # commented option - a bare line of prose parses back as an option of that name
    def _const_lines_ok(text, at_line_start):
        # every line that starts inside this constant text is blank or a comment
        parts = text.split('\n')
        for k, part in enumerate(parts):
            starts_here = at_line_start if k == 0 else True
            if starts_here and part.strip() and not part.lstrip().startswith('#'):
                # a constant that ends the piece may be continued by what follows: only its own text is judged
                return False
        return True
    def _starts_with_hash(e, depth=0):
        if isinstance(e, ast.Constant) and isinstance(e.value, str):
            return e.value.startswith('#')
        if isinstance(e, ast.JoinedStr):
            return bool(e.values) and isinstance(e.values[0], ast.Constant) and str(e.values[0].value).startswith('#')
        if isinstance(e, ast.BinOp) and isinstance(e.op, ast.Add):
            return _starts_with_hash(e.left, depth)
        if isinstance(e, ast.Name) and depth < 3:
            first = [x for x in ast.walk(f.node) if isinstance(x, ast.Assign) and any(isinstance(t, ast.Name) and t.id == e.id for t in x.targets)]
            return bool(first) and all(_starts_with_hash(x.value, depth + 1) for x in first)
        return False
    def _template_text(e, at_line_start=True):
        if isinstance(e, ast.Constant) and isinstance(e.value, str):
            return _const_lines_ok(e.value, at_line_start)
        if isinstance(e, ast.JoinedStr):
            start = at_line_start
            first = True
            for v in e.values:
                if isinstance(v, ast.Constant):
                    txt = str(v.value)
                    if first and start and txt.startswith('['):
                        return [str(c.value) for c in e.values if isinstance(c, ast.Constant)] == ['[', ']']      # the section header
                    if not _const_lines_ok(txt, start):
                        return False
                    start = txt.endswith('\n')
                else:
                    if start:
                        return False          # a computed text at the start of a line: not known to be a comment
                    start = False             # computed pieces are single-line texts (names, descriptions)
                first = False
            return True
        if isinstance(e, ast.BinOp) and isinstance(e.op, ast.Add):
            if isinstance(e.left, ast.Constant) and isinstance(e.left.value, str) and _const_lines_ok(e.left.value, at_line_start):
                return _template_text(e.right, e.left.value.endswith('\n') or (at_line_start and e.left.value == ''))
            return False
        if isinstance(e, ast.Call) and isinstance(e.func, ast.Attribute) and e.func.attr == 'replace' and len(e.args) == 2 \
                and all(isinstance(a, ast.Constant) and isinstance(a.value, str) for a in e.args):
            a, b = e.args[0].value, e.args[1].value
            return at_line_start and a == '\n' and b.startswith('\n#') and _starts_with_hash(e.func.value)
        return False
    after = [c for c in calls_in(f.node) if call_name(c) == 'print' and c.lineno > inst[0].lineno]
    bad = [c for c in after if not (len(c.args) == 1 and not c.keywords and _template_text(c.args[0])) and not (len(c.args) == 0)]
    rep.ob('K25', 'only-header-comments-and-options-are-printed', len(after) >= 4 and not bad,
           f'list-form-inputs prints `{unparse(bad[0], 90) if bad else None}` into the template: a line that is not the section header, a comment or blank '
           'parses back as an input of that name, so the template no longer names exactly the inputs of the form', f'habutax/__init__.py:{bad[0].lineno}' if bad else _w(f))
    checks = [n for n in ast.walk(f.node) if isinstance(n, ast.If) and 'valid_instances' in unparse(n.test)]
    rep.ob('K25', 'instance-validated', len(checks) >= 2, 'list-form-inputs no longer validates the requested instance against valid_instances', _w(f))


def _none_or_blank(test, v):
    """test is exactly: v is None  or  (isinstance(v, str) and v.strip() == '')"""
    if not (isinstance(test, ast.BoolOp) and isinstance(test.op, ast.Or) and len(test.values) == 2):
        return False
    a, b = test.values
    if unparse(a) != f'{v} is None':
        return False
    if not (isinstance(b, ast.BoolOp) and isinstance(b.op, ast.And) and len(b.values) == 2):
        return False
    return unparse(b.values[0]) == f'isinstance({v}, str)' and unparse(b.values[1]) in (f"{v}.strip() == ''", f'{v}.strip() == ""', f'len({v}.strip()) == 0', f'not {v}.strip()')


def _too_long_test(test, len_locals=()):
    """test is: self.max_length is not None and len(x) > self.max_length (its
    falsity means: no limit, or the text fits)"""
    if not (isinstance(test, ast.BoolOp) and isinstance(test.op, ast.And) and len(test.values) == 2):
        return False
    a, b = test.values
    if unparse(a) != 'self.max_length is not None':
        return False
    def _plain_len(e):
        # len(<name>): the length of the text itself, not of a shortened copy (len(value.lstrip('-')) lets one character more through)
        return (isinstance(e, ast.Call) and isinstance(e.func, ast.Name) and e.func.id == 'len' and len(e.args) == 1 and isinstance(e.args[0], ast.Name)) \
            or (isinstance(e, ast.Name) and e.id in len_locals)
    return isinstance(b, ast.Compare) and len(b.ops) == 1 and (
        (isinstance(b.ops[0], ast.Gt) and _plain_len(b.left) and unparse(b.comparators[0]) == 'self.max_length')
        or (isinstance(b.ops[0], ast.Lt) and _plain_len(b.comparators[0]) and unparse(b.left) == 'self.max_length'))


def _depth(n):
    d = 0
    while isinstance(n, ast.Call) and isinstance(n.func, ast.Attribute):
        n = n.func.value
        d += 1
    return d


# ---------------------------------------------------------------- K30 loading a form twice is a normal sequence
def k30_form_loading_reentrant(core, rep):
    """_add_form() runs for a form that is already known whenever its inputs were loaded first (a reference to one of its
    inputs -> _add_input_spec -> _add_form(input_only=True)) and one of its lines is referred to afterwards (-> _add_form()).
    The statements before the `if input_only: return` exit therefore run at least twice for such a form: an assertion there
    that a registered NAME is new is false on that sequence and turns a reference that resolves into an internal assertion."""
    f = core.method('Solver', '_add_form')
    callers = [(fn, c) for fn in core.funcs if fn.rel == f.rel for c in calls_in(fn.node) if call_name(c) == '_add_form']
    only = [c for fn, c in callers if any(k.arg == 'input_only' and _const(k.value, True) for k in c.keywords)]
    full = [c for fn, c in callers if not any(k.arg == 'input_only' for k in c.keywords)]
    if not only or not full:
        raise AnalysisError('_add_form() is no longer called both for inputs only and in full (anchor vanished)')
    # an early exit for a form that is already known makes the second run harmless
    exit_if = [n for n in f.node.body if isinstance(n, ast.If) and any(isinstance(x, ast.Return) for x in n.body)]
    early = [n for n in exit_if if 'input_only' not in unparse(n.test) and ('self.forms' in unparse(n.test) or '_input_map' in unparse(n.test))]
    split = next((n for n in exit_if if 'input_only' in unparse(n.test)), None)
    if split is None:
        raise AnalysisError('_add_form(): the `if input_only: return` exit was not found (anchor vanished)')
    n = 0
    for st in ast.walk(f.node):
        if not (isinstance(st, ast.Assert) and st.lineno < split.lineno):
            continue
        t = st.test
        if not (isinstance(t, ast.Compare) and len(t.ops) == 1 and isinstance(t.ops[0], ast.NotIn) and self_attr(t.comparators[0]) is not None):
            continue
        table = self_attr(t.comparators[0])
        keys = {unparse(x.targets[0].slice) for x in ast.walk(f.node) if isinstance(x, ast.Assign) and isinstance(x.targets[0], ast.Subscript)
                and self_attr(x.targets[0].value) == table}
        n += 1
        real = unparse(t.left) in keys
        rep.ob('K30', f'reload-tolerated/{table}@{unparse(t.left, 30)}', not real or bool(early),
               f'_add_form() asserts `{unparse(t)}` before the input-only exit, and {table} is keyed by exactly that expression: the form\'s inputs are registered once when an input of it is '
               'referred to and again when one of its lines is, so the assertion fails on a sequence every multi-form return goes through (the solve dies with an AssertionError)',
               f'{f.rel}:{st.lineno}')
    rep.ob('K30', 'input-registration-runs-for-both-kinds-of-load', True)
    return n


# ---------------------------------------------------------------- K31 every while loop of the core has a recognised reason to end
def _paths_all_hit(stmts, pred):
    """every path through the statement list executes a statement satisfying pred (or leaves the loop/function)"""
    for st in stmts:
        if isinstance(st, (ast.Return, ast.Raise, ast.Break)):
            return True
        if isinstance(st, ast.Continue):
            return False
        if isinstance(st, ast.If):
            if _paths_all_hit(st.body, pred) and st.orelse and _paths_all_hit(st.orelse, pred):
                return True
            continue
        if isinstance(st, (ast.For, ast.While, ast.Try, ast.With)):
            if isinstance(st, ast.With) and _paths_all_hit(st.body, pred):
                return True
            continue
        if any(pred(x) for x in ast.walk(st)):
            return True
    return False


def k31_loops_end(core, rep):
    """Inventory of the `while` loops of the core modules.  Each must be one of
      scheduler   - a loop of Solver.solve() that attempts lines (its termination is the global work-list argument, not decided here);
      drain       - every path through the body removes an element from a list and nothing in the body adds one;
      interactive - the tested variable is re-read from input() in every round (ends when the user answers or input ends, K20);
    A loop that walks along a mapping (x = table[x]) and does not test the nodes it has visited is reported: the tables of
    the solver can hold cycles (cyclic line definitions are part of the property), and a walk that enters a cycle it did not
    start on never returns.  Any other loop is undecided (analysis error), never silently accepted."""
    n = 0
    kinds = {}
    for rel, w in core.all_nodes(ast.While):
        fn = enclosing_function(w)
        cls = enclosing_class(w)
        where = f'{rel}:{w.lineno}'
        name = f'{rel}:{(cls.name + ".") if cls is not None else ""}{fn.name if fn is not None else "<module>"}:while {unparse(w.test, 50)}'
        n += 1
        body_calls = [call_name(c) for st in w.body for c in calls_in(st)]
        # scheduler
        if fn is not None and fn.name == 'solve' and cls is not None and cls.name == core.solver.cls.name and \
                ('_attempt_field' in body_calls or any(isinstance(x, ast.While) and '_attempt_field' in [call_name(c) for c in calls_in(x)] for x in ast.walk(w))):
            kinds[name] = 'scheduler'
            rep.ob('K31', name, True, where=where)
            continue
        # interactive
        tested = {x.id for x in ast.walk(w.test) if isinstance(x, ast.Name)}
        reread = [st for st in w.body if isinstance(st, ast.Assign) and any(isinstance(t, ast.Name) and t.id in tested for t in st.targets)
                  and any(call_name(c) == 'input' for c in calls_in(st.value))]
        top_try = [st for st in w.body if isinstance(st, ast.Try)]
        reread += [st for t in top_try for st in t.body if isinstance(st, ast.Assign) and any(isinstance(x, ast.Name) and x.id in tested for x in st.targets)
                   and any(call_name(c) == 'input' for c in calls_in(st.value))]
        if reread:
            kinds[name] = 'interactive'
            rep.ob('K31', name, True, where=where)
            continue
        # drain
        removes = lambda x: (isinstance(x, ast.Call) and isinstance(x.func, ast.Attribute) and x.func.attr in ('pop', 'popleft', 'remove', 'popitem')) or isinstance(x, ast.Delete)
        adds = [c for st in w.body for c in calls_in(st) if isinstance(c.func, ast.Attribute) and c.func.attr in ('append', 'extend', 'insert', 'add', 'update', 'setdefault')]
        sub_stores = [x for st in w.body for x in ast.walk(st) if isinstance(x, ast.Subscript) and isinstance(x.ctx, ast.Store)]
        if _paths_all_hit(w.body, removes) and not adds and not sub_stores:
            kinds[name] = 'drain'
            rep.ob('K31', name, True, where=where)
            continue
        # a walk along a mapping
        walked = []
        for st in ast.walk(w):
            if isinstance(st, ast.Assign) and len(st.targets) == 1 and isinstance(st.targets[0], ast.Name) and st.targets[0].id in tested \
                    and isinstance(st.value, ast.Subscript) and any(isinstance(x, ast.Name) and x.id == st.targets[0].id for x in ast.walk(st.value.slice)):
                walked.append((st.targets[0].id, unparse(st.value.value)))
        if walked:
            var, table = walked[0]
            # `var not in seen` in the test, with seen growing in the body
            remembered = False
            for x in ast.walk(w.test):
                if isinstance(x, ast.Compare) and len(x.ops) == 1 and isinstance(x.ops[0], ast.NotIn) and isinstance(x.left, ast.Name) and x.left.id == var:
                    seen_txt = unparse(x.comparators[0])
                    if any(isinstance(c.func, ast.Attribute) and c.func.attr in ('add', 'append') and unparse(c.func.value) == seen_txt for st in w.body for c in calls_in(st)):
                        remembered = True
            kinds[name] = 'walk'
            rep.ob('K31', name, remembered,
                   f'the loop `while {unparse(w.test)}` follows `{var} = {table}[{var}]` without testing the nodes it has already visited: when the chain leads into a cycle that does not '
                   f'contain its starting point (a line waiting on a line of a circular definition: 1 -> 2 -> 3 -> 2) it never ends, so the solve does not terminate', where)
            continue
        raise AnalysisError(f'{where}: `while {unparse(w.test, 60)}` in {fn.name if fn else "<module>"}() is none of the loop kinds whose termination is argued (scheduler, drain, interactive, remembered walk); termination not decided')
    rep.ob('K31', 'while-loops-of-the-core-inventoried', n >= 4, f'only {n} while loops found in the core modules (anchor vanished)')
    return kinds


# ---------------------------------------------------------------- K32 solve() is left only through its loop condition
def k32_solve_single_exit(core, rep):
    """The scheduling loop of Solver.solve() ends when nothing is queued, nothing met is undrained and nothing more can be
    asked.  A return (or break of the outer loop) from inside it leaves answered inputs marked met but their waiting lines
    unattempted: values that were supplied never reach their lines and are reported as needed-but-missing, and the final
    assertions and the verdict computation are skipped."""
    sv = core.solver.solve
    loops = [n for n in sv.node.body if isinstance(n, ast.While)]
    if len(loops) != 1:
        raise AnalysisError(f'Solver.solve() has {len(loops)} top-level while loops (anchor vanished)')
    outer = loops[0]
    rets = [x for x in ast.walk(outer) if isinstance(x, (ast.Return, ast.Yield))]
    def _breaks_outer(n, depth=0):
        out = []
        for ch in ast.iter_child_nodes(n):
            if isinstance(ch, (ast.For, ast.While)):
                continue            # a break in there leaves the inner loop only
            if isinstance(ch, ast.Break):
                out.append(ch)
            elif not isinstance(ch, (ast.FunctionDef, ast.Lambda)):
                out.extend(_breaks_outer(ch))
        return out
    brk = []
    for st in outer.body:
        if isinstance(st, ast.Break):
            brk.append(st)
        elif not isinstance(st, (ast.For, ast.While)):
            brk.extend(_breaks_outer(st))
    def _own_raises(n):
        out = []
        for ch in ast.iter_child_nodes(n):
            if isinstance(ch, (ast.FunctionDef, ast.Lambda)):
                continue
            if isinstance(ch, ast.Raise):
                out.append(ch)
            else:
                out.extend(_own_raises(ch))
        return out
    raises = _own_raises(outer)
    rep.ob('K32', 'scheduling-loop-has-no-budget-of-its-own', not raises,
           f'Solver.solve() raises from inside its scheduling loop (`{unparse(raises[0], 60) if raises else ""}`): how many rounds a return needs depends on the order in which lines are attempted '
           'and on how many inputs are answered at the prompt instead of read from the file, so a cut-off on rounds makes the same return solve or fail depending on that order',
           f'{sv.rel}:{raises[0].lineno}' if raises else _w(sv))
    bad = rets + brk
    rep.ob('K32', 'solve-leaves-its-loop-only-through-the-condition', not bad,
           f'Solver.solve() leaves its scheduling loop with `{unparse(bad[0], 40) if bad else ""}`: dependencies already marked met are not drained, so lines whose inputs were '
           'supplied are never attempted (the inputs are then reported as needed but missing) and the end-of-solve assertions and verdict are skipped',
           f'{sv.rel}:{bad[0].lineno}' if bad else _w(sv))
    rets_all = [x for x in ast.walk(sv.node) if isinstance(x, ast.Return)]
    rep.ob('K32', 'one-return-at-the-end', len(rets_all) == 1 and sv.node.body[-1] is rets_all[0],
           f'Solver.solve() has {len(rets_all)} return statements; the only one should be the last statement, after the verdict has been computed', _w(sv))


# ---------------------------------------------------------------- K34 one mutable object standing in for many
def _mutable_literal(e):
    return isinstance(e, (ast.List, ast.Dict, ast.Set, ast.ListComp, ast.DictComp, ast.SetComp)) or \
        (isinstance(e, ast.Call) and isinstance(e.func, ast.Name) and e.func.id in ('list', 'dict', 'set', 'defaultdict', 'OrderedDict'))


def k34_no_shared_mutable_fill(core, rep, extra_modules=()):
    """`dict.fromkeys(keys, [])` and `[[]] * n` put ONE list under every key / at every position.  Filling the entries in
    place afterwards makes every entry show the union of all of them: each missing input would be quoted as needed by the
    lines that wait for any missing input."""
    n = 0
    mods = dict(core.mods)
    for rel in extra_modules:
        mods[rel] = core.tree.module(rel) if hasattr(core, 'tree') else None
    for rel, mod in mods.items():
        if mod is None:
            continue
        for c in ast.walk(mod):
            bad = None
            if isinstance(c, ast.Call) and isinstance(c.func, ast.Attribute) and c.func.attr == 'fromkeys' and len(c.args) == 2 and _mutable_literal(c.args[1]):
                bad = c
            if isinstance(c, ast.BinOp) and isinstance(c.op, ast.Mult):
                for side in (c.left, c.right):
                    if isinstance(side, ast.List) and any(_mutable_literal(e) for e in side.elts):
                        bad = c
            if isinstance(c, (ast.Call, ast.BinOp)):
                n += 1
            if bad is not None:
                # harmless as long as the entries are only ever replaced; it bites when one is changed in place
                fn = enclosing_function(bad)
                par = getattr(bad, 'parent', None)
                nm = par.targets[0].id if isinstance(par, ast.Assign) and len(par.targets) == 1 and isinstance(par.targets[0], ast.Name) else None
                scope = fn if fn is not None else mod
                inplace = False
                for x in ast.walk(scope):
                    if isinstance(x, ast.AugAssign) and isinstance(x.target, ast.Subscript) and isinstance(x.target.value, ast.Name) and x.target.value.id == nm:
                        inplace = True
                    if isinstance(x, ast.Call) and isinstance(x.func, ast.Attribute) and x.func.attr in ('append', 'extend', 'add', 'update', 'insert', 'setdefault') \
                            and isinstance(x.func.value, ast.Subscript) and isinstance(x.func.value.value, ast.Name) and x.func.value.value.id == nm:
                        inplace = True
                if nm is not None and not inplace:
                    bad = None
            if bad is not None:
                fn = enclosing_function(bad)
                rep.ob('K34', f'{rel}:{fn.name if fn else "module"}@{unparse(bad, 50)}', False,
                       f'`{unparse(bad, 80)}` puts one and the same mutable object under every key / position: entries filled in place afterwards all show the union '
                       '(every unmet dependency is reported with the dependents of all of them)', f'{rel}:{bad.lineno}')
    rep.ob('K34', 'no-mutable-object-shared-between-entries', True)
    return n


# ---------------------------------------------------------------- K22g every section of the solution is read back
def k22g_every_section_read_back(core, rep):
    """PDFFiller._add_form(section) registers the lines of the form and reads the section's values back on every normal
    return: forms without a template of their own (W-2, 1099, worksheets) are read by the value functions of the forms
    that are filled, and their values must come back typed like everything else."""
    f = core.method('PDFFiller', '_add_form')
    rets = [x for x in ast.walk(f.node) if isinstance(x, ast.Return)]
    rep.ob('K22g', 'no-early-return-in-_add_form', not rets,
           f'PDFFiller._add_form() returns early (`{unparse(_cond_of(rets[0]), 60) if rets else ""}`): the section of such a form is neither registered nor read back, so its numbers, flags and '
           'enumeration members never reach the filler (value functions of other forms that look at them see nothing)', _w(f, rets[0]) if rets else _w(f))
    must = {'_read_form_fields': None, 'append': None}
    for st in f.node.body:
        for c in calls_in(st):
            nm = call_name(c)
            if nm in must and must[nm] is None:
                must[nm] = (st, c)
    for nm, hit in must.items():
        uncond = hit is not None and not isinstance(hit[0], (ast.If, ast.Try, ast.While, ast.For))
        rep.ob('K22g', f'{nm}-unconditional', uncond, f'PDFFiller._add_form() does not call {nm}() on every path', _w(f))
    callers = [c for fn in core.funcs if fn.rel == f.rel for c in calls_in(fn.node) if call_name(c) == '_add_form']
    loops = [c for c in callers if any(isinstance(p_, ast.For) for p_ in _parents(c))]
    rep.ob('K22g', 'called-for-every-section', bool(loops), 'PDFFiller no longer adds a form for every section of the solution', _w(f))


def _parents(n):
    p = getattr(n, 'parent', None)
    while p is not None:
        yield p
        p = getattr(p, 'parent', None)


def _cond_of(ret):
    for p in _parents(ret):
        if isinstance(p, ast.If):
            return p.test
    return ret


# ---------------------------------------------------------------- K0 the request is registered as a whole before anything is attempted
def k0_solve_shape(core, rep):
    """Solver.solve() first adds every requested form and only then starts attempting lines.  Anything attempted from inside
    the loop over the requested forms runs while the forms named later are still unknown to the solver (`Field.form(name)`
    fails, prompts and the attempt order depend on the order of the request).  Uses no inferred role: it also runs when the
    role inference fails on a restructured solve()."""
    f = core.func('habutax/solver.py', 'Solver', 'solve')
    params = [a.arg for a in f.node.args.args]
    if len(params) < 2:
        raise AnalysisError('Solver.solve() takes no list of forms (anchor vanished)')
    loops = [n for n in f.node.body if isinstance(n, ast.For) and isinstance(n.iter, ast.Name) and n.iter.id == params[1]]
    if len(loops) != 1:
        raise AnalysisError('Solver.solve(): the loop over the requested forms was not found (anchor vanished)')
    calls = [c for st in loops[0].body for c in calls_in(st)]
    def _attempts(c):
        nm = call_name(c)
        if nm in ('_attempt_field', '_attempt_input', 'met_dependents'):
            return True
        if nm == '_add_form' or not (isinstance(c.func, ast.Attribute) and isinstance(c.func.value, ast.Name) and c.func.value.id == params[0]):
            return False
        try:
            g = core.func(f.rel, 'Solver', nm)
        except AnalysisError:
            return False
        return any(h.name in ('_attempt_field', '_attempt_input', 'met_dependents') for h in core.reachable_from(g))
    other = [c for c in calls if _attempts(c)]
    rep.ob('K0', 'requested-forms-are-all-added-before-anything-is-attempted', bool(calls) and not other,
           f'Solver.solve() calls {unparse(other[0], 50) if other else "nothing"} inside the loop over the requested forms: lines are attempted (and questions asked) while the forms named '
           'later in the request are still unknown - a reference to such a form fails or resolves differently, so the result depends on the order in which the forms were requested',
           f'{f.rel}:{other[0].lineno}' if other else _w(f))
    # every requested name reaches _add_form: the call sits in the loop body itself, handed the loop variable, and the only
    # skip before it that is accepted is one that tests the WHOLE requested name (`if form_name in seen: continue`) - a skip
    # keyed by part of the name drops the second copy of a form (w-2:0, w-2:1), a `break` drops the rest of the request
    lv = loops[0].target.id if isinstance(loops[0].target, ast.Name) else None
    adds = [(k, st) for k, st in enumerate(loops[0].body) if isinstance(st, ast.Expr) and isinstance(st.value, ast.Call) and call_name(st.value) == '_add_form'
            and st.value.args and isinstance(st.value.args[0], ast.Name) and st.value.args[0].id == lv]
    bad = None
    if not adds:
        inner = [c for c in calls if call_name(c) == '_add_form']
        bad = inner[0] if inner else loops[0]
        why = 'the call of _add_form is conditional (or is not handed the requested name itself)'
    else:
        for st in loops[0].body[:adds[0][0]]:
            for x in ast.walk(st):
                if isinstance(x, ast.Break):
                    bad, why = x, 'a `break` ends the loop before the rest of the request is added'
                elif isinstance(x, ast.Continue):
                    par = next((p for p in ast.walk(st) if isinstance(p, ast.If) and any(y is x for b in (p.body, p.orelse) for z in b for y in ast.walk(z))), None)
                    t = par.test if par is not None else None
                    # the requested name is tested whole: every occurrence of the loop variable in the condition stands bare
                    # (`form_name in seen`, `'.' in form_name`), never under a call, attribute or subscript that takes a part of it
                    def _bare(tst):
                        occ = [y for y in ast.walk(tst) if isinstance(y, ast.Name) and y.id == lv]
                        part = [y for y in ast.walk(tst) if isinstance(y, (ast.Attribute, ast.Subscript, ast.Call, ast.Starred))
                                and any(isinstance(z, ast.Name) and z.id == lv for z in ast.walk(y))]
                        derived = [z for z in ast.walk(tst) if isinstance(z, ast.Name) and z.id != lv and z.id in part_names]
                        return bool(occ) and not part and not derived
                    part_names = {tt.id for s_ in loops[0].body for a_ in ast.walk(s_) if isinstance(a_, ast.Assign)
                                  and any(isinstance(z, ast.Name) and z.id == lv for z in ast.walk(a_.value))
                                  for t_ in a_.targets for tt in ast.walk(t_) if isinstance(tt, ast.Name)}
                    whole = t is not None and _bare(t)
                    if not whole:
                        bad, why = x, f'a requested name is skipped under `{unparse(t, 50) if t is not None else "?"}`, which does not test the whole name'
    rep.ob('K0', 'every-requested-name-is-added', bad is None,
           f'Solver.solve(): {why if bad is not None else ""}: a form the user asked for (a second copy such as w-2:1 after w-2:0) is never added - its lines are missing from the solution, its '
           'problems are not reported, and which copy survives depends on the order of the request', f'{f.rel}:{bad.lineno}' if bad is not None else _w(f))
    first_other = next((i for i, st in enumerate(f.node.body) if st is loops[0]), None)
    before = [c for st in f.node.body[:first_other] for c in calls_in(st) if call_name(c) in ('_attempt_field', '_attempt_input', 'met_dependents')]
    rep.ob('K0', 'nothing-attempted-before-the-request-is-registered', not before, 'Solver.solve() attempts lines before it has added the requested forms', _w(f))


# ---------------------------------------------------------------- K39 the year the user names is the year that is used
def k39_cli_options_defined_once(core, rep):
    """argparse copies a sub-command's namespace - its DEFAULTS included - over the top-level one.  An option that is defined on
    the top-level parser and again on a sub-command (`habutax --year 2021 solve ...` next to `solve --year`) is accepted at
    the top level and then silently replaced by the sub-command's default: the return is solved, and stamped, with the
    latest year's forms.  Every option destination is therefore defined at one level only."""
    f = core.func('habutax/__init__.py', None, 'main')
    top, holders, subs = set(), set(), set()
    for n in ast.walk(f.node):
        if isinstance(n, ast.Assign) and len(n.targets) == 1 and isinstance(n.targets[0], ast.Name) and isinstance(n.value, ast.Call):
            nm = call_name(n.value)
            if nm == 'ArgumentParser':
                top.add(n.targets[0].id)
            elif nm == 'add_subparsers':
                holders.add(n.targets[0].id)
            elif nm == 'add_parser':
                subs.add(n.targets[0].id)
    if not top or not subs:
        raise AnalysisError('main(): the argument parsers were not found (anchor vanished)')

    def dests(c):
        out = set()
        if call_name(c) == 'set_defaults':
            return {k.arg for k in c.keywords if k.arg and k.arg != 'func'}
        d = next((k.value.value for k in c.keywords if k.arg == 'dest' and isinstance(k.value, ast.Constant)), None)
        if d:
            return {d}
        names = [a.value for a in c.args if isinstance(a, ast.Constant) and isinstance(a.value, str)]
        longs = [x for x in names if x.startswith('--')]
        if longs:
            out.add(longs[0][2:].replace('-', '_'))
        elif names:
            out.add(names[0].lstrip('-').replace('-', '_'))
        return out
    at_top, at_sub = {}, {}
    for c in calls_in(f.node):
        if call_name(c) in ('add_argument', 'set_defaults') and isinstance(c.func, ast.Attribute) and isinstance(c.func.value, ast.Name):
            tgt = at_top if c.func.value.id in top else at_sub if c.func.value.id in subs else None
            if tgt is not None:
                for d in dests(c):
                    tgt.setdefault(d, c)
    rep.floor('option destinations defined on the sub-commands', len(at_sub), 8)
    both = sorted(set(at_top) & set(at_sub))
    rep.ob('K39', 'every-option-is-defined-at-one-level', not both,
           f'main(): {both} is defined on the top-level parser and again on a sub-command: given before the sub-command it is accepted and then replaced by the sub-command\'s default '
           '(argparse copies the sub-command\'s namespace, defaults included, over the top-level one) - `--year 2021 solve ...` is solved and stamped with the latest year\'s forms',
           f'{f.rel}:{at_top[both[0]].lineno}' if both else _w(f))
    yr = at_sub.get('year')
    sv = next((c for c in calls_in(f.node) if call_name(c) == 'add_argument' and isinstance(c.func.value, ast.Name) and c.func.value.id in subs
               and any(isinstance(a, ast.Constant) and a.value == '--year' for a in c.args) and any(k.arg == 'choices' for k in c.keywords)), None)
    rep.ob('K39', 'solve-takes-a-year-of-the-catalogue', yr is not None and sv is not None and any(k.arg == 'type' and unparse(k.value) == 'int' for k in sv.keywords),
           'main(): the solve sub-command no longer takes an integer --year restricted to the years of the catalogue', _w(f))


# ---------------------------------------------------------------- K40 the working state of a solver / filler / store belongs to the instance
def k40_state_belongs_to_the_instance(core, rep, classes=('Solver', 'DependencyTracker', 'PDFFiller', 'ValueStore', 'InputStore')):
    """A list, dict or store written in the CLASS body is one object for every instance.  When the methods fill it in place
    (`self.forms.append`, `self._values[name] = v`) and the constructor does not give the instance its own, a second
    solver / filler in the same process starts with - and adds to - what the first one left: values of another return are
    read back, forms are filled twice."""
    n = 0
    for cname in classes:
        ci = core.classes.classes.get(cname)
        if ci is None:
            raise AnalysisError(f'class {cname} not found (anchor vanished)')
        shared = {}
        for st in ci.node.body:
            if isinstance(st, (ast.Assign, ast.AnnAssign)) and st.value is not None:
                tg = st.targets if isinstance(st, ast.Assign) else [st.target]
                val = st.value
                mut = _mutable_literal(val) or (isinstance(val, ast.Call) and not (isinstance(val.func, ast.Name) and val.func.id in ('tuple', 'frozenset', 'str', 'int', 'float', 'bool', 'property', 'staticmethod', 'classmethod', 'object')))
                for t in tg:
                    if isinstance(t, ast.Name) and mut:
                        shared[t.id] = st
        methods = [m for m in ci.node.body if isinstance(m, ast.FunctionDef)]
        init = next((m for m in methods if m.name == '__init__'), None)
        own = set()
        if init is not None:
            for x in ast.walk(init):
                if isinstance(x, (ast.Assign, ast.AnnAssign)):
                    for t0 in (x.targets if isinstance(x, ast.Assign) else [x.target]):
                        for t in ast.walk(t0):
                            if isinstance(t, ast.Attribute) and self_attr(t) and isinstance(t.ctx, ast.Store):
                                own.add(t.attr)
        n += len(methods)
        for nm, st in sorted(shared.items()):
            if nm in own:
                continue
            hit = None
            for m in methods:
                for x in ast.walk(m):
                    if isinstance(x, ast.Call) and isinstance(x.func, ast.Attribute) and x.func.attr in ('append', 'extend', 'add', 'update', 'insert', 'setdefault', 'pop', 'remove', 'clear', 'popitem', 'sort') \
                            and isinstance(x.func.value, ast.Attribute) and self_attr(x.func.value) and x.func.value.attr == nm:
                        hit = hit or x
                    if isinstance(x, (ast.Assign, ast.AugAssign, ast.Delete)):
                        for t in (x.targets if isinstance(x, (ast.Assign, ast.Delete)) else [x.target]):
                            if isinstance(t, ast.Subscript) and isinstance(t.value, ast.Attribute) and self_attr(t.value) and t.value.attr == nm:
                                hit = hit or x
            if hit is not None:
                rep.ob('K40', f'{cname}.{nm}/own-object-per-instance', False,
                       f'{cname}.{nm} is created once in the class body (`{unparse(st, 50)}`) and filled in place by the methods (`{unparse(hit, 50)}`), and __init__ does not give the instance its own: '
                       f'every {cname} of the process shares it - a second one starts with what the first left behind', f'{ci.rel}:{st.lineno}')
        rep.ob('K40', f'{cname}/state-belongs-to-the-instance', True)
    rep.floor('methods of the stateful core classes looked at', n, 40)
    return n


# ---------------------------------------------------------------- K41 form, line and input objects answer from what they were built with
def k41_definitions_keep_no_memory(core, rep, modules=('habutax/form.py', 'habutax/fields.py', 'habutax/inputs.py', 'habutax/pdf_fields.py'),
                                   stateful=('InputStore', 'FormAccessor')):
    """Outside their constructors (`__init__`, `__form_init__`) the classes that describe forms, lines, inputs and boxes
    write nothing: no attribute of the object or its class is assigned, no table hanging off it is filled in place.  A
    look-up that remembers its first answer (`Form.threshold` caching the entry that applied) gives the second return of
    the process - or the second key asked for in one solve - the first one's amount."""
    n = 0
    for fn in core.funcs:
        if fn.rel not in modules or fn.cls is None or fn.cls in stateful or fn.name in ('__init__', '__form_init__'):
            continue
        n += 1
        me = fn.node.args.args[0].arg if fn.node.args.args else None
        hit = None
        for x in ast.walk(fn.node):
            if isinstance(x, (ast.Assign, ast.AugAssign, ast.AnnAssign, ast.Delete)):
                for t in (x.targets if isinstance(x, (ast.Assign, ast.Delete)) else [x.target]):
                    for e in ast.walk(t) if isinstance(t, (ast.Tuple, ast.List)) else [t]:
                        base = e
                        while isinstance(base, (ast.Subscript, ast.Attribute)):
                            base = base.value
                            if isinstance(base, ast.Name) and base.id in (me, fn.cls, 'type') and isinstance(e, (ast.Attribute, ast.Subscript)):
                                hit = hit or x
            if isinstance(x, ast.Call) and isinstance(x.func, ast.Attribute) and x.func.attr in ('append', 'extend', 'add', 'update', 'insert', 'setdefault', 'pop', 'remove', 'clear', 'popitem', '__setitem__', '__setattr__') \
                    and isinstance(x.func.value, (ast.Attribute, ast.Subscript)):
                base = x.func.value
                while isinstance(base, (ast.Subscript, ast.Attribute)):
                    base = base.value
                if isinstance(base, ast.Name) and base.id in (me, fn.cls):
                    hit = hit or x
            if isinstance(x, ast.Call) and isinstance(x.func, ast.Name) and x.func.id == 'setattr':
                hit = hit or x
            if isinstance(x, (ast.Global, ast.Nonlocal)):
                hit = hit or x
        rep.ob('K41', f'{fn.qual}/writes-nothing', hit is None,
               f'{fn.qual}() writes to the object or its class outside the constructor (`{unparse(hit, 60) if hit is not None else ""}`): what it answers now depends on what it was asked before - '
               'by another line of the same solve or by an earlier return solved in the same process', _w(fn, hit) if hit is not None else _w(fn))
    rep.floor('methods of the describing classes looked at', n, 60)
    return n


# ---------------------------------------------------------------- K35 the input file is loaded once, whole and unchanged, when the store is built
def k35_store_loaded_eagerly(core, rep):
    """InputStore.__init__ parses the file it is given there and then, and keeps it as read: `config` is a plain attribute
    bound in the constructor (not a property that loads on first use - write() truncates the file before it would load it),
    and nothing in the constructor rewrites the parsed configuration (renaming a section onto an existing one clears it)."""
    ci = core.classes.classes.get('InputStore')
    if ci is None:
        raise AnalysisError('class InputStore not found (anchor vanished)')
    init = core.method('InputStore', '__init__')
    props = [m for m in ci.node.body if isinstance(m, ast.FunctionDef) and any(unparse(d).split('.')[-1] in ('property', 'cached_property', 'setter') for d in m.decorator_list)]
    wr = core.method('InputStore', 'write')
    written = {x.attr for c in calls_in(wr.node) if call_name(c) == 'write' and isinstance(c.func, ast.Attribute) for x in ast.walk(c.func.value) if isinstance(x, ast.Attribute) and self_attr(x)}
    lazy = [m for m in props if m.name in written or any(call_name(c) in ('read', 'read_file', 'open') for c in calls_in(m))]
    rep.ob('K35', 'configuration-is-a-plain-attribute', not lazy,
           f'InputStore.{lazy[0].name if lazy else ""} is a property that loads the file on first use: a write-back that happens before anything was read (the solve was cut short before the '
           'first question) truncates the file first and then "loads" the empty file - every value it held is gone', f'{ci.rel}:{lazy[0].lineno}' if lazy else ci.rel)
    reads = [c for c in calls_in(init.node) if call_name(c) in ('read_file', 'read') and isinstance(c.func, ast.Attribute)]
    rep.ob('K35', 'file-parsed-in-the-constructor', bool(reads), 'InputStore.__init__ does not parse the input file', _w(init))
    # ConfigParser.read(path) skips, without a word, every file it cannot open (missing, unreadable, too many open files):
    # the store is then empty and every supplied input is reported missing.  The file is opened by the constructor itself.
    lenient = [c for c in reads if call_name(c) == 'read']
    opened = [c for c in calls_in(init.node) if call_name(c) == 'open' and isinstance(c.func, ast.Name)]
    guarded = [h for t in ast.walk(init.node) if isinstance(t, ast.Try) for h in t.handlers
               if any(c in list(calls_in(t)) for c in opened + reads) and not any(isinstance(x, ast.Raise) for x in ast.walk(h))]
    rep.ob('K35', 'a-file-that-cannot-be-opened-is-an-error', bool(reads) and not lenient and bool(opened) and not guarded,
           f'InputStore.__init__ {"parses the file with ConfigParser.read(), which silently skips a file it cannot open" if lenient else "swallows the error of opening / parsing the file" if guarded else "no longer opens the file itself"}: '
           'an input file that exists and holds the inputs but cannot be read gives an empty store - every supplied input is reported as needed but not supplied (or asked again)',
           _w(init, (lenient or [None])[0]) if lenient else _w(init))
    muts = []
    for x in ast.walk(init.node):
        if isinstance(x, ast.Call) and isinstance(x.func, ast.Attribute) and x.func.attr in ('remove_section', 'remove_option', 'set', 'add_section', 'update', 'pop', 'popitem', 'clear', 'setdefault', 'read_dict', 'read_string') \
                and 'config' in unparse(x.func.value):
            muts.append(x)
        if isinstance(x, (ast.Assign, ast.AugAssign, ast.Delete)):
            for t_ in (x.targets if isinstance(x, (ast.Assign, ast.Delete)) else [x.target]):
                if isinstance(t_, ast.Subscript) and 'config' in unparse(t_.value):
                    muts.append(x)
    rep.ob('K35', 'constructor-keeps-the-file-as-read', not muts,
           f'InputStore.__init__ rewrites the parsed file (`{unparse(muts[0], 60) if muts else ""}`): assigning a section to a name that already exists clears that section first, removing '
           'sections or options drops values - the next write-back then removes them from the file', _w(init, muts[0]) if muts else _w(init))


# ---------------------------------------------------------------- K36 mutable default arguments are never written to
def k36_mutable_defaults_untouched(core, rep):
    """A default such as `field_names=[]` is one object for the life of the process.  A function that appends to, or stores
    into, a parameter with such a default leaves the addition behind for every later call that relies on the default: a
    second solve (or fill) in the same process starts with the leftovers of the first."""
    n = 0
    for fn in core.funcs:
        a = fn.node.args
        params = a.posonlyargs + a.args
        defaults = [None] * (len(params) - len(a.defaults)) + list(a.defaults)
        pairs = list(zip(params, defaults)) + list(zip(a.kwonlyargs, a.kw_defaults))
        for prm, dflt in pairs:
            if dflt is None or not _mutable_literal(dflt):
                continue
            n += 1
            name = prm.arg
            # rebinding the name to a fresh object first (`x = list(x)`) ends the aliasing with the default
            fresh = [x.lineno for x in fn.node.body if isinstance(x, ast.Assign) and any(isinstance(t_, ast.Name) and t_.id == name for t_ in x.targets)
                     and isinstance(x.value, (ast.Call, ast.List, ast.Dict, ast.Set, ast.ListComp, ast.DictComp, ast.SetComp, ast.BinOp, ast.Subscript))]
            first_fresh = min(fresh) if fresh else None
            muts = []
            for x in ast.walk(fn.node):
                if isinstance(x, ast.Call) and isinstance(x.func, ast.Attribute) and isinstance(x.func.value, ast.Name) and x.func.value.id == name \
                        and x.func.attr in MUTATORS + ('add', 'setdefault', 'sort', 'reverse', 'discard', 'popitem'):
                    muts.append(x)
                if isinstance(x, (ast.Assign, ast.AugAssign, ast.Delete)):
                    for t_ in (x.targets if isinstance(x, (ast.Assign, ast.Delete)) else [x.target]):
                        if isinstance(t_, ast.Subscript) and isinstance(t_.value, ast.Name) and t_.value.id == name:
                            muts.append(x)
                        if isinstance(x, ast.AugAssign) and isinstance(t_, ast.Name) and t_.id == name:
                            muts.append(x)
            if first_fresh is not None:
                muts = [m_ for m_ in muts if m_.lineno < first_fresh]
            rep.ob('K36', f'{fn.qual}({name}={unparse(dflt)})', not muts,
                   f'{fn.qual}() changes its parameter `{name}` in place (`{unparse(muts[0], 50) if muts else ""}`), and `{name}` defaults to the literal {unparse(dflt)}: the change is kept '
                   'in the default object, so every later call that relies on the default - another solve or fill in the same process - starts with what this one left behind',
                   f'{fn.rel}:{muts[0].lineno}' if muts else _w(fn))
    if n < 2:
        raise AnalysisError('no function with a mutable default found (the rule expects solve(field_names=[]) and InputStore(input_specs={}); anchor vanished)')


# ---------------------------------------------------------------- K11j valid() and value() look the same text up
def k11j_validator_and_converter_agree(core, rep):
    """EnumInput.valid() decides on the normalised text (`super().value(string)`, i.e. stripped) and value() must look that
    same normalised text up: a converter that indexes the enumeration with the raw text raises KeyError for an answer the
    validator accepted (`Single ` typed at the prompt) - inside the solver, after the answer was stored."""
    n = 0
    for cname, ci in core.classes.classes.items():
        if ci.rel != 'habutax/inputs.py' or 'valid' not in ci.methods or 'value' not in ci.methods:
            continue
        keys = {}
        for mname in ('valid', 'value'):
            m = ci.methods[mname]
            prm = m.args.args[1].arg if len(m.args.args) > 1 else None
            normalised = any(isinstance(x, ast.Assign) and any(isinstance(t_, ast.Name) and t_.id == prm for t_ in x.targets)
                             and (('super().value(' in unparse(x.value)) or ('.strip()' in unparse(x.value))) for x in ast.walk(m))
            subs = [x for x in ast.walk(m) if isinstance(x, ast.Subscript) and isinstance(x.ctx, ast.Load)
                    and (self_attr(x.value) == 'enum' or (isinstance(x.value, ast.Attribute) and x.value.attr == '__members__' and self_attr(x.value.value) == 'enum'))]
            subs += [c for c in calls_in(m) if isinstance(c.func, ast.Attribute) and c.func.attr in ('get', '__getitem__') and 'self.enum' in unparse(c.func.value)]
            keys[mname] = (normalised, [unparse(x.slice) if isinstance(x, ast.Subscript) else unparse(x.args[0]) if x.args else '' for x in subs], prm)
        if not keys['valid'][1] and not keys['value'][1]:
            continue
        n += 1
        v_norm, v_subs, v_prm = keys['valid']
        c_norm, c_subs, c_prm = keys['value']
        same = (v_norm == c_norm) or all(('.strip()' in k) for k in c_subs)
        rep.ob('K11j', f'{cname}/value-looks-up-what-valid-accepted', same and bool(c_subs),
               f'{cname}.valid() looks the {"normalised" if v_norm else "raw"} text up in the enumeration but value() looks up the {"normalised" if c_norm else "raw"} text: an answer that differs '
               'from a member only by surrounding blanks passes validation, is stored, and then raises KeyError when a line reads it', f'{ci.rel}:{ci.methods["value"].lineno}')
    if n < 1:
        raise AnalysisError('no input class with an enumeration lookup in valid()/value() found (anchor vanished)')


# ---------------------------------------------------------------- K25b list-forms prints every name in full
def k25b_list_forms_prints_names_whole(core, rep):
    """The name column of `list-forms` is what the user copies into --form / list-form-inputs: it is padded, never cut.  A
    precision in the format field (`{:>30.30}`), a slice of the name or a textwrap.shorten() prints a name that is not a
    form of the catalogue."""
    import re as _re
    f = core.func('habutax/__init__.py', None, 'list_forms')
    fmts = [n for n in ast.walk(f.node) if isinstance(n, ast.Constant) and isinstance(n.value, str) and '{' in n.value and '|' in n.value]
    if not fmts:
        raise AnalysisError('list_forms(): the row format was not found (anchor vanished)')
    for c in fmts:
        first = _re.match(r'\s*\{([^{}]*(?:\{[^{}]*\}[^{}]*)*)\}', c.value)
        spec = first.group(1).partition(':')[2] if first else ''
        rep.ob('K25b', 'name-column-is-not-cut', '.' not in spec,
               f'list-forms formats the name column with `{{:{spec}}}`: a precision cuts names longer than the column, and the printed name is then not the name of any form '
               '(list-form-inputs and --form reject it)', _w(f, c))
    loopvars = [n.target.id for n in ast.walk(f.node) if isinstance(n, ast.For) and isinstance(n.target, ast.Name)]
    names = [x for x in ast.walk(f.node) if isinstance(x, ast.Assign) and isinstance(x.targets[0], ast.Name) and isinstance(x.value, ast.Attribute) and x.value.attr == 'form_name']
    cut = [x for x in ast.walk(f.node) if isinstance(x, ast.Subscript) and isinstance(x.slice, ast.Slice) and any(isinstance(y, ast.Name) and names and y.id == names[0].targets[0].id for y in ast.walk(x.value))]
    cut += [c for c in calls_in(f.node) if call_name(c) in ('shorten', 'truncate', 'ljust_cut')]
    rep.ob('K25b', 'name-printed-is-form_name', bool(names) and not cut, 'list-forms slices or shortens the form name it prints', _w(f, cut[0]) if cut else _w(f))


# ---------------------------------------------------------------- K38 the solver object: always truthy, registries its own
def k38_solver_object(core, rep):
    """`Form.solver()` guards with `assert self._solver`, a truthiness test: the Solver class must not define __bool__ or
    __len__ (a solver that is "falsy until solved" trips that assertion in every `s.form(name)` lookup during the solve).
    The registries the solver fills (_input_map, _field_map, forms ...) are containers of its own, created in __init__ -
    not an attribute of an argument (the input store's specification dict is the shared default `{}` of InputStore)."""
    s = core.solver
    ci = core.classes.classes.get(s.name)
    dunder = [m for m in ('__bool__', '__len__') if ci is not None and m in ci.methods]
    truth_tests = [n for rel, n in core.all_nodes((ast.Assert, ast.If)) if rel == 'habutax/form.py' and '_solver' in unparse(n.test) and not isinstance(n.test, ast.Compare)]
    rep.ob('K38', 'solver-is-always-truthy', not dunder or not truth_tests,
           f'{s.name} defines {dunder} while habutax/form.py tests the solver for truth (`{unparse(truth_tests[0].test, 40) if truth_tests else ""}`): whenever the method answers False '
           '(before the solve has succeeded) every cross-form lookup `s.form(name)` dies with an AssertionError', f'{s.rel}:{ci.methods[dunder[0]].lineno}' if dunder else s.rel)
    init = core.func(s.rel, s.name, '__init__')
    params = {a.arg for a in init.node.args.args[1:]}
    n = 0
    for st in ast.walk(init.node):
        if not (isinstance(st, ast.Assign) and len(st.targets) == 1 and self_attr(st.targets[0])):
            continue
        attr = self_attr(st.targets[0])
        # containers the solver writes into
        written = any((isinstance(x, (ast.Assign, ast.AugAssign)) and any(isinstance(t_, ast.Subscript) and self_attr(t_.value) == attr for t_ in (x.targets if isinstance(x, ast.Assign) else [x.target])))
                      or (isinstance(x, ast.Call) and isinstance(x.func, ast.Attribute) and self_attr(x.func.value) == attr and x.func.attr in MUTATORS + ('add', 'append', 'extend'))
                      or (isinstance(x, ast.AugAssign) and self_attr(x.target) == attr)
                      for fn in core.funcs if fn.rel == s.rel and fn.cls == s.name for x in ast.walk(fn.node))
        if not written:
            continue
        n += 1
        # the argument itself (the input store the answers are meant to go into) is the caller's on purpose; a part of an argument is not
        borrowed = isinstance(st.value, ast.Attribute) and isinstance(st.value.value, ast.Name) and st.value.value.id in params
        rep.ob('K38', f'registry-is-the-solvers-own/{attr}', not borrowed,
               f'{s.name}.__init__ binds self.{attr} to `{unparse(st.value, 40)}`, an object that belongs to an argument, and the solver writes into it: registrations leak into the other '
               'object (and, where that is a shared default, into every later solver of the process - a later solve validates with an earlier year\'s inputs)', f'{s.rel}:{st.lineno}')
    if n < 4:
        raise AnalysisError(f'only {n} registries of the solver found (anchor vanished)')


# ---------------------------------------------------------------- K24 dependency tracker shape
def k24_tracker_shape(core, rep, parts=('a', 'b', 'c', 'd')):
    s = core.solver
    if 'a' in parts:
        f = core.method('DependencyTracker', 'add_unmet')
        g = f.cfg
        params = [a.arg for a in f.node.args.args]
        dep, waiter = params[1], params[2]
        recs = []
        for n in g.nodes:
            if n.kind != 'stmt' or n.ast is None:
                continue
            for x in ast.walk(n.ast):
                if isinstance(x, ast.Assign) and isinstance(x.targets[0], ast.Subscript) and self_attr(x.targets[0].value) == '_unmet' \
                        and unparse(x.targets[0].slice) == dep and isinstance(x.value, ast.List) and [unparse(e) for e in x.value.elts] == [waiter]:
                    recs.append(n)
                if isinstance(x, ast.Call) and call_name(x) == 'append' and isinstance(x.func.value, ast.Subscript) and self_attr(x.func.value.value) == '_unmet' \
                        and unparse(x.func.value.slice) == dep and [unparse(a) for a in x.args] == [waiter]:
                    recs.append(n)
                # self._unmet.setdefault(dep, []).append(waiter) - directly, or through a local bound to the setdefault
                if isinstance(x, ast.Call) and call_name(x) == 'append' and [unparse(a) for a in x.args] == [waiter]:
                    tgt = x.func.value
                    if isinstance(tgt, ast.Name):
                        defs_ = [y.value for y in ast.walk(f.node) if isinstance(y, ast.Assign) and len(y.targets) == 1 and isinstance(y.targets[0], ast.Name) and y.targets[0].id == tgt.id]
                        tgt = defs_[0] if len(defs_) == 1 else tgt
                    if isinstance(tgt, ast.Call) and call_name(tgt) == 'setdefault' and self_attr(tgt.func.value) == '_unmet' and len(tgt.args) == 2 \
                            and unparse(tgt.args[0]) == dep and isinstance(tgt.args[1], ast.List) and not tgt.args[1].elts:
                        recs.append(n)
        ok = bool(recs) and not g.paths_avoiding(g.entry, g.exit, {n.id for n in recs})
        rep.ob('K24a', 'add_unmet-records-every-waiter', ok,
               f'DependencyTracker.add_unmet() has a path on which the waiter `{waiter}` is not recorded under `{dep}`: that line would never be re-attempted nor reported', _w(f))
    if 'b' in parts:
        f = core.method('DependencyTracker', 'meet')
        g = f.cfg
        dep = f.node.args.args[1].arg
        recs = [n for n in g.nodes if n.kind == 'stmt' and n.ast is not None and (any(
            call_name(c) == 'append' and self_attr(c.func.value) == '_met' and [unparse(a) for a in c.args] == [dep] for c in calls_in(n.ast))
            # `self._met += [dep]` / `self._met.extend([dep])` extend the very list in place, like append
            or any(isinstance(x, ast.AugAssign) and isinstance(x.op, ast.Add) and self_attr(x.target) == '_met' and isinstance(x.value, ast.List) and [unparse(e) for e in x.value.elts] == [dep] for x in ast.walk(n.ast))
            or any(call_name(c) == 'extend' and self_attr(c.func.value) == '_met' and len(c.args) == 1 and isinstance(c.args[0], (ast.List, ast.Tuple)) and [unparse(e) for e in c.args[0].elts] == [dep] for c in calls_in(n.ast)))]
        ok = bool(recs) and not g.paths_avoiding(g.entry, g.exit, {n.id for n in recs})
        rep.ob('K24b', 'meet-records-every-satisfied-dependency', ok, 'DependencyTracker.meet() has a path on which the satisfied dependency is not recorded', _w(f))
    if 'c' in parts:
        f = core.method('DependencyTracker', 'met_dependents')
        g = f.cfg
        n_rm = 0
        for n in g.nodes:
            if n.kind != 'stmt' or n.ast is None:
                continue
            for x in ast.walk(n.ast):
                rm_unmet = (isinstance(x, ast.Delete) and any(isinstance(t, ast.Subscript) and self_attr(t.value) == '_unmet' for t in x.targets)) or \
                           (isinstance(x, ast.Call) and call_name(x) in ('pop', 'popitem', 'clear') and self_attr(x.func.value) == '_unmet')
                rm_met = (isinstance(x, ast.Call) and call_name(x) in ('pop', 'remove', 'clear') and self_attr(x.func.value) == '_met') or \
                         (isinstance(x, ast.Delete) and any(isinstance(t, ast.Subscript) and self_attr(t.value) == '_met' for t in x.targets))
                if not (rm_unmet or rm_met):
                    continue
                n_rm += 1
                facts = g.branch_facts(n)
                empty = any(t.startswith('EMPTY(self._unmet[') and pol is True for t, pol in facts) or any(t.startswith('NONEMPTY(self._unmet[') and pol is False for t, pol in facts)
                absent = any(' in self._unmet' in t and ' not in ' not in t and pol is False for t, pol in facts) or any(' not in self._unmet' in t and pol is True for t, pol in facts)
                if rm_unmet:
                    rep.ob('K24c', f'unmet-entry-removed-only-when-drained@{unparse(x, 40)}', empty,
                           f'met_dependents() removes an entry of the unmet table ({unparse(x)}) before all of its waiters were handed out: an interrupted drain, or a waiter registered meanwhile, is lost', _w(f, n.ast))
                else:
                    rep.ob('K24c', f'met-entry-removed-only-when-drained@{unparse(x, 40)}', empty or absent,
                           f'met_dependents() forgets a satisfied dependency ({unparse(x)}) while waiters may still be queued on it', _w(f, n.ast))
        # the list of satisfied names is only ever appended to (meet) and popped from (the drain): rebinding it wholesale
        # forgets names that were met while a drain was suspended between two yields - their waiters are never released
        dt = core.classes.classes.get('DependencyTracker')
        wipes = []
        for mname, m in (dt.methods.items() if dt is not None else []):
            if mname == '__init__':
                continue
            for x in ast.walk(m):
                if isinstance(x, (ast.Assign, ast.AugAssign)) and any(self_attr(t_) in ('_met', '_unmet') for t_ in (x.targets if isinstance(x, ast.Assign) else [x.target])):
                    # `+=` on a list extends it in place (the same object, nothing is forgotten); every other (re)binding is a wipe
                    if isinstance(x, ast.AugAssign) and isinstance(x.op, ast.Add) and self_attr(x.target) == '_met' and isinstance(x.value, (ast.List, ast.Tuple)):
                        continue
                    wipes.append((mname, x))
                if isinstance(x, ast.Call) and isinstance(x.func, ast.Attribute) and x.func.attr == 'clear' and self_attr(x.func.value) in ('_met', '_unmet'):
                    wipes.append((mname, x))
        rep.ob('K24c', 'tracker-tables-never-rebound-or-cleared', not wipes,
               f'DependencyTracker.{wipes[0][0] if wipes else ""}() resets a tracker table wholesale (`{unparse(wipes[0][1], 40) if wipes else ""}`): a dependency met while a drain is suspended between '
               'two yields is wiped with it, so the lines waiting for it are never released although it was met after they registered', _w(f, wipes[0][1]) if wipes else _w(f))
        if n_rm < 2:
            raise AnalysisError('met_dependents(): removal statements not found (anchor vanished)')
        ys = [x for x in ast.walk(f.node) if isinstance(x, ast.Yield)]
        srcs = {}
        for x in ast.walk(f.node):
            if isinstance(x, ast.Assign) and isinstance(x.targets[0], ast.Name) and isinstance(x.value, ast.Call) and call_name(x.value) == 'pop' \
                    and isinstance(x.value.func.value, ast.Subscript) and self_attr(x.value.func.value.value) == '_unmet':
                srcs[x.targets[0].id] = x
        ok = bool(ys) and all(isinstance(y.value, ast.Name) and y.value.id in srcs for y in ys)
        rep.ob('K24c', 'yields-the-popped-waiter', ok, 'met_dependents() does not yield exactly the waiters it pops from the unmet table', _w(f))
    if 'd' in parts:
        sv = s.solve
        g = sv.cfg
        calls = [n for n in g.nodes if n.kind in ('stmt', 'test') and n.ast is not None and any(call_name(c) == '_attempt_input' for c in calls_in(n.ast))]
        heads = [n for n in g.nodes if n.kind == 'test' and n.label == 'loop' and any(self_attr(x) == s.queue for x in ast.walk(n.ast))
                 and any(call_name(c) == 'has_met' for c in calls_in(n.ast))]
        drains = [n for n in g.nodes if n.kind == 'iter' and any(call_name(c) == 'met_dependents' and self_attr(c.func.value) == s.input_tracker for c in calls_in(n.ast))]
        if not calls or len(heads) != 1:
            raise AnalysisError('solve(): prompting call or work-list loop head not found (anchor vanished)')
        ok = bool(drains) and all(not g.paths_avoiding(x, heads[0], {d.id for d in drains}) for c in calls for x in c.succ)
        rep.ob('K24d', 'answers-are-drained-before-the-next-round', ok,
               'solve() can go from asking a question back to the head of its work-list loop without draining the lines released by the answers: '
               'the loop condition stays true (met but undrained) while refusal blocks further prompting - a busy loop', _w(sv, calls[0].ast))
        fdr = [n for n in g.nodes if n.kind == 'iter' and any(call_name(c) == 'met_dependents' and self_attr(c.func.value) == s.field_tracker for c in calls_in(n.ast))]
        qloops = [n for n in g.nodes if n.kind == 'test' and n.label == 'loop' and n is not heads[0] and any(self_attr(x) == s.queue for x in ast.walk(n.ast))]
        ok = bool(fdr) and bool(qloops) and all(g.dominates(heads[0], n) for n in fdr + qloops)
        rep.ob('K24d', 'every-round-empties-the-queue-and-drains-released-lines', ok,
               'the work-list loop of solve() no longer empties the queue and drains the lines released by newly stored values in every round', _w(sv))


MUTATORS = ('append', 'extend', 'insert', 'remove', 'pop', 'clear', 'sort', 'reverse', 'popitem', 'update', 'setdefault', '__delitem__', '__setitem__')


def k24e_waiters_only_tracker_mutates(core, rep):
    """The waiter lists of the dependency trackers are changed only by DependencyTracker's own methods.
    (1) nothing outside the class touches its state attributes; (2) accessor methods that hand out an
    internal list (return self.<state> / self.<state>[k] unwrapped) are found, every name bound to such a
    result is followed through assignments and through the parameters of the core functions it is passed
    to (Solver methods by name, the prompt callback = every function given as prompt= to Solver(...)),
    and no mutation (del x[..], x[..] = .., x += .., x.<mutator>()) of such a name exists."""
    cls = 'DependencyTracker'
    init = core.method(cls, '__init__')
    state = sorted({self_attr(t) for x in ast.walk(init.node) if isinstance(x, ast.Assign) for t in x.targets if self_attr(t)})
    if len(state) < 2:
        raise AnalysisError('DependencyTracker.__init__: state attributes not found (anchor vanished)')
    # (1) outside access
    n_out = 0
    for f in core.funcs:
        if f.cls == cls:
            continue
        for x in ast.walk(f.node):
            if isinstance(x, ast.Attribute) and x.attr in state:
                if isinstance(x.value, ast.Name) and x.value.id == 'self' and f.cls and _class_tracks(core, f.cls, x.attr):
                    continue          # the class's own attribute of the same name
                n_out += 1
                rep.ob('K24e', f'{f.qual}@outside-access:{unparse(x, 50)}', False,
                       f'{f.qual} reaches into the dependency tracker\'s state ({unparse(x)}): waiters can be dropped or reordered behind the tracker\'s back', _w(f, x))
    rep.ob('K24e', 'tracker-state-private', n_out == 0, '', _w(init))
    # (2) alias-returning accessors
    aliasing = {}
    ci = core.classes.classes[cls]
    for f in core.funcs:
        if f.cls != cls or f.name == '__init__':
            continue
        for x in ast.walk(f.node):
            if isinstance(x, ast.Return) and x.value is not None:
                v = x.value
                if self_attr(v) in state or (isinstance(v, ast.Subscript) and self_attr(v.value) in state):
                    aliasing[f.name] = f
    tainted = {}          # (id(FuncInfo), name) -> (FuncInfo, origin text)
    by_name = {}
    for f in core.funcs:
        by_name.setdefault(f.name, []).append(f)
    prompts = set()
    for f in core.funcs:
        for c in calls_in(f.node):
            if call_name(c) != 'Solver':
                continue
            for kw in c.keywords:
                if kw.arg != 'prompt':
                    continue
                cands = {n.id for n in ast.walk(kw.value) if isinstance(n, ast.Name)}
                # one level of local assignment: prompt_fn = prompt_input if ... else None
                for x in ast.walk(f.node):
                    if isinstance(x, ast.Assign) and any(isinstance(t, ast.Name) and t.id in cands for t in x.targets):
                        cands |= {n.id for n in ast.walk(x.value) if isinstance(n, ast.Name)}
                prompts |= {n for n in cands if any(g.cls is None for g in by_name.get(n, []))}
    changed = True

    def taint(f, name, why):
        nonlocal changed
        k = (id(f), name)
        if k not in tainted:
            tainted[k] = (f, why)
            changed = True
    rounds = 0
    while changed and rounds < 10:
        changed = False
        rounds += 1
        for f in core.funcs:
            if f.cls == cls:
                continue
            for x in ast.walk(f.node):
                if isinstance(x, ast.Assign) and len(x.targets) == 1 and isinstance(x.targets[0], ast.Name):
                    v = x.value
                    if isinstance(v, ast.Call) and call_name(v) in aliasing and isinstance(v.func, ast.Attribute):
                        taint(f, x.targets[0].id, f'{unparse(v, 60)} hands out the tracker\'s own list')
                    if isinstance(v, ast.Name) and (id(f), v.id) in tainted:
                        taint(f, x.targets[0].id, tainted[(id(f), v.id)][1])
                if isinstance(x, ast.Call):
                    nm = call_name(x)
                    targets = []
                    if isinstance(x.func, ast.Attribute) and isinstance(x.func.value, ast.Name) and x.func.value.id == 'self':
                        if nm == '_prompt':
                            for pn in prompts:
                                targets += [(g, 0) for g in by_name.get(pn, []) if g.cls is None]
                        else:
                            targets += [(g, 1) for g in by_name.get(nm, []) if g.cls == f.cls]
                    elif isinstance(x.func, ast.Name):
                        targets += [(g, 0) for g in by_name.get(nm, []) if g.cls is None]
                    for (g, skip) in targets:
                        params = [a.arg for a in g.node.args.args][skip:]
                        for i, a in enumerate(x.args):
                            direct = isinstance(a, ast.Call) and call_name(a) in aliasing and isinstance(a.func, ast.Attribute)
                            if ((isinstance(a, ast.Name) and (id(f), a.id) in tainted) or direct) and i < len(params):
                                taint(g, params[i], f'passed from {f.qual}')
    n_names = 0
    for (fid, name), (f, why) in sorted(tainted.items(), key=lambda kv: (kv[1][0].qual, kv[0][1])):
        n_names += 1
        bad = []
        # an unconditional rebinding to a fresh copy at the top level of the function ends the aliasing
        fresh_from = None
        for st in f.node.body:
            if isinstance(st, ast.Assign) and len(st.targets) == 1 and isinstance(st.targets[0], ast.Name) and st.targets[0].id == name:
                v = st.value
                is_copy = (isinstance(v, ast.Call) and call_name(v) in ('list', 'sorted', 'tuple', 'copy', 'deepcopy', 'set', 'dict')) or \
                          (isinstance(v, ast.Subscript) and isinstance(v.slice, ast.Slice)) or isinstance(v, (ast.ListComp, ast.List))
                if is_copy:
                    fresh_from = st.lineno
                    break
        for x in ast.walk(f.node):
            if fresh_from is not None and getattr(x, 'lineno', 0) > fresh_from:
                continue
            if isinstance(x, ast.Delete):
                for t in x.targets:
                    if isinstance(t, ast.Subscript) and isinstance(t.value, ast.Name) and t.value.id == name:
                        bad.append(x)
            if isinstance(x, (ast.Assign, ast.AugAssign)):
                ts = x.targets if isinstance(x, ast.Assign) else [x.target]
                for t in ts:
                    if isinstance(t, ast.Subscript) and isinstance(t.value, ast.Name) and t.value.id == name:
                        bad.append(x)
                    if isinstance(x, ast.AugAssign) and isinstance(t, ast.Name) and t.id == name:
                        bad.append(x)
            if isinstance(x, ast.Call) and isinstance(x.func, ast.Attribute) and isinstance(x.func.value, ast.Name) and x.func.value.id == name and x.func.attr in MUTATORS:
                bad.append(x)
        rep.ob('K24e', f'{f.qual}@{name}-not-mutated', not bad,
               f'{f.qual} changes `{name}` ({unparse(bad[0], 60) if bad else ""}), which is the dependency tracker\'s own list of waiting lines ({why}): the waiters removed are never re-attempted and never named in the failure report', _w(f, bad[0] if bad else None))
    if not aliasing:
        rep.notes.append('K24e: no accessor hands out an internal list any more')
    elif n_names < 2:
        raise AnalysisError('K24e: the names bound to the tracker\'s waiter lists were not found (anchor vanished)')
    rep.count('names aliasing tracker lists followed', n_names)


def _class_tracks(core, cname, attr):
    """does class `cname` assign self.<attr> itself (then it is its own attribute)"""
    for f in core.funcs:
        if f.cls == cname:
            for x in ast.walk(f.node):
                if isinstance(x, (ast.Assign, ast.AugAssign)):
                    ts = x.targets if isinstance(x, ast.Assign) else [x.target]
                    if any(self_attr(t) == attr for t in ts):
                        return True
    return False


def k26_cli_requested_forms(core, rep):
    """The forms handed to Solver.solve() by the command line are exactly the forms named with the option:
    (a) the CLI passes args.<dest> itself to <solver>.solve(); (b) nothing in the CLI assigns to or mutates
    args.<dest>; (c) the option that fills <dest> collects values (append / nargs) and declares no default
    and no const - argparse appends the user's values to a non-empty default list."""
    cli = 'habutax/__init__.py'
    f = core.func(cli, None, 'solve')
    arg0 = f.node.args.args[0].arg
    calls = [c for c in calls_in(f.node) if call_name(c) == 'solve' and isinstance(c.func, ast.Attribute)]
    if len(calls) != 1 or not calls[0].args:
        raise AnalysisError('CLI solve(): the call to Solver.solve() was not found (anchor vanished)')
    a = calls[0].args[0]
    if isinstance(a, ast.Call) and call_name(a) in ('list', 'tuple') and len(a.args) == 1 and not a.keywords:
        a = a.args[0]          # a plain copy
    direct = isinstance(a, ast.Attribute) and isinstance(a.value, ast.Name) and a.value.id == arg0
    rep.ob('K26', 'cli-passes-the-named-forms', direct,
           f'the command line hands `{unparse(a, 60)}` to Solver.solve() instead of the list of forms named on the command line: forms are added to or dropped from the request', _w(f, calls[0]))
    if not direct:
        return
    dest = a.attr
    # (b) no writes to args.<dest>
    bad = []
    for g in core.funcs:
        if g.rel != cli:
            continue
        for x in ast.walk(g.node):
            if isinstance(x, (ast.Assign, ast.AugAssign, ast.Delete)):
                ts = x.targets if not isinstance(x, ast.AugAssign) else [x.target]
                for t in ts:
                    base = t.value if isinstance(t, ast.Subscript) else t
                    if isinstance(base, ast.Attribute) and base.attr == dest and not self_attr(base):
                        bad.append((g, x))
            if isinstance(x, ast.Call) and isinstance(x.func, ast.Attribute) and x.func.attr in MUTATORS \
                    and isinstance(x.func.value, ast.Attribute) and x.func.value.attr == dest:
                bad.append((g, x))
    rep.ob('K26', 'cli-does-not-edit-the-request', not bad,
           f'the command line changes the list of requested forms before solving ({unparse(bad[0][1], 60) if bad else ""})', _w(bad[0][0], bad[0][1]) if bad else _w(f))
    # (c) the option declaration
    decl = []
    for g in core.funcs:
        if g.rel != cli:
            continue
        for c in calls_in(g.node):
            if call_name(c) != 'add_argument':
                continue
            kws = {k.arg: k.value for k in c.keywords if k.arg}
            names = [x.value for x in c.args if isinstance(x, ast.Constant) and isinstance(x.value, str)]
            d = kws['dest'].value if 'dest' in kws and isinstance(kws['dest'], ast.Constant) else None
            if d is None and names:
                d = names[-1].lstrip('-').replace('-', '_')
            if d != dest:
                continue
            # only the parser of the solve sub-command: the receiver name is the one whose other options solve() reads
            decl.append((g, c, kws))
    mine = [x for x in decl if any(isinstance(k, ast.Constant) and k.value == 'append' for k in [x[2].get('action')]) or 'nargs' in x[2]]
    if not mine:
        raise AnalysisError(f'CLI: the option filling args.{dest} was not found (anchor vanished)')
    for (g, c, kws) in mine:
        dv = kws.get('default')
        empty = dv is None or _const(dv, None) or (isinstance(dv, (ast.List, ast.Tuple)) and not dv.elts)
        rep.ob('K26', f'option-{dest}-has-no-preset', empty and 'const' not in kws,
               f'the option that collects the requested forms presets `{unparse(dv, 40) if dv is not None else unparse(kws.get("const"), 40)}`: argparse appends the forms named by the user to that list, so a form nobody asked for is solved and written to the solution', _w(g, c))


COMPLETE_OPS = ('join', 'sorted', 'set', 'list', 'tuple', 'frozenset', 'fromkeys', 'str', 'repr', 'format', 'map', 'len')


def k27_complete_diagnostics(core, rep):
    """The failure report names every item of every diagnostic: the collections returned by the solver's three
    diagnostic getters reach print() only through operations that keep all elements (join, sorted, set, list,
    dict.fromkeys, formatting, a loop over all items).  A slice, an index, islice/next/pop, or a helper that does one
    of these makes the report depend on the order in which lines were attempted (and hides blocked lines)."""
    cli = 'habutax/__init__.py'
    f = core.func(cli, None, 'solve')
    getters = ('unimplemented_fields', 'unmet_input_dependencies', 'unmet_field_dependencies')
    k34_no_shared_mutable_fill(core, rep)
    # the getters hand out everything the solver recorded: the two dependency getters return _unmet_dependencies(<tracker>)
    # itself, which lists every recorded dependency with every waiter - no regrouping that can leave an entry out (lines
    # that wait on each other have no "root" to be grouped under)
    for gname in ('unmet_input_dependencies', 'unmet_field_dependencies'):
        gf = core.method('Solver', gname)
        rets = [r for r in ast.walk(gf.node) if isinstance(r, ast.Return)]
        rv = rets[0].value if len(rets) == 1 else None
        if isinstance(rv, ast.Call) and isinstance(rv.func, ast.Name) and rv.func.id in ('dict', 'OrderedDict') and len(rv.args) == 1 and not rv.keywords:
            rv = rv.args[0]                       # a copy of the whole table
        ok = isinstance(rv, ast.Call) and call_name(rv) == '_unmet_dependencies' and len(rv.args) == 1 and self_attr(rv.args[0])
        rep.ob('K27', f'{gname}/returns-every-recorded-dependency', bool(ok),
               f'Solver.{gname}() returns `{unparse(rets[0].value, 60) if rets else None}` instead of the full table of recorded dependencies: entries can be left out of the failure report '
               '(lines blocked behind each other are then not named at all)', _w(gf))
    ud = core.method('Solver', '_unmet_dependencies')
    loops = [n for n in ast.walk(ud.node) if isinstance(n, (ast.For, ast.comprehension, ast.DictComp))]
    cond = [n for n in ast.walk(ud.node) if isinstance(n, (ast.If, ast.IfExp, ast.Continue, ast.Break))] + [c for n in ast.walk(ud.node) if isinstance(n, ast.comprehension) for c in n.ifs]
    rep.ob('K27', '_unmet_dependencies/lists-every-entry', bool(loops) and not cond,
           'Solver._unmet_dependencies() filters the recorded dependencies (a condition inside the loop): some are not reported', _w(ud))
    by_name = {}
    for g in core.funcs:
        if g.rel == cli and g.cls is None:
            by_name[g.name] = g
    n_seen = 0

    def truncations(fn, names, depth=0):
        """-> list of (FuncInfo, node) where a name derived from `names` loses elements"""
        derived = set(names)
        changed = True
        while changed:
            changed = False
            for x in ast.walk(fn.node):
                tgt = None
                if isinstance(x, ast.Assign) and len(x.targets) == 1:
                    tgt, val = x.targets[0], x.value
                elif isinstance(x, ast.For):
                    tgt, val = x.target, x.iter
                elif isinstance(x, ast.comprehension):
                    tgt, val = x.target, x.iter
                if tgt is None:
                    continue
                if any(isinstance(n, ast.Name) and n.id in derived for n in ast.walk(val)):
                    for n in ast.walk(tgt):
                        if isinstance(n, ast.Name) and n.id not in derived:
                            derived.add(n.id)
                            changed = True
        out = []
        for x in ast.walk(fn.node):
            if isinstance(x, ast.Subscript) and isinstance(x.value, ast.Name) and x.value.id in derived and isinstance(getattr(x, 'ctx', None), ast.Load):
                # d[key] on a dict of diagnostics is a lookup, not a truncation, when the key is itself derived from it
                if isinstance(x.slice, ast.Slice) or (isinstance(x.slice, ast.Constant) and isinstance(x.slice.value, int)) \
                        or (isinstance(x.slice, ast.UnaryOp) and isinstance(x.slice.operand, ast.Constant)):
                    out.append((fn, x))
            if isinstance(x, ast.Call):
                nm = call_name(x)
                uses = [a for a in x.args if any(isinstance(n, ast.Name) and n.id in derived for n in ast.walk(a))]
                if not uses:
                    if isinstance(x.func, ast.Attribute) and isinstance(x.func.value, ast.Name) and x.func.value.id in derived and nm in ('pop', 'popitem', 'remove', 'clear'):
                        out.append((fn, x))
                    continue
                if nm in ('islice', 'next', 'min', 'max', 'head', 'choice', 'sample', 'takewhile', 'dropwhile', 'filter'):
                    out.append((fn, x))
                elif nm in by_name and depth < 3 and isinstance(x.func, ast.Name):
                    g = by_name[nm]
                    params = [a.arg for a in g.node.args.args]
                    passed = [params[i] for i, a in enumerate(x.args) if i < len(params) and a in uses]
                    out.extend(truncations(g, passed, depth + 1))
            if isinstance(x, ast.Delete):
                for t in x.targets:
                    if isinstance(t, ast.Subscript) and isinstance(t.value, ast.Name) and t.value.id in derived:
                        out.append((fn, x))
        return out

    for getter in getters:
        var = None
        for n in ast.walk(f.node):
            if isinstance(n, ast.Assign) and isinstance(n.value, ast.Call) and call_name(n.value) == getter and isinstance(n.targets[0], ast.Name):
                var = n.targets[0].id
        if var is None:
            continue          # K1b reports a getter that is not printed at all
        n_seen += 1
        tr = truncations(f, [var])
        rep.ob('K27', f'report-names-every-item/{getter}', not tr,
               f'the failure report drops items of Solver.{getter}(): `{unparse(tr[0][1], 60) if tr else ""}` in {tr[0][0].qual if tr else ""} keeps only part of the collection, '
               f'and which part depends on the order in which the solver attempted the lines', _w(tr[0][0], tr[0][1]) if tr else _w(f))
    if n_seen < 3:
        raise AnalysisError('CLI solve(): the diagnostic getters are no longer all read into variables (anchor vanished)')


def input_value_kinds(core, cls, depth=0):
    """kinds of the values <cls>.value() can return: 'str' 'int' 'float' 'bool' 'NoneType' 'enum' (member looked up by
    subscription of the enumeration, whose range is exactly the members) or 'unknown(<expr>)' for anything else"""
    c, m = core.classes.find_method(cls, 'value')
    if m is None:
        return None
    assigns = {}
    for x in ast.walk(m):
        if isinstance(x, ast.Assign) and len(x.targets) == 1 and isinstance(x.targets[0], ast.Name):
            assigns.setdefault(x.targets[0].id, []).append(x.value)
    params = {a.arg for a in m.args.args}

    def kind(v, seen=()):
        if isinstance(v, ast.Constant):
            return {type(v.value).__name__}
        if isinstance(v, ast.Call) and isinstance(v.func, ast.Name) and v.func.id in ('int', 'float', 'str', 'bool'):
            return {v.func.id}
        if isinstance(v, ast.Call) and isinstance(v.func, ast.Attribute) and v.func.attr in ('strip', 'replace', 'lower', 'upper', 'lstrip', 'rstrip', 'join', 'format'):
            return {'str'}
        if isinstance(v, ast.Call) and isinstance(v.func, ast.Attribute) and v.func.attr == 'value' and isinstance(v.func.value, ast.Call) \
                and call_name(v.func.value) == 'super' and depth < 4:
            parent = core.classes.classes[c.name].bases[0] if core.classes.classes[c.name].bases else None
            pk = input_value_kinds(core, parent, depth + 1) if parent in core.classes.classes else None
            return set(pk) if pk else {f'unknown({unparse(v, 40)})'}
        if isinstance(v, ast.Subscript) and isinstance(v.value, ast.Attribute) and self_attr(v.value) == 'enum':
            return {'enum'}
        if isinstance(v, ast.Subscript) and isinstance(v.value, ast.Attribute) and v.value.attr == '__members__' and self_attr(v.value.value) == 'enum':
            return {'enum'}
        if isinstance(v, ast.Name):
            if v.id in seen:
                return set()
            out = set()
            if v.id in params and v.id != 'self':
                out.add('str')          # the text handed in
            for rhs in assigns.get(v.id, []):
                out |= kind(rhs, seen + (v.id,))
            return out or {f'unknown({v.id})'}
        if isinstance(v, ast.IfExp):
            return kind(v.body, seen) | kind(v.orelse, seen)
        if isinstance(v, ast.JoinedStr):
            return {'str'}
        return {f'unknown({unparse(v, 40)})'}
    kinds = set()
    for r in ast.walk(m):
        if isinstance(r, ast.Return) and r.value is not None:
            kinds |= kind(r.value)
    return kinds


INPUT_KINDS = {'StringInput': {'str'}, 'SSNInput': {'str'}, 'RegexInput': {'str'}, 'BooleanInput': {'bool'}, 'IntegerInput': {'int'},
               'FloatInput': {'float'}, 'EnumInput': {'enum', 'NoneType'}}


def k11f_value_kinds(core, rep):
    """every value() of an input class returns its declared kind on every return statement; enumeration members are
    looked up by subscription (range = the members), not through attribute access (range = every attribute of the class)"""
    n = 0
    for cl, allowed in INPUT_KINDS.items():
        if cl not in core.classes.classes:
            continue
        kinds = input_value_kinds(core, cl)
        if kinds is None:
            continue
        n += 1
        extra = sorted(k for k in kinds if k not in allowed)
        rep.ob('K11f', f'value-kind/{cl}', not extra,
               f'{cl}.value() can return {extra} where only {sorted(allowed)} is a validated value of that input type: lines would receive something that is not a {"/".join(sorted(allowed))}',
               core.classes.classes[cl].rel)
    if n < 5:
        raise AnalysisError('input classes not found (anchor vanished)')
    # valid() of the enumeration input uses the same lookup
    c, m = core.classes.find_method('EnumInput', 'valid')
    if m is not None and c.name == 'EnumInput':
        looks = [x for x in ast.walk(m) if isinstance(x, ast.Subscript) and isinstance(x.value, ast.Attribute) and self_attr(x.value) == 'enum']
        other = [x for x in ast.walk(m) if isinstance(x, ast.Call) and call_name(x) in ('hasattr', 'getattr') and any(self_attr(a) == 'enum' for a in x.args)]
        calls_value = any(call_name(x) == 'value' and isinstance(x.func, ast.Attribute) and isinstance(x.func.value, ast.Name) and x.func.value.id == 'self' for x in calls_in(m))
        rep.ob('K11f', 'enum-valid-looks-up-members', (bool(looks) or calls_value) and not other,
               'EnumInput.valid() does not test membership by subscripting the enumeration: attribute tests accept names such as __doc__ or mro that are not members', f'{c.rel}:{m.lineno}')


def k28_threshold_lookup_pure(core, rep):
    """Form.threshold (and the methods of the form it calls) is a function of the form's own table, the name and the key:
    it writes nothing (no attribute / subscript store, no mutator call on anything reachable from self or the class), so
    an amount resolved for one form or status can never be handed to another."""
    start = core.method('Form', 'threshold')
    seen = {}
    todo = [start]
    while todo:
        f = todo.pop()
        if id(f) in seen:
            continue
        seen[id(f)] = f
        for c in calls_in(f.node):
            if isinstance(c.func, ast.Attribute) and isinstance(c.func.value, ast.Name) and c.func.value.id == 'self':
                ci, m = core.classes.find_method(f.cls, c.func.attr) if f.cls else (None, None)
                if m is not None:
                    todo.append(core.func(ci.rel, ci.name, c.func.attr))
    n = 0
    # per-instance containers: self.X = {} / [] / dict() in the class's own __init__ and no class-level X
    own = set()
    ci = core.classes.classes.get(start.cls)
    init = ci.methods.get('__init__') if ci else None
    if init is not None:
        for x in ast.walk(init):
            if isinstance(x, ast.Assign) and len(x.targets) == 1 and self_attr(x.targets[0]) and self_attr(x.targets[0]) not in ci.attrs:
                v = x.value
                if isinstance(v, (ast.Dict, ast.List)) and not (v.keys if isinstance(v, ast.Dict) else v.elts) or \
                        (isinstance(v, ast.Call) and call_name(v) in ('dict', 'list') and not v.args):
                    own.add(self_attr(x.targets[0]))
    for f in seen.values():
        writes = []
        for x in ast.walk(f.node):
            if isinstance(x, (ast.Assign, ast.AugAssign, ast.AnnAssign, ast.Delete)):
                ts = x.targets if isinstance(x, (ast.Assign, ast.Delete)) else [x.target]
                for t in ts:
                    for e in ([t] if not isinstance(t, (ast.Tuple, ast.List)) else t.elts):
                        if isinstance(e, ast.Subscript) and self_attr(e.value) in own:
                            continue          # a memo owned by this form instance alone
                        if isinstance(e, (ast.Subscript, ast.Attribute)):
                            writes.append(x)
            if isinstance(x, ast.Call) and isinstance(x.func, ast.Attribute) and x.func.attr in MUTATORS + ('add', 'discard') \
                    and not isinstance(x.func.value, ast.Name):
                writes.append(x)
            if isinstance(x, (ast.Global, ast.Nonlocal)):
                writes.append(x)
        n += 1
        rep.ob('K28', f'{f.qual}/writes-nothing', not writes,
               f'{f.qual}, on the path of every statutory-amount lookup, stores state ({unparse(writes[0], 70) if writes else ""}): a value resolved for one form or filing status can be returned for another', _w(f, writes[0] if writes else None))
    rep.count('functions on the threshold lookup path', n)


def prompt_functions(core):
    """module-level functions that can be the solver's prompt callback: names reaching prompt= of a Solver(...) call"""
    by_name = {}
    for f in core.funcs:
        by_name.setdefault(f.name, []).append(f)
    out = []
    for f in core.funcs:
        for c in calls_in(f.node):
            if call_name(c) != 'Solver':
                continue
            for kw in c.keywords:
                if kw.arg != 'prompt':
                    continue
                cands = {n.id for n in ast.walk(kw.value) if isinstance(n, ast.Name)}
                for x in ast.walk(f.node):
                    if isinstance(x, ast.Assign) and any(isinstance(t, ast.Name) and t.id in cands for t in x.targets):
                        cands |= {n.id for n in ast.walk(x.value) if isinstance(n, ast.Name)}
                for n in cands:
                    out += [g for g in by_name.get(n, []) if g.cls is None and g not in out]
    return out


def k29_prompt_quotes_the_waiters(core, rep):
    """The prompt quotes, as the lines needing the input, exactly the waiting lines it was handed: inside the loop over
    the waiters every part of the quoted text (form, copy, line name) is computed from the loop variable - nothing taken
    from the missing input or from outside the loop stands in for a property of the waiting line."""
    fns = prompt_functions(core)
    if not fns:
        raise AnalysisError('no prompt callback found (anchor vanished)')
    k34_no_shared_mutable_fill(core, rep)
    n = 0
    for f in fns:
        params = [a.arg for a in f.node.args.args]
        if len(params) < 2:
            continue
        waiters = params[1]
        loops = [x for x in ast.walk(f.node) if isinstance(x, ast.For) and any(isinstance(nm, ast.Name) and nm.id == waiters for nm in ast.walk(x.iter))]
        rep.ob('K29', f'{f.qual}/iterates-the-waiters', bool(loops), f'{f.qual} never goes through the list of waiting lines it is handed: the prompt cannot say which lines need the input', _w(f))
        for lp in loops:
            lv = {nm.id for nm in ast.walk(lp.target) if isinstance(nm, ast.Name)}
            derived = set(lv)
            changed = True
            while changed:
                changed = False
                for x in ast.walk(lp):
                    if isinstance(x, ast.Assign) and len(x.targets) == 1 and isinstance(x.targets[0], ast.Name) and x.targets[0].id not in derived:
                        names = {nm.id for nm in ast.walk(x.value) if isinstance(nm, ast.Name)}
                        if names and names <= derived:
                            derived.add(x.targets[0].id)
                            changed = True
            # text built per waiter: f-strings assigned or appended inside the loop that mention a loop-derived name
            for x in ast.walk(lp):
                if not isinstance(x, ast.JoinedStr):
                    continue
                used = {nm.id for fv in x.values if isinstance(fv, ast.FormattedValue) for nm in ast.walk(fv.value) if isinstance(nm, ast.Name)}
                if not used & derived:
                    continue
                n += 1
                foreign = sorted(u for u in used if u not in derived)
                rep.ob('K29', f'{f.qual}/quote@{unparse(x, 50)}', not foreign,
                       f'{f.qual} describes a waiting line with `{", ".join(foreign)}`, which is not computed from that line (it comes from outside the loop over the waiters): '
                       f'the prompt can name a form copy or line that never read the input', _w(f, x))
    if n < 1:
        raise AnalysisError('prompt callback: no per-waiter text found (anchor vanished)')


def _is_order_key(k):
    """lambda f: (f.jurisdiction, f.sequence_no)   or   attrgetter('jurisdiction', 'sequence_no')"""
    if isinstance(k, ast.Lambda) and len(k.args.args) == 1 and isinstance(k.body, ast.Tuple) and len(k.body.elts) == 2:
        p = k.args.args[0].arg
        a, b = k.body.elts
        return all(isinstance(x, ast.Attribute) and isinstance(x.value, ast.Name) and x.value.id == p for x in (a, b)) \
            and a.attr == 'jurisdiction' and b.attr == 'sequence_no'
    if isinstance(k, ast.Call) and call_name(k) == 'attrgetter' and [getattr(x, 'value', None) for x in k.args] == ['jurisdiction', 'sequence_no']:
        return True
    return False


def k11g_parser_objects_untouched(core, rep):
    """nothing reconfigures a ConfigParser after construction (optionxform, delimiters, comment prefixes ...): key lookup and the
    text of values must be the same for a file the user wrote, a file written back and a value typed at the prompt"""
    attrs = ('optionxform', 'default_section', 'BOOLEAN_STATES', 'SECTCRE', 'OPTCRE', 'NONSPACECRE', 'converters',
             '_interpolation', '_comment_prefixes', '_inline_comment_prefixes', '_delimiters', '_strict', '_allow_no_value', '_empty_lines_in_values')
    bad = []
    for rel, n in core.all_nodes((ast.Assign, ast.AugAssign)):
        ts = n.targets if isinstance(n, ast.Assign) else [n.target]
        for t in ts:
            if isinstance(t, ast.Attribute) and t.attr in attrs:
                bad.append((rel, n))
    for rel, c in core.all_nodes(ast.Call):
        if call_name(c) == 'setattr' and len(c.args) >= 2 and isinstance(c.args[1], ast.Constant) and c.args[1].value in attrs:
            bad.append((rel, c))
    rep.ob('K11g', 'parser-objects-are-not-reconfigured', not bad,
           f'a configuration parser is reconfigured after construction (`{unparse(bad[0][1], 60) if bad else ""}`): keys or values are then read differently from how they are written, so a supplied input can be reported missing', f'{bad[0][0]}:{bad[0][1].lineno}' if bad else '')


def k22e_integer_lines_read_back_exactly(core, rep):
    """whole-number and text lines are read back by converting the text directly with the line's own type (no detour
    through a float, which is exact only up to 2**53)"""
    for cls in ('IntegerField', 'StringField'):
        c, m = core.classes.find_method(cls, 'from_string')
        if m is None:
            raise AnalysisError(f'{cls}.from_string not found (anchor vanished)')
        calls = sorted({call_name(x) for x in calls_in(m) if call_name(x)})
        ok = set(calls) <= {'int', 'str', '_type', 'strip'}
        rep.ob('K22e', f'{cls}/read-back-converts-directly', ok,
               f'{cls} lines are read back through {calls} ({c.name}.from_string): the text is not converted directly by the line\'s own type, so large whole numbers (or text) do not read back to the solved value', f'{c.rel}:{m.lineno}')


def k23f_filling_keeps_no_state(core, rep):
    """Filling one form writes nothing to the filler's own state: the line a box is filled from is computed, inside the loop
    over that form's boxes, from the box and from the form instance being filled - never looked up in something remembered
    from another copy of the form."""
    n = 0
    for mname in ('_fill_form', 'fill', '_create_fdf'):
        c, m = core.classes.find_method('PDFFiller', mname)
        if m is None:
            continue
        n += 1
        writes = []
        for x in ast.walk(m):
            if isinstance(x, (ast.Assign, ast.AugAssign, ast.AnnAssign, ast.Delete)):
                ts = x.targets if isinstance(x, (ast.Assign, ast.Delete)) else [x.target]
                for t in ts:
                    for e in ([t] if not isinstance(t, (ast.Tuple, ast.List)) else t.elts):
                        base = e.value if isinstance(e, ast.Subscript) else e
                        if self_attr(base):
                            writes.append(x)
            if isinstance(x, ast.Call) and isinstance(x.func, ast.Attribute) and x.func.attr in MUTATORS + ('add',) and self_attr(x.func.value):
                writes.append(x)
        rep.ob('K23f', f'PDFFiller.{mname}/writes-no-filler-state', not writes,
               f'PDFFiller.{mname}() stores into the filler itself (`{unparse(writes[0], 60) if writes else ""}`): what is remembered from one copy of a form can be used for another copy (8889:you / 8889:spouse)',
               f'{c.rel}:{(writes[0] if writes else m).lineno}')
    if n < 2:
        raise AnalysisError('PDFFiller fill methods not found (anchor vanished)')
    # nor does the module remember anything between fillers: a container at module level that a method writes into
    # outlives the PDFFiller (forms of one tax year served to a solution of another)
    mod = core.mods['habutax/pdf_filler.py']
    globs = {t.id for st in mod.body if isinstance(st, (ast.Assign, ast.AnnAssign)) for t in (st.targets if isinstance(st, ast.Assign) else [st.target])
             if isinstance(t, ast.Name) and st.value is not None and _mutable_literal(st.value)}
    for fn in core.funcs:
        if fn.rel != 'habutax/pdf_filler.py':
            continue
        for x in ast.walk(fn.node):
            hit = None
            if isinstance(x, (ast.Assign, ast.AugAssign)):
                for t in (x.targets if isinstance(x, ast.Assign) else [x.target]):
                    if isinstance(t, ast.Subscript) and isinstance(t.value, ast.Name) and t.value.id in globs:
                        hit = x
            if isinstance(x, ast.Call) and isinstance(x.func, ast.Attribute) and x.func.attr in MUTATORS + ('add', 'setdefault') and isinstance(x.func.value, ast.Name) and x.func.value.id in globs:
                hit = x
            if isinstance(x, ast.Global):
                hit = x
            if hit is not None:
                rep.ob('K23f', f'{fn.qual}/writes-no-module-state@{unparse(hit, 40)}', False,
                       f'{fn.qual}() stores into a module-level container (`{unparse(hit, 60)}`): it outlives the filler, so a second fill in the same process - another tax year, another return - '
                       'is served forms, mappings or values remembered from the first', f'{fn.rel}:{hit.lineno}')
    rep.ob('K23f', 'pdf_filler-keeps-no-module-state', True)
    # the lookup key inside _fill_form derives from the loop variable and the form parameter
    c, m = core.classes.find_method('PDFFiller', '_fill_form')
    form_param = m.args.args[1].arg
    loops = [x for x in ast.walk(m) if isinstance(x, ast.For) and any(call_name(cc) == 'pdf_fields' for cc in calls_in(x.iter))]
    ok = False
    for lp in loops:
        if not (isinstance(lp.iter, ast.Call) and call_name(lp.iter) == 'pdf_fields' and isinstance(lp.iter.func.value, ast.Name) and lp.iter.func.value.id == form_param):
            continue          # the loop must run over exactly form.pdf_fields() (no zip with remembered data)
        lv = {nm.id for nm in ast.walk(lp.target) if isinstance(nm, ast.Name)}
        derived = set(lv) | {form_param}
        changed = True
        while changed:
            changed = False
            for x in ast.walk(lp):
                if isinstance(x, ast.Assign) and len(x.targets) == 1 and isinstance(x.targets[0], ast.Name) and x.targets[0].id not in derived:
                    names = {nm.id for nm in ast.walk(x.value) if isinstance(nm, ast.Name)}
                    if names and names <= derived:
                        derived.add(x.targets[0].id)
                        changed = True
        keys = [x.slice for x in ast.walk(lp) if isinstance(x, ast.Subscript) and self_attr(x.value) in ('_values', '_field_map')]
        ok = bool(keys) and all({nm.id for nm in ast.walk(k) if isinstance(nm, ast.Name)} <= derived for k in keys)
    rep.ob('K23f', 'box-line-computed-from-this-form', ok,
           'PDFFiller._fill_form() does not look the value of each box up under a name computed, inside the loop over form.pdf_fields(), from that box and the form being filled', f'{c.rel}:{m.lineno}')


def k17b_validation_on_demand(core, rep):
    """Inputs are validated when a line reads them, not before: InvalidInput is raised only by the store's read gate, and
    valid() is consulted only there, by the prompt loop and by the solver's assertion on a prompted answer.  An input no line
    reads can therefore never make a run fail."""
    raises = []
    for f in core.funcs:
        for x in ast.walk(f.node):
            if isinstance(x, ast.Raise) and x.exc is not None and 'InvalidInput' in unparse(x.exc):
                raises.append((f, x))
    if not raises:
        raise AnalysisError('no raise of InvalidInput found (anchor vanished)')
    for (f, x) in raises:
        rep.ob('K17b', f'InvalidInput-raised-only-by-the-read-gate/{f.qual}', f.cls == 'InputStore' and f.name == '__getitem__',
               f'{f.qual} raises InvalidInput: a malformed value is then rejected although no line asked for that input', _w(f, x))
    n = 0
    for f in core.funcs:
        if f.rel == 'habutax/inputs.py' and f.cls and f.cls != 'InputStore':
            continue          # the input classes themselves (valid() implementations, super().valid())
        for c in calls_in(f.node):
            if call_name(c) == 'valid' and isinstance(c.func, ast.Attribute):
                n += 1
                ok = (f.cls == 'InputStore' and f.name == '__getitem__') or (f.cls is None and f in prompt_functions(core)) or \
                     (f.cls == core.solver.name and f.name == '_attempt_input')
                rep.ob('K17b', f'valid-consulted-on-demand/{f.qual}', ok,
                       f'{f.qual} validates input text outside the read gate, the prompt loop and the check of a prompted answer: inputs nobody reads are validated too', _w(f, c))
    if n < 2:
        raise AnalysisError('calls of valid() not found (anchor vanished)')


def k11e_parser_options(core, rep):
    """every configuration parser in the package (input file, solution writer, solution reader of fill-pdfs) is built with
    interpolation=None and nothing else: no defaults, no inline comments, no lenient duplicates - text is read back exactly as written"""
    n = 0
    for rel, c in core.all_nodes(ast.Call):
        if call_name(c) == 'ConfigParser':
            n += 1
            extra = [k.arg for k in c.keywords if k.arg != 'interpolation']
            rep.ob('K11e', f'parser-options/{rel}@{enclosing_function(c).name if enclosing_function(c) else "module"}',
                   not extra and not c.args,
                   f'{unparse(c)} sets {extra or "positional defaults"}: text written by one step is then read differently by the next (values cut at comment characters, duplicate keys merged, defaults supplied)',
                   f'{rel}:{c.lineno}')
    if n < 3:
        raise AnalysisError('configuration parsers not found (anchor vanished)')
    k11i_strict_decoding(core, rep)


def k11i_strict_decoding(core, rep):
    """the files the configuration parsers read are decoded strictly"""
    # ... and the files they read are decoded strictly: a lenient decoder (errors='ignore' / 'replace' / 'surrogateescape')
    # deletes or substitutes bytes before any validator sees the text, so "12<A0>595" reaches a line as 12595
    m = 0
    for rel, c in core.all_nodes(ast.Call):
        if call_name(c) == 'open' and isinstance(c.func, ast.Name):
            m += 1
            err = [k for k in c.keywords if k.arg == 'errors']
            pos = c.args[3] if len(c.args) > 3 else None            # open(file, mode, buffering, encoding, errors)
            lenient = [k.value for k in err if not _strict(k.value)] + ([c.args[4]] if len(c.args) > 4 and not _strict(c.args[4]) else [])
            fn = enclosing_function(c)
            rep.ob('K11i', f'strict-decoding/{rel}@{fn.name if fn else "module"}:{unparse(c.args[0], 30) if c.args else ""}', not lenient,
                   f'{unparse(c, 80)} decodes leniently: bytes that are not valid text are dropped or replaced before validation, so a damaged value is silently turned into a different, valid one', f'{rel}:{c.lineno}')
        if call_name(c) in ('decode',) and isinstance(c.func, ast.Attribute):
            lenient = [k.value for k in c.keywords if k.arg == 'errors' and not _strict(k.value)] + ([c.args[1]] if len(c.args) > 1 and not _strict(c.args[1]) else [])
            if lenient:
                rep.ob('K11i', f'strict-decoding/{rel}@decode:{c.lineno}', False, f'{unparse(c, 80)} decodes leniently', f'{rel}:{c.lineno}')
    if m < 2:
        raise AnalysisError('open() calls of the package not found (anchor vanished)')
    # the input file is written back with the encoding it is read with (one side pinned to UTF-8 and the other left to the
    # platform default re-reads a non-ASCII answer as other characters wherever the default is not UTF-8)
    def _enc(fn_):
        out = []
        for c in calls_in(fn_.node):
            if call_name(c) == 'open' and isinstance(c.func, ast.Name):
                e = next((k.value for k in c.keywords if k.arg == 'encoding'), c.args[3] if len(c.args) > 3 else None)
                out.append(None if e is None else unparse(e))
        return out
    try:
        rd, wr = _enc(core.method('InputStore', '__init__')), _enc(core.method('InputStore', 'write'))
    except AnalysisError:
        rd, wr = [], []
    # an explicit encoding for a file that is written must be able to encode every answer (UTF family): with latin-1 / cp1252 /
    # ascii a single character outside the code page aborts the write after the file was truncated
    for rel, c in core.all_nodes(ast.Call):
        if call_name(c) == 'open' and isinstance(c.func, ast.Name) and len(c.args) > 1 and isinstance(c.args[1], ast.Constant) and any(ch in str(c.args[1].value) for ch in 'wax+'):
            e = next((k.value for k in c.keywords if k.arg == 'encoding'), c.args[3] if len(c.args) > 3 else None)
            if e is None:
                continue
            val = e.value if isinstance(e, ast.Constant) else None
            if val is None and self_attr(e):
                cls_ = enclosing_class(c)
                for st in (cls_.body if cls_ is not None else []):
                    if isinstance(st, ast.Assign) and any(isinstance(t_, ast.Name) and t_.id == self_attr(e) for t_ in st.targets) and isinstance(st.value, ast.Constant):
                        val = st.value.value
            ok_e = isinstance(val, str) and val.lower().replace('_', '-').startswith(('utf-8', 'utf8', 'utf-16', 'utf-32', 'utf16', 'utf32'))
            rep.ob('K11i', f'written-file-can-hold-any-text/{rel}:{c.lineno}', ok_e,
                   f'{unparse(c, 70)} writes with encoding {val!r}: a character outside that code page (a typographic apostrophe, a euro sign) raises UnicodeEncodeError in the middle of the write, '
                   'after the file was truncated - everything behind that point is lost', f'{rel}:{c.lineno}')
    if rd and wr:
        rep.ob('K11i', 'input-file-read-and-written-with-one-encoding', set(rd) == set(wr),
               f'InputStore reads the input file with encoding {rd} and writes it back with {wr}: an answer with a character outside ASCII is re-read as other text on a platform whose '
               'default encoding differs from the pinned one, so the re-run is not the run that was written back', 'habutax/inputs.py')


def k12c_who_calls(core, rep):
    """Forms are added and lines are evaluated only from the places the demand-closure argument knows: `_add_form` is called
    from solve() (requested forms), the UnmetDependency handler of `_attempt_field` (a line that was read) and
    `_add_input_spec` (input-only); `_attempt_field` from solve() and from its own retry; the tracker is drained
    (`met_dependents`) only in solve().  Anything else adds forms nobody referred to, or evaluates lines in the middle of a
    round of questions against inputs that are still going to change."""
    s = core.solver
    allowed = {'_add_form': {'solve', '_attempt_field', '_add_input_spec'},
               '_attempt_field': {'solve', '_attempt_field'},
               'met_dependents': {'solve'}}
    seen = {k: 0 for k in allowed}
    for f in core.funcs:
        if f.rel != s.rel:
            # the line, form and input classes never reach into the solver to add forms or evaluate lines (the filler has an
            # _add_form of its own, on itself)
            if f.rel != 'habutax/pdf_filler.py':
                for c in calls_in(f.node):
                    nm = call_name(c)
                    if nm in allowed and isinstance(c.func, ast.Attribute) and nm != 'met_dependents':
                        rep.ob('K12c', f'{nm}-called-from/{f.qual}@{unparse(c, 40)}', False,
                               f'{f.qual}() calls {nm}() on the solver: ' + {'_add_form': 'a form is added - with all its required lines - because a definition merely looked at it (Field.form(name) fetches a '
                                                                             'threshold), so the solution holds forms nobody requested and no line read',
                                                                             '_attempt_field': 'a line is evaluated from inside another definition, outside the work-list loop'}[nm], _w(f, c))
            continue
        for c in calls_in(f.node):
            nm = call_name(c)
            if nm in allowed and isinstance(c.func, ast.Attribute):
                if nm == 'met_dependents' and f.cls == 'DependencyTracker':
                    continue
                inner = enclosing_function(c)
                fname = inner.name if inner is not None else f.name
                seen[nm] += 1
                rep.ob('K12c', f'{nm}-called-from/{fname}@{unparse(c, 40)}', fname in allowed[nm],
                       f'{fname}() calls {nm}(): ' + {'_add_form': 'a form is added although no requested form and no evaluated line referred to it',
                                                        '_attempt_field': 'lines are evaluated outside the work-list loop of solve(), e.g. between two questions of the same round, against inputs that later answers still change',
                                                        'met_dependents': 'waiting lines are released outside the work-list loop of solve()'}[nm], _w(f, c))
    if min(seen.values()) < 1:
        raise AnalysisError(f'call sites not found: {seen} (anchor vanished)')


def k13c_unknown_line_aborts(core, rep):
    """In the UnmetDependency handler a dependency that is still unknown after its form was loaded stops the solve (assertion):
    scheduling the dependency is not made conditional on its being known - otherwise the form is re-added and the same
    lines are re-queued for ever."""
    s = core.solver
    f = s.attempt
    handlers = [h for h in ast.walk(f.node) if isinstance(h, ast.ExceptHandler) and 'UnmetDependency' in _handler_types(h)]
    if len(handlers) != 1:
        raise AnalysisError('_attempt_field: UnmetDependency handler not found (anchor vanished)')
    h = handlers[0]
    sched = [c for c in calls_in(h) if call_name(c) == '_add_unattempted']
    if not sched:
        raise AnalysisError('UnmetDependency handler: scheduling call not found (anchor vanished)')
    bad = []
    for c in sched:
        p = getattr(c, 'parent', None)
        while p is not None and p is not h:
            if isinstance(p, ast.If):
                t = unparse(p.test)
                if s.field_map in t and ' not in ' not in t and ' in ' in t and p.body and any(c in list(ast.walk(b)) for b in p.body):
                    bad.append(p)
            p = getattr(p, 'parent', None)
    asserts = [a for a in ast.walk(h) if isinstance(a, ast.Assert) and s.field_map in unparse(a.test)] + \
              [r for r in ast.walk(h) if isinstance(r, ast.Raise)]
    rep.ob('K13c', 'unknown-dependency-stops-the-solve', bool(asserts) and not bad,
           'the UnmetDependency handler schedules the dependency only "if it is known" instead of stopping on an unknown name: '
           'a required line that refers to a line its own form does not have re-adds the form and re-queues the same lines without bound', _w(f, (bad or [h])[0]))


def k18b_write_reaches_the_file(core, rep):
    """InputStore.write(filename) puts the configuration into `filename` whenever it returns normally: it writes to the file itself,
    or to a temporary file that is then moved over `filename` unconditionally; it never consults the exception state
    (sys.exc_info) - the CLI calls it from a `finally` block while an exception may be in flight."""
    f = core.method('InputStore', 'write')
    fname = f.node.args.args[1].arg
    uses_exc = [x for x in ast.walk(f.node) if isinstance(x, ast.Attribute) and x.attr in ('exc_info', 'exception', 'last_exc') or
                (isinstance(x, ast.Name) and x.id in ('exc_info',))]
    direct = [c for c in calls_in(f.node) if call_name(c) == 'open' and c.args and isinstance(c.args[0], ast.Name) and c.args[0].id == fname
              and len(c.args) > 1 and isinstance(c.args[1], ast.Constant) and 'w' in str(c.args[1].value)]
    moved = []
    for c in calls_in(f.node):
        if call_name(c) in ('replace', 'rename', 'move') and len(c.args) == 2 and isinstance(c.args[1], ast.Name) and c.args[1].id == fname:
            cond = False
            p = getattr(c, 'parent', None)
            while p is not None and p is not f.node:
                if isinstance(p, (ast.If, ast.ExceptHandler, ast.IfExp, ast.While)):
                    cond = True
                p = getattr(p, 'parent', None)
            moved.append((c, cond))
    if moved and not direct:
        # a rename only works inside one file system: the temporary file has to be created next to the target
        def _mentions(e):
            return any(isinstance(x, ast.Name) and x.id == fname for x in ast.walk(e))
        makers = [c for c in calls_in(f.node) if call_name(c) in ('NamedTemporaryFile', 'mkstemp', 'TemporaryFile', 'SpooledTemporaryFile', 'mkdtemp')]
        elsewhere = [c for c in makers if not any(k.arg == 'dir' and _mentions(k.value) for k in c.keywords)]
        derived = [c for c in calls_in(f.node) if call_name(c) == 'open' and c.args and _mentions(c.args[0])]
        rep.ob('K18b', 'temporary-file-next-to-the-target', not elsewhere and (bool(makers) or bool(derived)),
               f'InputStore.write() creates its temporary file with `{unparse(elsewhere[0], 70) if elsewhere else "?"}`, i.e. in the system temporary directory, and renames it over the input file: '
               'when the two are on different file systems the rename fails (EXDEV) - from the finally block of the CLI - and every answer of the session is lost',
               _w(f, elsewhere[0] if elsewhere else f.node))
    # write() saves what the store holds, whatever it holds: it is the last thing that runs when a session is cut short.  A
    # write that first re-reads the stored values through their validators (`self[name]`, spec.valid(...)) - or raises /
    # asserts on its own - refuses to save the whole session because of one entry that was invalid in the file all along.
    selfname = f.node.args.args[0].arg
    judges = [x for x in ast.walk(f.node) if isinstance(x, (ast.Raise, ast.Assert))
              or (isinstance(x, ast.Subscript) and isinstance(x.ctx, ast.Load) and isinstance(x.value, ast.Name) and x.value.id == selfname)
              or (isinstance(x, ast.Call) and isinstance(x.func, ast.Attribute) and x.func.attr in ('valid', 'value', '__getitem__', 'validate'))
              or (isinstance(x, ast.Call) and isinstance(x.func, ast.Attribute) and x.func.attr in ('get', 'items', 'values') and isinstance(x.func.value, ast.Name) and x.func.value.id == selfname)]
    rep.ob('K18b', 'write-judges-nothing', not judges,
           f'InputStore.write() evaluates or judges what it is about to save (`{unparse(judges[0], 60) if judges else ""}`): one entry of the file that does not validate makes the write-back itself raise - '
           'from the finally block of the CLI - and every answer given in the session is lost and asked again', _w(f, judges[0]) if judges else _w(f))
    ok = not uses_exc and (bool(direct) or any(not cond for _c, cond in moved))
    rep.ob('K18b', 'write-reaches-the-named-file', ok,
           'InputStore.write() does not put the configuration into the file it is given on every normal return '
           + ('(it consults the exception state: called from the finally block of the CLI while an exception is in flight, it discards the answers)' if uses_exc else
              '(the move over the target file is conditional)'), _w(f, (uses_exc or [f.node])[0]))


def k11h_ascii_validators(core, rep):
    """validators compare characters with explicit ASCII sets: the Unicode-aware predicates of str (isdigit, isnumeric,
    isdecimal, isalnum, isalpha) accept Arabic-Indic, full-width or superscript digits"""
    bad = []
    for fn in core.funcs:
        if fn.rel != 'habutax/inputs.py':
            continue
        for c in calls_in(fn.node):
            if isinstance(c.func, ast.Attribute) and c.func.attr in ('isdigit', 'isnumeric', 'isdecimal', 'isalnum', 'isalpha') and not c.args:
                bad.append((fn, c))
    rep.ob('K11h', 'validators-use-ascii-sets', not bad,
           f'{bad[0][0].qual if bad else ""} tests characters with str.{bad[0][1].func.attr if bad else ""}(), which is true for every Unicode digit/letter: text such as "١٢٣٤٥٦٧٨٩" or "12345678²" passes the validator and reaches the lines',
           _w(bad[0][0], bad[0][1]) if bad else '')


def k23g_box_value_set_in_every_round(core, rep):
    """In the loop of _fill_form the text written for a box is assigned in that very iteration on every path to the store:
    no value is carried over from the previous box (an optional line that was never computed leaves its box blank)."""
    f = core.method('PDFFiller', '_fill_form')
    g = f.cfg
    stores = []
    for n in g.nodes:
        if n.kind == 'stmt' and isinstance(n.ast, ast.Assign) and isinstance(n.ast.targets[0], ast.Subscript) \
                and isinstance(n.ast.targets[0].value, ast.Name) and isinstance(n.ast.value, ast.Name):
            inner = enclosing_loop(n.ast)
            if inner is not None:
                stores.append((n, n.ast.value.id, inner))
    if not stores:
        raise AnalysisError('_fill_form: the store of the box text was not found (anchor vanished)')
    for (n, var, loop) in stores:
        assigns = {m.id for m in g.nodes if m.kind == 'stmt' and m.ast is not None and enclosing_loop(m.ast) is loop and any(
            isinstance(x, (ast.Assign, ast.AugAssign)) and any(isinstance(t, ast.Name) and t.id == var for t in (x.targets if isinstance(x, ast.Assign) else [x.target]))
            for x in [m.ast])}
        heads = [m for m in g.nodes if m.kind == 'iter' and m.ast is loop or (m.kind in ('iter', 'test') and getattr(m, 'ast', None) is loop.iter)]
        heads = heads or [m for m in g.nodes if m.kind == 'iter' and getattr(m, 'lineno', None) == loop.lineno]
        if not heads:
            heads = [m for m in g.nodes if m.kind == 'iter']
        ok = bool(assigns) and all(not g.paths_avoiding(s2, n, assigns) for h in heads for s2 in h.succ if enclosing_loop_node(s2, loop))
        rep.ob('K23g', f'{var}-assigned-in-every-iteration', ok,
               f'PDFFiller._fill_form() can reach `{unparse(n.ast, 50)}` without having assigned `{var}` in the same iteration: the box is then filled with the text of the previous box', _w(f, n.ast))
        # ... and it is the text the box's own mapping returned (or the blank of a line that was never computed): the filler
        # itself does not rewrite it - upper-casing, stripping or cutting it there also hits the export values of check boxes
        # ("Yes" becomes "YES", a state the template does not define) and the text the length / choice tests already accepted
        lv = loop.target.id if isinstance(loop.target, ast.Name) else None
        other = []
        for x in ast.walk(loop):
            if isinstance(x, (ast.Assign, ast.AugAssign)) and any(isinstance(t, ast.Name) and t.id == var for t in (x.targets if isinstance(x, ast.Assign) else [x.target])):
                v_ = x.value
                from_mapping = isinstance(v_, ast.Call) and isinstance(v_.func, ast.Attribute) and v_.func.attr == 'value' and isinstance(v_.func.value, ast.Name) and v_.func.value.id == lv
                blank = isinstance(v_, ast.Constant) and v_.value in ('', None)
                if isinstance(x, ast.AugAssign) or not (from_mapping or blank):
                    other.append(x)
        rep.ob('K23g', f'{var}-is-what-the-mapping-returned', not other,
               f'PDFFiller._fill_form() rewrites the text of a box after its mapping produced it (`{unparse(other[0], 60) if other else ""}`): the change also hits check-box export values '
               '("Yes" -> "YES" is a state the template does not define, so the box stays unticked) and text the length and choice tests have already accepted', _w(f, other[0]) if other else _w(f))


def enclosing_loop(node):
    p = getattr(node, 'parent', None)
    while p is not None and not isinstance(p, (ast.For, ast.While)):
        if isinstance(p, (ast.FunctionDef, ast.Lambda)):
            return None
        p = getattr(p, 'parent', None)
    return p


def enclosing_loop_node(cfg_node, loop):
    a = getattr(cfg_node, 'ast', None)
    if a is None:
        return False
    p = a
    while p is not None:
        if p is loop:
            return True
        p = getattr(p, 'parent', None)
    return False


def k22f_solution_written_unfiltered(core, rep):
    """The solution is serialised straight into the output file (or the in-memory writer that is printed): nothing between
    ConfigParser.write and the file re-splits or rewrites the text."""
    f = core.func('habutax/__init__.py', None, 'solve')
    writes = [c for c in calls_in(f.node) if call_name(c) == 'write' and isinstance(c.func, ast.Attribute) and isinstance(c.func.value, ast.Name) and c.func.value.id == 'solution']
    if not writes:
        raise AnalysisError('CLI solve(): solution.write(...) not found (anchor vanished)')
    # what is written is what the solver returned plus the one section that records the tax year: nothing else is put into
    # it (sections kept from an earlier run are forms nothing of this run referred to)
    sol = 'solution'
    src = [x for x in ast.walk(f.node) if isinstance(x, ast.Assign) and any(isinstance(t_, ast.Name) and t_.id == sol for t_ in x.targets)]
    from_solver = len(src) == 1 and isinstance(src[0].value, ast.Call) and call_name(src[0].value) == 'solution'
    rep.ob('K22f', 'written-solution-is-the-solvers', from_solver, 'the object written as the solution is not exactly what Solver.solution() returned', _w(f))
    consts = {}
    for rel_, mod_ in core.mods.items():
        for st in mod_.body:
            if isinstance(st, ast.Assign) and len(st.targets) == 1 and isinstance(st.targets[0], ast.Name) and isinstance(st.value, ast.Constant):
                consts.setdefault(st.targets[0].id, st.value.value)
    def _is_year_section(e):
        # the literal section name, or a module-level constant holding it (possibly reached as module.NAME)
        if isinstance(e, ast.Constant):
            return e.value == 'habutax'
        nm = e.id if isinstance(e, ast.Name) else e.attr if isinstance(e, ast.Attribute) else None
        return nm is not None and consts.get(nm) == 'habutax'
    extra = []
    for x in ast.walk(f.node):
        if isinstance(x, (ast.Assign, ast.AugAssign)):
            for t_ in (x.targets if isinstance(x, ast.Assign) else [x.target]):
                if isinstance(t_, ast.Subscript) and isinstance(t_.value, ast.Name) and t_.value.id == sol and not _is_year_section(t_.slice):
                    extra.append(x)
        if isinstance(x, ast.Call) and isinstance(x.func, ast.Attribute) and isinstance(x.func.value, ast.Name) and x.func.value.id == sol \
                and x.func.attr in ('update', 'read', 'read_file', 'read_dict', 'read_string', 'add_section', 'setdefault', 'remove_section', 'pop', 'clear', 'set', 'remove_option'):
            extra.append(x)
    rep.ob('K22f', 'nothing-but-the-tax-year-is-added', not extra,
           f'the CLI changes the solution before writing it (`{unparse(extra[0], 60) if extra else ""}`): sections are added to or removed from what the solver produced, so the file holds forms '
           'or copies nothing in this run referred to (or lacks ones it did)', f'habutax/__init__.py:{extra[0].lineno}' if extra else _w(f))
    # what goes into the solution file is that object and nothing else: every configuration written into a file opened
    # for writing in the CLI solve() is `solution` itself (a union with what an earlier run left in the file keeps lines
    # computed from inputs that have changed since)
    for w in ast.walk(f.node):
        if not isinstance(w, ast.With):
            continue
        for it in w.items:
            if isinstance(it.optional_vars, ast.Name) and isinstance(it.context_expr, ast.Call) and call_name(it.context_expr) == 'open' \
                    and len(it.context_expr.args) > 1 and isinstance(it.context_expr.args[1], ast.Constant) and any(ch in str(it.context_expr.args[1].value) for ch in 'wax+'):
                fh = it.optional_vars.id
                wr = [c for b in w.body for c in calls_in(b) if call_name(c) == 'write' and isinstance(c.func, ast.Attribute) and c.args and isinstance(c.args[0], ast.Name) and c.args[0].id == fh]
                other = [c for c in wr if not (isinstance(c.func.value, ast.Name) and c.func.value.id == sol)]
                rep.ob('K22f', f'file-receives-the-solution-itself@{unparse(it.context_expr, 40)}', bool(wr) and not other,
                       f'the CLI writes `{unparse(other[0].func.value, 30) if other else "nothing"}` into {unparse(it.context_expr.args[0], 30)} instead of the solution the solver returned: '
                       'the file can hold lines and forms that this run did not produce (kept from an earlier run, computed from other inputs)', f'habutax/__init__.py:{(other or wr or [w])[0].lineno}')
    with_names = {}
    for w in ast.walk(f.node):
        if isinstance(w, ast.With):
            for it in w.items:
                if isinstance(it.optional_vars, ast.Name) and isinstance(it.context_expr, ast.Call) and call_name(it.context_expr) == 'open':
                    with_names[it.optional_vars.id] = it
    local_classes = {c.name: c for c in ast.walk(f.node) if isinstance(c, ast.ClassDef)}
    for c in writes:
        a = c.args[0] if c.args else None
        ok = False
        why = ''
        if isinstance(a, ast.Name) and a.id in with_names:
            ok = True
        elif isinstance(a, ast.Name):
            # an in-memory writer: its write() only appends
            inst = [x for x in ast.walk(f.node) if isinstance(x, ast.Assign) and isinstance(x.targets[0], ast.Name) and x.targets[0].id == a.id and isinstance(x.value, ast.Call)]
            cls = local_classes.get(call_name(inst[0].value)) if inst else None
            if cls is not None:
                wm = [m for m in cls.body if isinstance(m, ast.FunctionDef) and m.name == 'write']
                ok = len(wm) == 1 and len(wm[0].body) == 1 and isinstance(wm[0].body[0], ast.AugAssign) and isinstance(wm[0].body[0].op, ast.Add) \
                    and isinstance(wm[0].body[0].value, ast.Name) and wm[0].body[0].value.id == wm[0].args.args[1].arg \
                    and not [x for x in cls.body if isinstance(x, ast.FunctionDef) and x.name == 'write' and len(x.args.args) != 2]
                ok = ok and not (isinstance(inst[0].value, ast.Call) and inst[0].value.args)
                why = 'its write() does more than append what it is given'
        rep.ob('K22f', f'solution-written-unfiltered@{unparse(c, 40)}', ok,
               f'the solution is written through `{unparse(a, 40) if a is not None else ""}`, not straight into the opened file{": " + why if why else ""}: text values can be split or rewritten on the way (e.g. at Unicode line separators)', _w(f, c))
