"""Direction analysis: is a line a non-decreasing / non-increasing function of one
designated input, everything else fixed?

Every line of the forms is a piecewise-linear function of the input composed with
monotone step functions (rounding, the tax table, "next multiple of").  Its
derivative, where it exists, is one of finitely many *candidate forms*: linear
combinations of the derivatives of the lines it reads (symbols s:<line>), which
min / max / floor-at-zero choose between.  A line is non-decreasing if every
candidate form is >= 0 and every cut of the axis made by an input-dependent
decision (a comparison a < b whose difference has a direction itself) is crossed
without a downward jump - proved at a = b with the relational prover of C15
(exact Fourier-Motzkin).  A form whose sign is not evident from the signs of its
symbols is *unfolded*: a symbol is replaced by the candidate forms of the line it
stands for, all occurrences at once, so that correlated terms cancel
(tax - min(credit, tax - other credits) = max(tax - credit, other credits)).
Monotone transforms scale a form by an unknown non-negative factor (kept as an
opaque symbol, so nothing cancels across it); a cut that is crossed with a jump
contributes a jump symbol of the proven sign.  Yes/no lines used as decisions are
replaced by their own definitions first.  Whatever is not covered is TOP: a lost
proof, never an invented one.

Regions in which a definition refuses impose nothing (the property compares only
pairs of returns that both solve); a refusing region between two answering ones is
not bridged - stated in the evidence."""
from fractions import Fraction

from .amounts import canon
from .lineabs import E

CONST, INC, DEC, TOP = 'const', 'inc', 'dec', 'top'
ONE = '1'
MAX_FORMS = 96
MAX_UNFOLD = 26


def fr(x):
    if isinstance(x, bool):
        return Fraction(int(x))
    if isinstance(x, float):
        return Fraction(repr(x))
    return Fraction(x)


def f_add(a, b, sb=1):
    d = dict(a)
    for k, v in b:
        d[k] = d.get(k, 0) + sb * v
    return tuple(sorted((k, v) for k, v in d.items() if v != 0))


def f_scale(a, c):
    c = fr(c)
    return tuple(sorted((k, v * c) for k, v in a if v * c != 0))


ZERO = ()


class Mono:
    def __init__(self, an, year, x_atom, nn, prover_factory=None):
        self.an = an
        self.year = year
        self.x = x_atom
        self.nn = nn
        self.sign_memo = {}
        self.cand_memo = {}
        self.stack = set()
        self.defs = {}
        for d in an.defs.values():
            if d.year == year:
                frm = d.fr
                k = f'v:{frm.form_name}:*.{d.name}' if frm.cls.is_sub_named('InputForm') else f'v:{frm.name}.{d.name}'
                self.defs[k] = d
        self.prover_factory = prover_factory
        self.slope_factory = None
        self.by_slope = set()
        self.prove_memo = {}
        self.why = {}
        self.opaque = 0
        self.sym_sign = {ONE: '+'}        # symbol -> '+', '-', '0', '?'

    # ------------------------------------------------------------ public
    def line(self, atom):
        """CONST / INC / DEC / TOP"""
        s = self.sign_of_line(atom)
        return {'+': INC, '-': DEC, '0': CONST}.get(s, TOP)

    # ------------------------------------------------------------ symbols
    def sym(self, atom):
        """derivative symbol of a line, None when the line does not depend on x"""
        s = self.sign_of_line(atom)
        if s == '0':
            return None
        k = 's:' + atom
        self.sym_sign[k] = s
        return k

    def new_opaque(self, sign):
        self.opaque += 1
        k = f'o:{self.opaque}'
        self.sym_sign[k] = sign
        return k

    def form_sign(self, f):
        """'+' / '-' / '0' / None from the signs of the symbols alone"""
        pos = neg = False
        for k, v in f:
            s = self.sym_sign.get(k, '?')
            if s == '0':
                continue
            if s == '?':
                return None
            up = (v > 0) == (s == '+')
            pos |= up
            neg |= not up
        if pos and neg:
            return None
        return '+' if pos else '-' if neg else '0'

    def opaque_scale(self, forms, factor_sign):
        """forms multiplied by an unknown factor of the given sign ('+' or '-'): every symbol becomes a fresh opaque one"""
        out = set()
        for f in forms:
            g = []
            for k, v in f:
                s = self.sym_sign.get(k, '?')
                if s == '0':
                    continue
                if s == '?':
                    ns = '?'
                else:
                    up = (v > 0) == (s == '+')
                    ns = '+' if up == (factor_sign == '+') else '-'
                g.append((self.new_opaque(ns), Fraction(1)))
            out.add(tuple(sorted(g)))
        return out

    # ------------------------------------------------------------ line level
    def sign_of_line(self, atom):
        if atom == self.x:
            return '+'
        if atom.startswith('i:'):
            return '0'
        if atom in self.sign_memo:
            return self.sign_memo[atom]
        d = self.defs.get(atom)
        if d is None or d.fr.cls.is_sub_named('InputForm'):
            return '0'
        if atom in self.stack:
            return '?'
        self.stack.add(atom)
        try:
            cs = self.def_cands(atom)
            if cs is None:
                s = '?'
            else:
                s = self.decide(cs)
                if s == '?':
                    bad = next((f for f in sorted(cs) if self.form_sign(f) is None), next(iter(cs)))
                    self.why.setdefault(atom, 'a candidate form of the derivative has no evident sign: ' + self.show(bad))
            if s == '?' and self.slope_factory is not None:
                hint = {'+', '-'}
                if cs is not None:
                    # a candidate form that is definitely negative (positive) rules the opposite claim out without a proof attempt
                    for f in cs:
                        fs = self.form_sign(f)
                        if fs == '-':
                            hint.discard('+')
                        elif fs == '+':
                            hint.discard('-')
                s2 = self.by_regions(d, atom, hint) if hint else '?'
                if s2 != '?':
                    s = s2
                    self.why.pop(atom, None)
                    self.by_slope.add(atom)
        finally:
            self.stack.discard(atom)
        self.sign_memo[atom] = s
        return s

    def by_regions(self, d, atom, hint=('+', '-')):
        """second stage: the slope is proved region by region with the relational prover; cuts are crossed without a wrong-way jump"""
        paths = self.expand_flags(d.paths, 0)
        if paths is None:
            return '?'
        items = []
        for (guards, outcome) in paths:
            if outcome.kind != 'ret':
                items.append((guards, None))
            else:
                v = outcome.value
                if isinstance(v, (tuple, list)):
                    return '?'
                items.append((guards, 0 if (v is None or v == '' or v is False) else v))
        js = self.cut_analysis(items, 0, [], atom)
        if js is None:
            return '?'
        ok = {}
        for want in ('+', '-'):
            if want in hint and js <= {want}:
                pr = self.slope_factory(self)
                try:
                    ok[want] = bool(pr.prove_slope(atom, want))
                except Exception:
                    ok[want] = False
            else:
                ok[want] = False
        if ok['+'] and ok['-']:
            return '0'
        return '+' if ok['+'] else '-' if ok['-'] else '?'

    def cut_analysis(self, items, depth, prefix, atom):
        """signs of the jumps at the input-dependent decisions of the definition ('+' upward as the input grows); None = a cut is not understood"""
        if not items or all(not g for g, _v in items):
            return set()
        if depth > 60:
            return None
        first = next(g for g, _v in items if g)[0]
        c = first[0]
        key = repr(c)
        t_items, f_items = [], []
        for g, v in items:
            pols = {gg[1] for gg in g if repr(gg[0]) == key}
            if len(pols) == 2:
                continue
            g2 = [gg for gg in g if repr(gg[0]) != key]
            if not pols:
                t_items.append((g2, v))
                f_items.append((g2, v))
            elif True in pols:
                t_items.append((g2, v))
            else:
                f_items.append((g2, v))
        if not isinstance(c, E) or self.independent(c):
            a = self.cut_analysis(t_items, depth + 1, prefix + [(c, True)], atom)
            b = self.cut_analysis(f_items, depth + 1, prefix + [(c, False)], atom)
            return None if a is None or b is None else a | b
        cmp_ = _as_lt(c)
        if cmp_ is None:
            return None
        a, b = cmp_
        jt = self.cut_analysis(t_items, depth + 1, prefix + [(c, True)], atom)
        jf = self.cut_analysis(f_items, depth + 1, prefix + [(c, False)], atom)
        if jt is None or jf is None:
            return None
        out = jt | jf
        diff = self.cands(E('sub', b, a, ty='float'))
        dd = None
        if diff is not None:
            dd = '+' if self.all_sign(diff, '+') else '-' if self.all_sign(diff, '-') else None
        if dd is None:
            if self.jump(self.leaves(f_items), self.leaves(t_items), prefix, a, b, atom, True) and \
                    self.jump(self.leaves(f_items), self.leaves(t_items), prefix, a, b, atom, False):
                return out            # continuous: no orientation needed
            return None
        low, high = (f_items, t_items) if dd == '+' else (t_items, f_items)
        lows, highs = self.leaves(low), self.leaves(high)
        up = self.jump(lows, highs, prefix, a, b, atom, True)
        down = self.jump(lows, highs, prefix, a, b, atom, False)
        if up and down:
            return out
        if up:
            return out | {'+'}
        if down:
            return out | {'-'}
        return None

    def decide(self, cs):
        if self.all_sign(cs, '+') and self.all_sign(cs, '-'):
            return '0'
        if self.all_sign(cs, '+'):
            return '+'
        if self.all_sign(cs, '-'):
            return '-'
        return '?'

    def all_sign(self, cs, want):
        todo = [(f, 0) for f in cs]
        seen = set()
        n = 0
        while todo:
            f, depth = todo.pop()
            if f in seen:
                continue
            seen.add(f)
            n += 1
            if n > 3000:
                return False
            s = self.form_sign(f)
            if s == '0' or s == want:
                continue
            if depth >= MAX_UNFOLD:
                return False
            # unfold one harmful or unknown symbol that stands for a line
            pick = None
            for k, v in f:
                if not k.startswith('s:'):
                    continue
                sg = self.sym_sign.get(k, '?')
                harmful = sg == '?' or ((v > 0) == (sg == '+')) != (want == '+')
                if harmful and self.cands_of_line(k[2:]) is not None:
                    pick = k
                    break
            if pick is None:
                return False
            sub = self.cands_of_line(pick[2:])
            coeff = dict(f)[pick]
            rest = tuple((k, v) for k, v in f if k != pick)
            for g in sub:
                todo.append((f_add(rest, f_scale(g, coeff)), depth + 1))
        return True

    def cands_of_line(self, atom):
        if atom in self.cand_memo:
            return self.cand_memo[atom]
        if atom in self.stack and atom not in self.cand_memo:
            return None
        return self.def_cands(atom)

    def show(self, f):
        return ' + '.join(f'{float(v):g}*{k}' for k, v in f) or '0'

    # ------------------------------------------------------------ expressions -> candidate forms
    def cands(self, e):
        """set of forms, or None (unknown)"""
        if not isinstance(e, E):
            return {ZERO}
        op = e.op
        if op in ('i', 'v'):
            atom = f'{op}:{canon(e.args[0])}'
            if atom == self.x:
                return {((ONE, Fraction(1)),)}
            k = self.sym(atom)
            return {ZERO} if k is None else {((k, Fraction(1)),)}
        if op in ('add', 'sub'):
            a, b = self.cands(e.args[0]), self.cands(e.args[1])
            if a is None or b is None:
                return None
            out = {f_add(x, y, 1 if op == 'add' else -1) for x in a for y in b}
            return out if len(out) <= MAX_FORMS else None
        if op == 'neg':
            a = self.cands(e.args[0])
            return None if a is None else {f_scale(x, -1) for x in a}
        if op in ('min', 'max'):
            out = set()
            for a in e.args:
                c = self.cands(a)
                if c is None:
                    return None
                out |= c
            return out if len(out) <= MAX_FORMS else None
        if op == 'mul':
            a, b = e.args
            if not isinstance(a, E) and isinstance(a, (int, float)):
                cb = self.cands(b)
                return None if cb is None else {f_scale(x, a) for x in cb}
            if not isinstance(b, E) and isinstance(b, (int, float)):
                ca = self.cands(a)
                return None if ca is None else {f_scale(x, b) for x in ca}
            ca, cb = self.cands(a), self.cands(b)
            if ca is None or cb is None:
                return None
            sa, sb = self.vsign(a), self.vsign(b)
            if ca == {ZERO} and cb == {ZERO}:
                return {ZERO}
            if ca == {ZERO}:
                return self.opaque_scale(cb, sa) if sa in ('+', '-') else None
            if cb == {ZERO}:
                return self.opaque_scale(ca, sb) if sb in ('+', '-') else None
            if sa in ('+', '-') and sb in ('+', '-'):
                pa, pb = self.opaque_scale(ca, sb), self.opaque_scale(cb, sa)
                out = {f_add(x, y) for x in pa for y in pb}
                return out if len(out) <= MAX_FORMS else None
            return None
        if op == 'div':
            a, b = e.args
            if not isinstance(b, E) and isinstance(b, (int, float)) and b != 0:
                ca = self.cands(a)
                return None if ca is None else {f_scale(x, Fraction(1) / fr(b)) for x in ca}
            ca, cb = self.cands(a), self.cands(b)
            if ca is None or cb is None:
                return None
            sa, sb = self.vsign(a), self.vsign(b)
            if cb == {ZERO}:
                return {ZERO} if ca == {ZERO} else (self.opaque_scale(ca, sb) if sb in ('+', '-') else None)
            if sa in ('+', '-') and sb == '+':
                pa = self.opaque_scale(ca, '+')
                pb = self.opaque_scale(cb, '-' if sa == '+' else '+')
                out = {f_add(x, y) for x in pa for y in pb}
                return out if len(out) <= MAX_FORMS else None
            return None
        if op == 'sumn':
            c = self.cands(e.args[0])
            if c != {ZERO}:
                return None
            return self.cands(e.args[2])
        if op == 'call':
            name = e.args[0]
            args = e.args[1:]
            monotone = name in ('float', 'round', 'int', 'ceil', 'floor', 'trunc') or (isinstance(name, str) and name.endswith(':figure_tax'))
            if monotone and args:
                for a in args[1:]:
                    if self.cands(a) != {ZERO}:
                        return None
                c = self.cands(args[0])
                if c is None:
                    return None
                if name == 'float':
                    return c
                return self.opaque_scale(c, '+') | {ZERO}          # non-decreasing transform (steps: zero derivative, jumps follow the argument)
            ok = all(self.cands(a) == {ZERO} for a in args if isinstance(a, E))
            return {ZERO} if ok else None
        if op in ('ite', 'loopval'):
            c, a, b = e.args if op == 'ite' else (None, e.args[1], e.args[2])
            if c is not None and self.cands(c) != {ZERO}:
                return None
            ca, cb = self.cands(a), self.cands(b)
            if ca is None or cb is None:
                return None
            return ca | cb
        ok = all(self.cands(a) == {ZERO} for a in e.args if isinstance(a, E))
        return {ZERO} if ok else None

    def independent(self, e):
        return self.cands(e) == {ZERO}

    def vsign(self, e):
        """sign of the *value*: '+' non-negative, '-' non-positive, None unknown"""
        if isinstance(e, bool):
            return '+'
        if isinstance(e, (int, float)):
            return '+' if e >= 0 else '-'
        if not isinstance(e, E):
            return None
        if e.op == 'i':
            return '+' if e.ty in ('float', 'int', 'bool') else None
        if e.op == 'v':
            k = f'v:{canon(e.args[0])}'
            return '+' if (k in self.nn or e.ty == 'bool') else None
        if e.op in ('add', 'min', 'mul', 'div') and all(self.vsign(a) == '+' for a in e.args):
            return '+'
        if e.op == 'max' and any(self.vsign(a) == '+' for a in e.args):
            return '+'
        if e.op == 'call' and e.args[0] in ('float', 'round', 'int', 'ceil') and len(e.args) >= 2:
            return self.vsign(e.args[1])
        if e.op == 'neg':
            return {'+': '-', '-': '+'}.get(self.vsign(e.args[0]))
        if e.op == 'sumn':
            return self.vsign(e.args[2])
        return None

    # ------------------------------------------------------------ definitions
    def def_cands(self, atom):
        if atom in self.cand_memo:
            return self.cand_memo[atom]
        d = self.defs.get(atom)
        if d is None:
            return None
        guard = ('cand', atom)
        if guard in self.stack:
            return None
        self.stack.add(guard)
        try:
            r = self._def_cands(d, atom)
        finally:
            self.stack.discard(guard)
        self.cand_memo[atom] = r
        return r

    def _def_cands(self, d, atom):
        paths = self.expand_flags(d.paths, 0)
        if paths is None:
            self.why[atom] = 'a yes/no line used as a decision could not be replaced by its definition'
            return None
        items = []
        for (guards, outcome) in paths:
            if outcome.kind != 'ret':
                items.append((guards, None))
            else:
                v = outcome.value
                if isinstance(v, (tuple, list)):
                    self.why[atom] = 'tuple value'
                    return None
                items.append((guards, 0 if (v is None or v == '' or v is False) else v))
        r, why = self.tree(items, 0, [], atom)
        if r is None and why:
            self.why.setdefault(atom, why)
        return r

    def expand_flags(self, paths, depth):
        out = []
        for p in paths:
            guards = list(p.guards) if hasattr(p, 'guards') else list(p[0])
            outcome = p.outcome if hasattr(p, 'outcome') else p[1]
            variants = [([], True)]
            for g in guards:
                c, pol = g[0], g[1]
                if isinstance(c, E) and c.op == 'v' and c.ty == 'bool' and not self.independent(c):
                    if depth > 3:
                        return None
                    fd = self.defs.get(f'v:{canon(c.args[0])}')
                    if fd is None:
                        return None
                    sub = self.expand_flags(fd.paths, depth + 1)
                    if sub is None:
                        return None
                    alts = []
                    for (fg, fo) in sub:
                        if fo.kind != 'ret':
                            alts.append((list(fg), None))
                            continue
                        fv = fo.value
                        if isinstance(fv, E):
                            alts.append((list(fg) + [(fv, pol, None, None)], True))
                        elif bool(fv) == bool(pol):
                            alts.append((list(fg), True))
                    variants = [(vg + ag, ok and aok is not None) for (vg, ok) in variants for (ag, aok) in alts]
                else:
                    variants = [(vg + [g], ok) for (vg, ok) in variants]
                if len(variants) > 400:
                    return None
            for (vg, ok) in variants:
                out.append((vg, outcome if ok else _Refuse()))
        return out

    def tree(self, items, depth, prefix, atom):
        """items: [(remaining guards, value | None)] -> (candidate forms | None, reason)"""
        if not items:
            return set(), None
        if all(not g for g, _v in items):
            out = set()
            for _g, v in items:
                if v is None:
                    continue
                c = self.cands(v)
                if c is None:
                    return None, f'value {_short(v)} is outside the monotone fragment'
                out |= c
            return out, None
        if depth > 60:
            return None, 'decision tree too deep'
        first = next(g for g, _v in items if g)[0]
        c = first[0]
        key = repr(c)
        t_items, f_items = [], []
        for g, v in items:
            pols = {gg[1] for gg in g if repr(gg[0]) == key}
            if len(pols) == 2:
                continue          # contradictory path (an artefact of combining a flag's paths with the line's)
            g2 = [gg for gg in g if repr(gg[0]) != key]
            if not pols:
                t_items.append((g2, v))
                f_items.append((g2, v))
            elif True in pols:
                t_items.append((g2, v))
            else:
                f_items.append((g2, v))
        if not isinstance(c, E) or self.independent(c):
            rt, wt = self.tree(t_items, depth + 1, prefix + [(c, True)], atom)
            if rt is None:
                return None, wt
            rf, wf = self.tree(f_items, depth + 1, prefix + [(c, False)], atom)
            if rf is None:
                return None, wf
            out = rt | rf
            return (out, None) if len(out) <= MAX_FORMS else (None, 'too many candidate forms')
        # ---- a decision that depends on x: a cut of the axis
        cmp_ = _as_lt(c)
        if cmp_ is None:
            return None, f'decision {_short(c)} depends on the input and is not a strict comparison'
        a, b = cmp_
        # a cut that is crossed continuously needs no orientation: a continuous function that is monotone on each side is monotone
        rt, wt = self.tree(t_items, depth + 1, prefix + [(c, True)], atom)
        if rt is None:
            return None, wt
        rf, wf = self.tree(f_items, depth + 1, prefix + [(c, False)], atom)
        if rf is None:
            return None, wf
        out = rt | rf
        diff = self.cands(E('sub', b, a, ty='float'))
        dd = None
        if diff is not None:
            dd = '+' if self.all_sign(diff, '+') else '-' if self.all_sign(diff, '-') else None
        if dd is None:
            # no orientation: acceptable only if the cut is crossed continuously
            if self.jump(self.leaves(f_items), self.leaves(t_items), prefix, a, b, atom, True) and \
                    self.jump(self.leaves(f_items), self.leaves(t_items), prefix, a, b, atom, False):
                return (out, None) if len(out) <= MAX_FORMS else (None, 'too many candidate forms')
            return None, f'the value may jump where {_short(a)} = {_short(b)} and both sides of that comparison move with the input'
        low, high = (f_items, t_items) if dd == '+' else (t_items, f_items)
        lows, highs = self.leaves(low), self.leaves(high)
        up = self.jump(lows, highs, prefix, a, b, atom, True)
        down = self.jump(lows, highs, prefix, a, b, atom, False)
        if up and down:
            pass                      # continuous across the cut
        elif up:
            out = out | {((self.new_opaque('+'), Fraction(1)),)}
        elif down:
            out = out | {((self.new_opaque('-'), Fraction(1)),)}
        else:
            return None, f'the jump of the value where {_short(a)} = {_short(b)} has no provable sign'
        return (out, None) if len(out) <= MAX_FORMS else (None, 'too many candidate forms')

    def jump(self, lows, highs, prefix, a, b, atom, upward):
        for (gl, vl) in lows:
            for (gh, vh) in highs:
                if vl is None or vh is None:
                    continue
                diff = E('sub', vh, vl, ty='float') if upward else E('sub', vl, vh, ty='float')
                guards = [(gc, gp, None, None) for (gc, gp) in prefix] + list(gl) + list(gh) + \
                         [(E('lt', a, b, ty='bool'), False, None, None), (E('lt', b, a, ty='bool'), False, None, None)]
                if not self.prove(diff, guards, atom):
                    return False
        return True

    def leaves(self, items):
        """all (remaining guards, value) below a cut.  Guards that depend on the input themselves (further cuts) are kept as
        constraints of the jump proof: a leaf that cannot be adjacent to the cut contradicts a = b and is discharged vacuously."""
        return [(g, v) for g, v in items]

    def prove(self, diff, guards, atom):
        if self.prover_factory is None:
            return False
        import time
        key = (repr(diff), tuple((repr(g[0]), g[1]) for g in guards), atom)
        if key in self.prove_memo:
            return self.prove_memo[key]
        pr = self.prover_factory()
        pr.t_end = time.time() + 3.0
        pr.max_cases = 600
        try:
            r = bool(pr.prove_nonneg(diff, guards, atom))
        except Exception:
            r = False
        self.prove_memo[key] = r
        return r


class _Refuse:
    kind = 'raise'
    value = None


def _as_lt(c):
    """(a, b) for the cut a < b.  The repository compares stored amounts with +-0.001 to mean 'is zero / is positive';
    stored amounts are whole cents, so the cut sits at 0 (rounding of stored values is not modelled, as in C15)."""
    if not isinstance(c, E) or len(c.args) != 2:
        return None
    a, b = c.args
    if c.op == 'gt':
        a, b = b, a
    elif c.op != 'lt':
        return None
    if isinstance(a, float) and abs(abs(a) - 0.001) < 1e-12:
        a = 0.0
    if isinstance(b, float) and abs(abs(b) - 0.001) < 1e-12:
        b = 0.0
    return a, b


def _short(v):
    s = repr(v)
    return s if len(s) < 70 else s[:67] + '...'
