"""Direction analysis: is a line a non-decreasing / non-increasing function of one
designated input, everything else fixed?  Abstract interpretation over the line
graph in the four-point domain CONST < {INC, DEC} < TOP.

Expressions: sums, differences, products with a sign-known factor, min / max /
floor-at-zero, rounding, per-copy sums and the tax function are monotone maps.
Paths: the decisions of a definition form a tree.  A decision that does not depend
on the input selects one subtree for all values of the input (join).  A decision
that does - a comparison a < b whose difference b - a itself has a direction - cuts
the axis in two; the line keeps its direction across the cut only if the value does
not jump the wrong way where a = b, which is proved with the relational prover of
C15 (exact Fourier-Motzkin).  Yes/no lines used as decisions are replaced by their
own definitions first.  Anything else is TOP: a lost proof, never an invented one.

Regions in which the definition refuses (not implemented) impose nothing: the
property compares only pairs of returns that both solve.  (A refusing region that
separates two answering regions is not bridged - stated in the evidence.)"""
from .amounts import canon
from .lineabs import E
from .linform import lin_of, NonLinear

CONST, INC, DEC, TOP = 'const', 'inc', 'dec', 'top'
BOT = 'bot'          # refuses / no value: compatible with everything


def join(a, b):
    if a == BOT:
        return b
    if b == BOT:
        return a
    if a == b:
        return a
    if a == CONST:
        return b
    if b == CONST:
        return a
    return TOP


def flip(a):
    return {INC: DEC, DEC: INC}.get(a, a)


class Mono:
    def __init__(self, an, year, x_atom, nn, prover_factory=None):
        self.an = an
        self.year = year
        self.x = x_atom
        self.nn = nn                      # canonical atoms known non-negative (C15)
        self.memo = {}
        self.stack = set()
        self.defs = {}
        for d in an.defs.values():
            if d.year == year:
                fr = d.fr
                k = f'v:{fr.form_name}:*.{d.name}' if fr.cls.is_sub_named('InputForm') else f'v:{fr.name}.{d.name}'
                self.defs[k] = d
        self.prover_factory = prover_factory
        self.why = {}

    # ------------------------------------------------------------ lines
    def line(self, atom):
        if atom == self.x:
            return INC
        if atom.startswith('i:'):
            return CONST
        if atom in self.memo:
            return self.memo[atom]
        d = self.defs.get(atom)
        if d is None or d.fr.cls.is_sub_named('InputForm'):
            return CONST                  # another input (mirror line of an input form), or an absent form's line
        if atom in self.stack:
            return TOP
        self.stack.add(atom)
        try:
            r = self.definition(d, atom)
        finally:
            self.stack.discard(atom)
        self.memo[atom] = r
        return r

    def depends(self, e):
        """does the expression depend on x at all"""
        return self.expr(e) != CONST

    # ------------------------------------------------------------ expressions
    def expr(self, e):
        if not isinstance(e, E):
            return CONST
        op = e.op
        if op in ('i', 'v'):
            return self.line(f'{op}:{canon(e.args[0])}')
        if op == 'add':
            return self._sum(self.expr(e.args[0]), self.expr(e.args[1]))
        if op == 'sub':
            return self._sum(self.expr(e.args[0]), flip(self.expr(e.args[1])))
        if op == 'neg':
            return flip(self.expr(e.args[0]))
        if op in ('min', 'max'):
            r = CONST
            for a in e.args:
                r = self._sum(r, self.expr(a))
            return r
        if op == 'mul':
            a, b = e.args
            da, db = self.expr(a), self.expr(b)
            if da == CONST and db == CONST:
                return CONST
            sa, sb = self.sign(a), self.sign(b)
            if da == CONST:
                return db if sa == '+' else flip(db) if sa == '-' else TOP
            if db == CONST:
                return da if sb == '+' else flip(da) if sb == '-' else TOP
            if sa == '+' and sb == '+' and da == db and da in (INC, DEC):
                return da
            return TOP
        if op == 'div':
            a, b = e.args
            da, db = self.expr(a), self.expr(b)
            if db == CONST:
                sb = self.sign(b)
                return da if sb == '+' else flip(da) if sb == '-' else (CONST if da == CONST else TOP)
            if da == CONST and self.sign(a) == '+' and self.sign(b) == '+':
                return flip(db)
            return TOP
        if op == 'sumn':
            return CONST if self.expr(e.args[0]) == CONST and self.expr(e.args[2]) == CONST else \
                (self.expr(e.args[2]) if self.expr(e.args[0]) == CONST else TOP)
        if op == 'countif':
            return CONST if all(self.expr(a) == CONST for a in e.args if isinstance(a, E)) else TOP
        if op == 'call':
            name = e.args[0]
            args = e.args[1:]
            if name in ('float', 'round', 'int', 'ceil', 'floor', 'trunc') and args:
                ds = [self.expr(a) for a in args[1:]]
                return self.expr(args[0]) if all(d == CONST for d in ds) else TOP
            if isinstance(name, str) and name.endswith(':figure_tax') and args:
                ds = [self.expr(a) for a in args[1:]]
                return self.expr(args[0]) if all(d == CONST for d in ds) else TOP      # non-decreasing (decided by C07, R7 monotone pieces)
            ds = [self.expr(a) for a in args if isinstance(a, E)]
            return CONST if all(d == CONST for d in ds) else TOP
        if op in ('ite',):
            c, a, b = e.args
            if self.expr(c) == CONST:
                return join(self.expr(a), self.expr(b))
            return TOP
        # comparisons, boolean connectives, strings, ...
        ds = [self.expr(a) for a in e.args if isinstance(a, E)]
        return CONST if all(d == CONST for d in ds) else TOP

    @staticmethod
    def _sum(a, b):
        if a == TOP or b == TOP:
            return TOP
        if a == CONST:
            return b
        if b == CONST:
            return a
        return a if a == b else TOP

    def sign(self, e):
        """'+' non-negative, '-' non-positive, None unknown"""
        if isinstance(e, bool):
            return '+'
        if isinstance(e, (int, float)):
            return '+' if e >= 0 else '-'
        if not isinstance(e, E):
            return None
        if e.op == 'i':
            return '+' if e.ty in ('float', 'int', 'bool') else None
        if e.op == 'v':
            k = f'v:{canon(e.args[0])}'
            return '+' if (k in self.nn or e.ty == 'bool') else None
        if e.op in ('add', 'min', 'max', 'mul', 'div') and all(self.sign(a) == '+' for a in e.args):
            return '+'
        if e.op == 'max' and any(self.sign(a) == '+' for a in e.args):
            return '+'
        if e.op == 'call' and e.args[0] in ('float', 'round', 'int', 'ceil') and len(e.args) >= 2:
            return self.sign(e.args[1])
        if e.op == 'neg':
            s = self.sign(e.args[0])
            return {'+': '-', '-': '+'}.get(s)
        if e.op == 'sumn':
            return self.sign(e.args[2])
        return None

    # ------------------------------------------------------------ definitions
    def definition(self, d, atom):
        paths = self.expand_flags(d.paths, 0)
        if paths is None:
            self.why[atom] = 'a yes/no line used as a decision could not be replaced by its definition'
            return TOP
        items = []
        for (guards, outcome) in paths:
            if outcome.kind != 'ret':
                items.append((guards, None))
            else:
                v = outcome.value
                if isinstance(v, (tuple, list)):
                    self.why[atom] = 'tuple value'
                    return TOP
                items.append((guards, 0 if (v is None or v == '' or v is False) else v))
        r, why = self.tree(items, 0, [], atom)
        if r == TOP and why:
            self.why.setdefault(atom, why)
        return CONST if r == BOT else r

    def expand_flags(self, paths, depth):
        """[(guards, outcome)] with decisions on x-dependent yes/no lines replaced by the decisions of those lines"""
        out = []
        for p in paths:
            guards = list(p.guards) if hasattr(p, 'guards') else list(p[0])
            outcome = p.outcome if hasattr(p, 'outcome') else p[1]
            variants = [([], True)]
            for g in guards:
                c, pol = g[0], g[1]
                if isinstance(c, E) and c.op == 'v' and c.ty == 'bool' and self.expr(c) != CONST:
                    if depth > 3:
                        return None
                    fd = self.defs.get(f'v:{canon(c.args[0])}')
                    if fd is None:
                        return None
                    sub = self.expand_flags(fd.paths, depth + 1)
                    if sub is None:
                        return None
                    alts = []
                    for (fg, fo) in sub:
                        if fo.kind != 'ret':
                            alts.append((list(fg), None))          # the flag refuses: so does this path
                            continue
                        fv = fo.value
                        if isinstance(fv, E):
                            alts.append((list(fg) + [(fv, pol, None, None)], True))
                        elif bool(fv) == bool(pol):
                            alts.append((list(fg), True))
                    variants = [(vg + ag, ok and aok is not None) for (vg, ok) in variants for (ag, aok) in alts]
                else:
                    variants = [(vg + [g], ok) for (vg, ok) in variants]
                if len(variants) > 400:
                    return None
            for (vg, ok) in variants:
                out.append((vg, outcome if ok else _Refuse()))
        return out

    def tree(self, items, depth, prefix, atom):
        """items: [(remaining guards, value | None)] all consistent with `prefix` -> (direction, reason)"""
        if not items:
            return BOT, None
        if all(not g for g, _v in items):
            r = BOT
            for _g, v in items:
                r = join(r, BOT if v is None else self.expr(v))
            return r, (None if r != TOP else f'value {_short(items[0][1])} has no direction')
        if depth > 40:
            return TOP, 'decision tree too deep'
        # next decision: the first guard of the first item that still has one
        first = next(g for g, _v in items if g)[0]
        c = first[0]
        key = repr(c)
        t_items, f_items, rest = [], [], []
        for g, v in items:
            if g and repr(g[0][0]) == key:
                (t_items if g[0][1] else f_items).append((g[1:], v))
            else:
                # a path that does not take this decision at this position: applies to both sides
                idx = next((i for i, gg in enumerate(g) if repr(gg[0]) == key), None)
                if idx is None:
                    t_items.append((g, v))
                    f_items.append((g, v))
                else:
                    g2 = g[:idx] + g[idx + 1:]
                    (t_items if g[idx][1] else f_items).append((g2, v))
        dep = self.expr(c) if isinstance(c, E) else CONST
        if dep == CONST:
            rt, wt = self.tree(t_items, depth + 1, prefix + [(c, True)], atom)
            rf, wf = self.tree(f_items, depth + 1, prefix + [(c, False)], atom)
            r = join(rt, rf)
            return r, (wt or wf or (f'branches of {_short(c)} go opposite ways' if r == TOP else None))
        # a decision that depends on x
        cmp_ = _as_lt(c)
        if cmp_ is None:
            return TOP, f'decision {_short(c)} depends on the input and is not a comparison'
        a, b = cmp_
        dd = self._sum(self.expr(b), flip(self.expr(a)))          # direction of b - a:  a < b  is true where b - a > 0
        if dd not in (INC, DEC):
            return TOP, f'both sides of {_short(c)} move with the input'
        low, high = (f_items, t_items) if dd == INC else (t_items, f_items)
        lowp, highp = ((c, False), (c, True)) if dd == INC else ((c, True), (c, False))
        rl, wl = self.tree(low, depth + 1, prefix + [lowp], atom)
        rh, wh = self.tree(high, depth + 1, prefix + [highp], atom)
        r = join(rl, rh)
        if r == TOP:
            return TOP, wl or wh or f'the two sides of {_short(c)} go opposite ways'
        if r == BOT:
            return BOT, None
        # jump at a = b: every answering leaf below on the low side against every answering leaf on the high side
        lows = self.leaves(low)
        highs = self.leaves(high)
        if lows is None or highs is None:
            return TOP, f'decisions below {_short(c)} depend on the input as well (nested cuts are not composed)'
        want = [r] if r in (INC, DEC) else [INC, DEC]
        okdir = None
        for w in want:
            good = True
            for (gl, vl) in lows:
                for (gh, vh) in highs:
                    if vl is None or vh is None:
                        continue
                    diff = E('sub', vh, vl, ty='float') if w == INC else E('sub', vl, vh, ty='float')
                    guards = [(gc, gp, None, None) for (gc, gp) in prefix] + list(gl) + list(gh) + \
                             [(E('lt', a, b, ty='bool'), False, None, None), (E('lt', b, a, ty='bool'), False, None, None)]
                    if not self.prove(diff, guards, atom):
                        good = False
                        break
                if not good:
                    break
            if good:
                okdir = w
                break
        if okdir is None:
            return TOP, f'the value may jump the wrong way where {_short(a)} = {_short(b)}'
        return okdir, None

    def leaves(self, items):
        """[(guards, value)] when every remaining decision is independent of x, else None"""
        out = []
        for g, v in items:
            for gg in g:
                if isinstance(gg[0], E) and self.expr(gg[0]) != CONST:
                    return None
            out.append((g, v))
        return out

    def prove(self, diff, guards, atom):
        if self.prover_factory is None:
            return False
        pr = self.prover_factory()
        try:
            return bool(pr.prove_nonneg(diff, guards, atom))
        except Exception:
            return False


class _Refuse:
    kind = 'raise'
    value = None


def _as_lt(c):
    """comparison c as (a, b) with c == (a < b) up to polarity handled by the caller; None if not a comparison of two numeric sides"""
    if not isinstance(c, E) or len(c.args) != 2:
        return None
    a, b = c.args
    if c.op == 'lt':
        return a, b
    if c.op == 'gt':
        return b, a
    if c.op == 'le':          # a <= b  ==  not (b < a): the cut is the same, polarity differs; treat as (b < a) negated
        return None
    if c.op == 'ge':
        return None
    return None


def _short(v):
    s = repr(v)
    return s if len(s) < 70 else s[:67] + '...'
