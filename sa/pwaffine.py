"""Abstract interpreter over "piecewise-affine functions of one real variable".

One parameter of the analysed function is the real variable X; every other
value is concrete.  The domain of X is a list of disjoint intervals; a
comparison between affine expressions in X splits the domain; each leaf returns
a constant or a*X+b with exact rational coefficients (decimal literals are read
as the decimal numbers they denote).  Loops over constant sequences are
unrolled with a work list, so a 2 000-row table scan costs O(rows)."""
import ast
from fractions import Fraction

from .interp import EnumMember, EnumV, Closure, Builtin, Unknown
from .src import AnalysisError, unparse

INF = Fraction(10) ** 30


def frac(v):
    if isinstance(v, bool):
        raise AnalysisError('boolean used as a number')
    if isinstance(v, int):
        return Fraction(v)
    if isinstance(v, float):
        return Fraction(repr(v))
    if isinstance(v, Fraction):
        return v
    raise AnalysisError(f'not a number: {v!r}')


class Aff:
    __slots__ = ('a', 'b', 'is_float')

    def __init__(self, a, b, is_float=True):
        self.a = Fraction(a)
        self.b = Fraction(b)
        self.is_float = is_float

    def __repr__(self):
        return f'{float(self.a)}*x{float(self.b):+}'

    def at(self, x):
        return self.a * x + self.b

    def same(self, o):
        return self.a == o.a and self.b == o.b


_MODENV_CACHE = {}


class Rounded:
    """round(<affine in the income>) with one argument: Python rounds halves to the even neighbour.  Only comparisons with
    whole-number constants are supported; each is an interval condition on the income itself."""
    __slots__ = ('inner',)

    def __init__(self, inner):
        self.inner = inner


class Floored:
    """floor(<affine in the income> / c) for a positive constant c (`income // 25`, possibly wrapped in int()): a step
    function of the income.  Supported: comparison with whole-number constants and use as a table index (the domain is
    split into the steps)."""
    __slots__ = ('inner', 'c')

    def __init__(self, inner, c):
        self.inner = inner
        self.c = Fraction(c)


class Interval:
    """[lo, hi] with open/closed flags; rational end points."""
    __slots__ = ('lo', 'hi', 'lo_open', 'hi_open')

    def __init__(self, lo, hi, lo_open=False, hi_open=False):
        self.lo, self.hi, self.lo_open, self.hi_open = Fraction(lo), Fraction(hi), lo_open, hi_open

    def empty(self):
        return self.lo > self.hi or (self.lo == self.hi and (self.lo_open or self.hi_open))

    def __repr__(self):
        return f'{"(" if self.lo_open else "["}{float(self.lo):g}, {float(self.hi):g}{")" if self.hi_open else "]"}'

    def split_lt(self, c, strict):
        """-> (part where x < c (x <= c when not strict), the rest); None for empty parts"""
        if self.hi < c:
            lo_hi_open = self.hi_open
        elif self.hi == c:
            lo_hi_open = self.hi_open or strict
        else:
            lo_hi_open = strict
        lower = Interval(self.lo, min(self.hi, c), self.lo_open, lo_hi_open)
        if self.lo > c:
            up_lo_open = self.lo_open
        elif self.lo == c:
            up_lo_open = self.lo_open or (not strict)
        else:
            up_lo_open = not strict
        upper = Interval(max(self.lo, c), self.hi, up_lo_open, self.hi_open)
        return (None if lower.empty() else lower, None if upper.empty() else upper)


class Outcome:
    def __init__(self, dom, kind, value=None, node=None):
        self.dom = dom          # list[Interval]
        self.kind = kind        # 'ret' | 'assert' | 'raise' | 'fall'
        self.value = value
        self.node = node


class ProgramRaise(Exception):
    """the analysed function itself would raise here (KeyError, IndexError): an outcome of the program, not an analysis gap"""

    def __init__(self, what, node):
        super().__init__(what)
        self.what = what
        self.node = node


class _Ret(Exception):
    pass


class PW:
    def __init__(self, interp, rel, xname_of=None):
        self.ip = interp
        self.rel = rel
        self.ns = interp.module_ns(rel)
        self.consts = {}
        self.steps = 0

    def module_const(self, name):
        """Module-level literal tables (TAX_TABLE ...) via literal evaluation."""
        if name in self.consts:
            return self.consts[name]
        mod = self.ip.tree.module(self.rel)
        for n in mod.body:
            if isinstance(n, ast.Assign) and any(isinstance(t, ast.Name) and t.id == name for t in n.targets):
                try:
                    v = ast.literal_eval(n.value)
                except Exception:
                    v = self.ip.eval_in_ns(n.value, self.ns, self.rel)
                self.consts[name] = v
                return v
        return None

    def module_env(self):
        """Names that the module computes with top-level loops (an index list built once at import time).  Only modules
        that have such loops are executed, concretely, statement by statement; everything else keeps being read as
        literals."""
        if getattr(self, '_modenv', None) is not None:
            return self._modenv
        shared = _MODENV_CACHE.get((id(self.ip), self.rel))
        if shared is not None:
            self._modenv = shared
            return shared
        self._modenv = {}
        mod = self.ip.tree.module(self.rel)
        if not any(isinstance(st, (ast.For, ast.While)) for st in mod.body):
            _MODENV_CACHE[(id(self.ip), self.rel)] = self._modenv
            return self._modenv
        env = {}
        self.in_prelude = True
        try:
            self._modenv = env            # names bound so far are visible to later statements
            self._budget = 3_000_000
            for st in mod.body:
                if isinstance(st, (ast.FunctionDef, ast.ClassDef, ast.Import, ast.ImportFrom)):
                    continue
                if isinstance(st, ast.Expr) and isinstance(st.value, ast.Constant):
                    continue
                self.run_concrete(st, env)
        finally:
            self.in_prelude = False
        _MODENV_CACHE[(id(self.ip), self.rel)] = env
        return env

    def run_concrete(self, st, env):
        self._budget -= 1
        if self._budget < 0:
            raise AnalysisError(f'{self.rel}: module-level code does not finish within the step budget')
        if isinstance(st, ast.Assign):
            try:
                v = ast.literal_eval(st.value)
            except Exception:
                v = self.ev(st.value, env)
            for t in st.targets:
                self.bind(t, v, env)
        elif isinstance(st, ast.AugAssign) and isinstance(st.target, ast.Name):
            env[st.target.id] = self.arith(st.op, self.ev(st.target, env), self.ev(st.value, env), st)
        elif isinstance(st, ast.Expr):
            self.ev(st.value, env)
        elif isinstance(st, ast.For):
            seq = self.ev(st.iter, env)
            if not isinstance(seq, (tuple, list)):
                raise AnalysisError(f'{self.rel}:{st.lineno} module-level loop over a non-constant sequence')
            for item in seq:
                self.bind(st.target, item, env)
                for b in st.body:
                    self.run_concrete(b, env)
        elif isinstance(st, ast.While):
            while self._truth(self.ev(st.test, env), st):
                for b in st.body:
                    self.run_concrete(b, env)
                self._budget -= 1
                if self._budget < 0:
                    raise AnalysisError(f'{self.rel}:{st.lineno} module-level while loop does not finish within the step budget')
        elif isinstance(st, ast.If):
            for b in (st.body if self._truth(self.ev(st.test, env), st) else st.orelse):
                self.run_concrete(b, env)
        elif isinstance(st, (ast.Pass, ast.Assert)):
            pass
        else:
            raise AnalysisError(f'{self.rel}:{st.lineno} module-level statement {type(st).__name__} is outside the subset')

    def _truth(self, v, st):
        if isinstance(v, Aff):
            if v.a != 0:
                raise AnalysisError(f'{self.rel}:{st.lineno} truth value of the income itself')
            return v.b != 0
        return bool(v)

    # ------------------------------------------------------------------
    def run_function(self, fn, args, dom):
        """fn: ast.FunctionDef; args: list of values (Aff for X); -> [Outcome]"""
        params = [a.arg for a in fn.args.args]
        if len(params) != len(args):
            raise AnalysisError(f'{self.rel}:{fn.lineno} {fn.name} takes {len(params)} arguments, called with {len(args)}')
        env = dict(zip(params, args))
        outs = []
        self.cur_outs = outs
        for (env2, dom2) in self.block(fn.body, env, dom, outs):
            outs.append(Outcome(dom2, 'ret', None, fn))     # fell off the end: returns None
        return outs

    def block(self, stmts, env, dom, outs):
        """Runs statements; appends terminal outcomes to outs; returns the list
        of (env, dom) states that fall through."""
        states = [(env, dom)]
        for st in stmts:
            nxt = []
            for (e, d) in states:
                nxt.extend(self.stmt(st, e, d, outs))
            states = nxt
            if not states:
                break
        return states

    def stmt(self, st, env, dom, outs):
        try:
            return self._stmt(st, env, dom, outs)
        except ProgramRaise as e:
            if isinstance(st, (ast.If, ast.For, ast.While, ast.With, ast.Try)) and e.node not in list(ast.walk(getattr(st, 'test', None) or getattr(st, 'iter', None) or ast.Pass())):
                raise                      # raised by a nested statement that is not in this statement's own header: already handled there
            outs.append(Outcome(dom, 'raise', e.what, e.node))
            return []

    def _stmt(self, st, env, dom, outs):
        self.steps += 1
        if isinstance(st, ast.Return):
            for (v, d) in self.eval_split(st.value, env, dom) if st.value is not None else [(None, dom)]:
                outs.append(Outcome(d, 'ret', v, st))
            return []
        if isinstance(st, ast.Assign):
            res = []
            for (v, d) in self.eval_split(st.value, env, dom):
                e2 = dict(env)
                for t in st.targets:
                    if not isinstance(t, ast.Name):
                        raise AnalysisError(f'{self.rel}:{st.lineno} unsupported assignment target')
                    e2[t.id] = v
                res.append((e2, d))
            return res
        if isinstance(st, ast.If):
            res = []
            for (truth, d) in self.cond(st.test, env, dom):
                res.extend(self.block(st.body if truth else st.orelse, dict(env), d, outs))
            return res
        if isinstance(st, ast.For):
            seqs = self.eval_split(st.iter, env, dom)
            res = []
            for (seq, d0) in seqs:
                if not isinstance(seq, (tuple, list)):
                    raise AnalysisError(f'{self.rel}:{st.lineno} loop over a non-constant sequence')
                states = [(dict(env), d0)]
                for item in seq:
                    nxt = []
                    for (e, d) in states:
                        e2 = dict(e)
                        self.bind(st.target, item, e2)
                        nxt.extend(self.block(st.body, e2, d, outs))
                    states = nxt
                    if not states:
                        break
                for (e, d) in states:
                    res.extend(self.block(st.orelse, e, d, outs))
            return res
        if isinstance(st, ast.Assert):
            res = []
            for (truth, d) in self.cond(st.test, env, dom):
                if truth:
                    res.append((env, d))
                else:
                    outs.append(Outcome(d, 'assert', unparse(st.test), st))
            return res
        if isinstance(st, ast.Raise):
            outs.append(Outcome(dom, 'raise', unparse(st.exc) if st.exc else '', st))
            return []
        if isinstance(st, ast.Expr):
            if isinstance(st.value, ast.Constant):
                return [(env, dom)]
            self.eval_split(st.value, env, dom)
            return [(env, dom)]
        if isinstance(st, (ast.Pass, ast.Import, ast.ImportFrom)):
            return [(env, dom)]          # imported names are resolved where they are used (bisect only)
        if isinstance(st, ast.AugAssign) and isinstance(st.target, ast.Name):
            fake = ast.BinOp(left=ast.Name(id=st.target.id, ctx=ast.Load()), op=st.op, right=st.value)
            ast.copy_location(fake, st)
            ast.fix_missing_locations(fake)
            res = []
            for (v, d) in self.eval_split(fake, env, dom):
                e2 = dict(env)
                e2[st.target.id] = v
                res.append((e2, d))
            return res
        raise AnalysisError(f'{self.rel}:{st.lineno} statement {type(st).__name__} is outside the piecewise-affine subset')

    def bind(self, t, v, env):
        if isinstance(t, ast.Name):
            env[t.id] = v
        elif isinstance(t, (ast.Tuple, ast.List)) and isinstance(v, (tuple, list)) and len(v) == len(t.elts):
            for e, x in zip(t.elts, v):
                self.bind(e, x, env)
        else:
            raise AnalysisError(f'{self.rel}:{t.lineno} unsupported loop target')

    # ---- expressions: a value that may depend on a domain split
    def eval_split(self, n, env, dom):
        """-> [(value, dom_part)]"""
        if isinstance(n, ast.IfExp):
            out = []
            for (truth, d) in self.cond(n.test, env, dom):
                out.extend(self.eval_split(n.body if truth else n.orelse, env, d))
            return out
        if isinstance(n, ast.Call) and self._bisect_kind(n.func, env):
            return self._bisect(n, env, dom)
        if isinstance(n, ast.Call):
            f = self.ev(n.func, env)
            if isinstance(f, Closure) and isinstance(f.node, ast.FunctionDef):
                # user function: inline
                out = []
                argsets = [([], dom)]
                for a in n.args:
                    nxt = []
                    for (vals, d) in argsets:
                        for (v, d2) in self.eval_split(a, env, d):
                            nxt.append((vals + [v], d2))
                    argsets = nxt
                for (vals, d) in argsets:
                    sub = PW(self.ip, f.rel)
                    sub.consts = self.consts if f.rel == self.rel else {}
                    for o in sub.run_function(f.node, vals, d):
                        if o.kind == 'ret':
                            out.append((o.value, o.dom))
                        else:
                            self.cur_outs.append(o)
                    self.steps += sub.steps
                return out
        if isinstance(n, ast.Subscript) and not isinstance(n.slice, ast.Slice) and self.mentions_x(n.slice, env):
            out = []
            for (base, d1) in self.eval_split(n.value, env, dom):
                for (k, d2) in self.eval_split(n.slice, env, d1):
                    if isinstance(k, Floored):
                        for (kv, d3) in self.floor_pieces(k, d2, n):
                            out.append((self.index(base, kv, n), d3))
                    else:
                        out.append((self.index(base, k, n), d2))
            return out
        if isinstance(n, ast.BoolOp) and any(isinstance(v, (ast.Call, ast.IfExp, ast.Subscript, ast.BinOp, ast.Name, ast.Constant)) for v in n.values) \
                and not all(isinstance(v, (ast.Compare, ast.BoolOp)) or (isinstance(v, ast.UnaryOp) and isinstance(v.op, ast.Not)) for v in n.values):
            # `a or b` / `a and b` over values: Python hands on the first operand that decides, and 0.0 / None are falsy
            # (a table row whose tax is $0 "is not there" for `lookup(...) or fallback(...)`)
            is_or = isinstance(n.op, ast.Or)
            pending = [(None, dom)]
            out = []
            for k, operand in enumerate(n.values):
                nxt = []
                last = k == len(n.values) - 1
                for (_prev, d0) in pending:
                    for (v, d) in self.eval_split(operand, env, d0):
                        if isinstance(v, Aff) and v.a != 0:
                            zero = -v.b / v.a
                            truthy_parts, falsy_parts = [], []
                            for iv in d:
                                lo_, rest = iv.split_lt(zero, True)
                                if lo_:
                                    truthy_parts.append(lo_)
                                if rest:
                                    pt, hi_ = rest.split_lt(zero, False)
                                    if pt:
                                        falsy_parts.append(pt)
                                    if hi_:
                                        truthy_parts.append(hi_)
                            parts = [(True, truthy_parts), (False, falsy_parts)]
                        else:
                            tv = not (v is None or v is False or v == '' or (isinstance(v, Aff) and v.b == 0) or (isinstance(v, (int, float)) and not isinstance(v, bool) and v == 0)
                                      or (isinstance(v, (list, tuple, dict)) and len(v) == 0))
                            parts = [(tv, d)]
                        for (tv, dd) in parts:
                            if not dd:
                                continue
                            if last or tv == is_or:
                                out.append((v, dd))          # this operand is the result
                            else:
                                nxt.append((v, dd))
                pending = nxt
                if not pending:
                    break
            return out
        if isinstance(n, ast.BoolOp) or isinstance(n, ast.Compare) or (isinstance(n, ast.UnaryOp) and isinstance(n.op, ast.Not)):
            if self.mentions_x(n, env):
                return [(t, d) for (t, d) in self.cond(n, env, dom)]
        if isinstance(n, ast.BinOp) and (isinstance(n.left, (ast.IfExp, ast.Call)) or isinstance(n.right, (ast.IfExp, ast.Call))):
            out = []
            for (a, d) in self.eval_split(n.left, env, dom):
                for (b, d2) in self.eval_split(n.right, env, d):
                    out.append((self.arith(n.op, a, b, n), d2))
            return out
        return [(self.ev(n, env), dom)]


    def _bisect_kind(self, f, env):
        names = ('bisect_left', 'bisect_right', 'bisect')
        if isinstance(f, ast.Attribute) and isinstance(f.value, ast.Name) and f.value.id == 'bisect' and 'bisect' not in env and f.attr in names:
            return f.attr
        if isinstance(f, ast.Name) and f.id in names and f.id not in env:
            return f.id
        return None

    def _bisect(self, n, env, dom):
        """bisect over a constant sorted table: the index is a step function of the income.
        bisect_left(a, x) = k  iff  a[k-1] < x <= a[k];  bisect_right(a, x) = k  iff  a[k-1] <= x < a[k]."""
        kind = self._bisect_kind(n.func, env)
        if len(n.args) != 2 or n.keywords:
            raise AnalysisError(f'{self.rel}:{n.lineno} bisect with lo/hi bounds is outside the piecewise-affine subset')
        seq = self.ev(n.args[0], env)
        x = self.ev(n.args[1], env)
        if not isinstance(seq, (tuple, list)) or not all(isinstance(v, (int, float, Fraction)) and not isinstance(v, bool) for v in seq):
            raise AnalysisError(f'{self.rel}:{n.lineno} bisect over a non-constant table')
        vals = [frac(v) for v in seq]
        if any(vals[i] > vals[i + 1] for i in range(len(vals) - 1)):
            raise AnalysisError(f'{self.rel}:{n.lineno} bisect over a table that is not sorted: the result is unspecified')
        if not isinstance(x, Aff):
            x = Aff(0, frac(x))
        if x.a == 0:
            import bisect as _b
            fn = _b.bisect_left if kind == 'bisect_left' else _b.bisect_right
            return [(fn(vals, x.b), dom)]
        if x.a < 0:
            raise AnalysisError(f'{self.rel}:{n.lineno} bisect on a decreasing function of the income')
        out = []
        rest = list(dom)
        for k, v in enumerate(vals):
            c = (v - x.b) / x.a
            part, nxt = [], []
            for iv in rest:
                lo, hi = iv.split_lt(c, kind != 'bisect_left')      # left: x <= c ; right: x < c
                if lo:
                    part.append(lo)
                if hi:
                    nxt.append(hi)
            if part:
                out.append((k, part))
            rest = nxt
            if not rest:
                break
        if rest:
            out.append((len(vals), rest))
        return out

    def mentions_x(self, n, env):
        for x in ast.walk(n):
            if isinstance(x, ast.Name):
                v = env.get(x.id)
                if (isinstance(v, Aff) and v.a != 0) or isinstance(v, (Floored, Rounded)):
                    return True
        return False

    def ev(self, n, env):
        self.steps += 1
        if isinstance(n, ast.Constant):
            return n.value
        if isinstance(n, ast.Name):
            if n.id in env:
                return env[n.id]
            me = self.module_env()
            if n.id in me:
                return me[n.id]
            c = self.module_const(n.id)
            if c is not None:
                return c
            v, found = self.ip.ns_lookup(self.ns, n.id, self.rel)
            if found:
                return v
            if n.id in ('float', 'int', 'round', 'max', 'min', 'abs', 'len', 'range', 'zip', 'enumerate', 'reversed', 'sorted', 'list', 'tuple'):
                return Builtin(n.id)
            raise AnalysisError(f'{self.rel}:{n.lineno} unknown name {n.id}')
        if isinstance(n, ast.Attribute):
            base = self.ev(n.value, env)
            if isinstance(base, EnumMember):
                if n.attr in base.enum.members:
                    return base.enum.member(n.attr)
                if n.attr == 'name':
                    return base.name
                raise AnalysisError(f'{self.rel}:{n.lineno} AttributeError: enum member has no attribute {n.attr}')
            if isinstance(base, EnumV):
                if n.attr in base.members:
                    return base.member(n.attr)
                raise AnalysisError(f'{self.rel}:{n.lineno} enum has no member {n.attr}')
            v = self.ip.getattr(base, n.attr, n, None)
            if isinstance(v, Unknown):
                raise AnalysisError(f'{self.rel}:{n.lineno} {v.reason}')
            return v
        if isinstance(n, ast.Subscript):
            base = self.ev(n.value, env)
            k = self.ev(n.slice, env)
            if isinstance(k, Aff):
                if k.a != 0:
                    raise AnalysisError(f'{self.rel}:{n.lineno} table indexed by the income itself')
                k = int(k.b)
            if isinstance(base, dict):
                for kk, vv in base.items():
                    if kk == k:
                        return vv
                raise ProgramRaise(f'KeyError: {k!r} is not a key of {unparse(n.value, 40)}', n)
            try:
                return base[k]
            except (IndexError, KeyError) as e:
                raise ProgramRaise(f'{type(e).__name__}: {unparse(n, 50)} with index {k!r}', n)
            except Exception as e:
                raise AnalysisError(f'{self.rel}:{n.lineno} subscript failed: {e} ({unparse(n)} with index {k!r})')
        if isinstance(n, (ast.Tuple, ast.List)):
            return [self.ev(e, env) for e in n.elts] if isinstance(n, ast.List) else tuple(self.ev(e, env) for e in n.elts)
        if isinstance(n, ast.Dict):
            return {self.ev(k, env): self.ev(v, env) for k, v in zip(n.keys, n.values)}
        if isinstance(n, ast.BinOp):
            return self.arith(n.op, self.ev(n.left, env), self.ev(n.right, env), n)
        if isinstance(n, ast.UnaryOp):
            v = self.ev(n.operand, env)
            if isinstance(n.op, ast.USub):
                return Aff(-v.a, -v.b) if isinstance(v, Aff) else -v
            if isinstance(n.op, ast.Not):
                return not v
        if isinstance(n, ast.Compare) or isinstance(n, ast.BoolOp):
            r = self.cond(n, env, [Interval(0, 0)])
            if len(r) == 1:
                return r[0][0]
            raise AnalysisError(f'{self.rel}:{n.lineno} condition on the income used as a value here')
        if isinstance(n, ast.Call) and isinstance(n.func, ast.Attribute) and n.func.attr in ('append', 'extend', 'insert', 'pop') and getattr(self, 'in_prelude', False):
            obj = self.ev(n.func.value, env)
            if isinstance(obj, list):
                return getattr(obj, n.func.attr)(*[self.ev(a, env) for a in n.args])
        if isinstance(n, ast.Call):
            f = self.ev(n.func, env)
            args = [self.ev(a, env) for a in n.args]
            if isinstance(f, Builtin):
                if f.name == 'float':
                    v = args[0]
                    return Aff(v.a, v.b, True) if isinstance(v, Aff) else Aff(0, frac(v), True)
                if f.name == 'int' and isinstance(args[0], Floored):
                    return args[0]
                if f.name == 'int' and not isinstance(args[0], Aff):
                    return int(args[0])
                if f.name == 'round' and len(args) == 1 and not n.keywords:
                    if isinstance(args[0], Aff) and args[0].a != 0:
                        return Rounded(args[0])
                    v = args[0].b if isinstance(args[0], Aff) else frac(args[0])
                    return round(v)
                if f.name == 'len':
                    return len(args[0])
                if f.name == 'range':
                    return tuple(range(*args))
                if f.name in ('zip', 'enumerate', 'reversed', 'sorted', 'list', 'tuple') and all(isinstance(a, (tuple, list, int)) for a in args) \
                        and not any(isinstance(x, Aff) for a in args if isinstance(a, (tuple, list)) for x in a):
                    try:
                        return tuple({'zip': zip, 'enumerate': enumerate, 'reversed': reversed, 'sorted': sorted, 'list': list, 'tuple': tuple}[f.name](*args))
                    except Exception as e:
                        raise AnalysisError(f'{self.rel}:{n.lineno} {f.name}() failed: {e}')
                if f.name in ('max', 'min') and not any(isinstance(a, Aff) and a.a != 0 for a in args):
                    vals = [a.b if isinstance(a, Aff) else frac(a) for a in args]
                    return Aff(0, max(vals) if f.name == 'max' else min(vals))
            raise AnalysisError(f'{self.rel}:{n.lineno} call {unparse(n.func)} is outside the piecewise-affine subset')
        if isinstance(n, ast.JoinedStr):
            return '<message>'
        if isinstance(n, (ast.ListComp, ast.GeneratorExp)) and len(n.generators) == 1 and not n.generators[0].is_async:
            g = n.generators[0]
            seq = self.ev(g.iter, env)
            if not isinstance(seq, (tuple, list)):
                raise AnalysisError(f'{self.rel}:{n.lineno} comprehension over a non-constant sequence')
            out = []
            for item in seq:
                e2 = dict(env)
                self.bind(g.target, item, e2)
                if all(self.ev(c, e2) for c in g.ifs):
                    out.append(self.ev(n.elt, e2))
            return out
        raise AnalysisError(f'{self.rel}:{getattr(n, "lineno", 0)} expression {type(n).__name__} is outside the piecewise-affine subset')

    def arith(self, op, a, b, n):
        if isinstance(a, (tuple, list)) and isinstance(b, (tuple, list)) and isinstance(op, ast.Add):
            return a + b
        if not isinstance(a, Aff) and not isinstance(b, Aff) and isinstance(a, int) and isinstance(b, int) \
                and not isinstance(op, ast.Div):
            return {ast.Add: lambda: a + b, ast.Sub: lambda: a - b, ast.Mult: lambda: a * b, ast.FloorDiv: lambda: a // b,
                    ast.Mod: lambda: a % b}[type(op)]()
        if isinstance(op, ast.FloorDiv) and isinstance(a, Aff) and a.a != 0 and not isinstance(b, (Aff, Floored, Rounded)) and frac(b) > 0:
            return Floored(a, frac(b))
        if isinstance(a, (Floored, Rounded)) or isinstance(b, (Floored, Rounded)):
            raise AnalysisError(f'{self.rel}:{n.lineno} arithmetic on a rounded / floored income is outside the piecewise-affine subset')
        A = a if isinstance(a, Aff) else Aff(0, frac(a), isinstance(a, float))
        B = b if isinstance(b, Aff) else Aff(0, frac(b), isinstance(b, float))
        if isinstance(op, ast.FloorDiv) and A.a == 0 and B.a == 0 and B.b != 0:
            import math as _m
            q = _m.floor(A.b / B.b)
            return Aff(0, q, A.is_float or B.is_float) if (isinstance(a, (Aff, float)) or isinstance(b, (Aff, float))) else q
        if isinstance(op, ast.Add):
            return Aff(A.a + B.a, A.b + B.b)
        if isinstance(op, ast.Sub):
            return Aff(A.a - B.a, A.b - B.b)
        if isinstance(op, ast.Mult):
            if A.a != 0 and B.a != 0:
                raise AnalysisError(f'{self.rel}:{n.lineno} product of two income-dependent terms (not affine)')
            if A.a == 0:
                return Aff(B.a * A.b, B.b * A.b)
            return Aff(A.a * B.b, A.b * B.b)
        if isinstance(op, ast.Div):
            if B.a != 0 or B.b == 0:
                raise AnalysisError(f'{self.rel}:{n.lineno} division by an income-dependent or zero term')
            return Aff(A.a / B.b, A.b / B.b)
        raise AnalysisError(f'{self.rel}:{n.lineno} operator {type(op).__name__} is outside the piecewise-affine subset')

    # ---- conditions -> [(truth, dom_part)]
    def cond(self, n, env, dom):
        if isinstance(n, ast.BoolOp):
            if isinstance(n.op, ast.And):
                res = []
                live = [dom]
                cur = dom
                for v in n.values:
                    nxt = []
                    for (t, d) in self.cond(v, env, cur):
                        if t:
                            nxt.extend(d)
                        else:
                            res.append((False, d))
                    cur = nxt
                    if not cur:
                        break
                if cur:
                    res.append((True, cur))
                return self._merge(res)
            else:
                res = []
                cur = dom
                for v in n.values:
                    nxt = []
                    for (t, d) in self.cond(v, env, cur):
                        if t:
                            res.append((True, d))
                        else:
                            nxt.extend(d)
                    cur = nxt
                    if not cur:
                        break
                if cur:
                    res.append((False, cur))
                return self._merge(res)
        if isinstance(n, ast.UnaryOp) and isinstance(n.op, ast.Not):
            return [(not t, d) for (t, d) in self.cond(n.operand, env, dom)]
        if isinstance(n, ast.Compare) and len(n.ops) > 1:
            # a op1 b op2 c: every operand is evaluated once, the links are tested left to right
            vals = [self.ev(n.left, env)] + [self.ev(c, env) for c in n.comparators]
            res = []
            cur = dom
            for k, op in enumerate(n.ops):
                nxt = []
                for (t, d) in self.cmp_values(vals[k], vals[k + 1], op, cur, n):
                    if t:
                        nxt.extend(d)
                    else:
                        res.append((False, d))
                cur = nxt
                if not cur:
                    break
            if cur:
                res.append((True, cur))
            return self._merge(res)
        if isinstance(n, ast.Compare) and len(n.ops) == 1:
            return self.cmp_values(self.ev(n.left, env), self.ev(n.comparators[0], env), n.ops[0], dom, n)
        if False:
            a = b = op = None
            if isinstance(a, Rounded) or isinstance(b, Rounded):
                return self.split_rounded(a, b, op, dom, n)
            if isinstance(a, Aff) or isinstance(b, Aff):
                if isinstance(op, (ast.Lt, ast.LtE, ast.Gt, ast.GtE)):
                    A = a if isinstance(a, Aff) else Aff(0, frac(a))
                    B = b if isinstance(b, Aff) else Aff(0, frac(b))
                    return self.split_cmp(A, B, op, dom, n)
                if isinstance(op, (ast.Eq, ast.NotEq)) and not (isinstance(a, Aff) and a.a != 0) and not (isinstance(b, Aff) and b.a != 0):
                    va = a.b if isinstance(a, Aff) else (frac(a) if isinstance(a, (int, float)) and not isinstance(a, bool) else a)
                    vb = b.b if isinstance(b, Aff) else (frac(b) if isinstance(b, (int, float)) and not isinstance(b, bool) else b)
                    r = va == vb
                    return [(r if isinstance(op, ast.Eq) else not r, dom)]
                raise AnalysisError(f'{self.rel}:{n.lineno} comparison {unparse(n)} on the income is outside the subset')
            r = self.ip.compare(op, a, b, n, None)
            if isinstance(r, Unknown):
                raise AnalysisError(f'{self.rel}:{n.lineno} undecidable test {unparse(n)}: {r.reason}')
            return [(bool(r), dom)]
        if isinstance(n, ast.Compare):
            raise AnalysisError(f'{self.rel}:{n.lineno} chained comparison is outside the subset')
        # plain value
        out = []
        for (v, d) in self.eval_split(n, env, dom):
            if isinstance(v, Aff):
                raise AnalysisError(f'{self.rel}:{n.lineno} truth value of the income itself')
            out.append((bool(v) if not isinstance(v, (EnumMember,)) else True, d))
        return self._merge(out)

    def cmp_values(self, a, b, op, dom, n):
        if isinstance(a, Floored) or isinstance(b, Floored):
            return self.split_floored(a, b, op, dom, n)
        if isinstance(a, Rounded) or isinstance(b, Rounded):
            return self.split_rounded(a, b, op, dom, n)
        if isinstance(a, Aff) or isinstance(b, Aff):
            if isinstance(op, (ast.Lt, ast.LtE, ast.Gt, ast.GtE)):
                A = a if isinstance(a, Aff) else Aff(0, frac(a))
                B = b if isinstance(b, Aff) else Aff(0, frac(b))
                return self.split_cmp(A, B, op, dom, n)
            if isinstance(op, (ast.Eq, ast.NotEq)) and not (isinstance(a, Aff) and a.a != 0) and not (isinstance(b, Aff) and b.a != 0):
                va = a.b if isinstance(a, Aff) else (frac(a) if isinstance(a, (int, float)) and not isinstance(a, bool) else a)
                vb = b.b if isinstance(b, Aff) else (frac(b) if isinstance(b, (int, float)) and not isinstance(b, bool) else b)
                r = va == vb
                return [(r if isinstance(op, ast.Eq) else not r, dom)]
            raise AnalysisError(f'{self.rel}:{n.lineno} comparison {unparse(n)} on the income is outside the subset')
        r = self.ip.compare(op, a, b, n, None)
        if isinstance(r, Unknown):
            raise AnalysisError(f'{self.rel}:{n.lineno} undecidable test {unparse(n)}: {r.reason}')
        return [(bool(r), dom)]

    def split_floored(self, a, b, op, dom, n):
        mirror = {ast.Lt: ast.Gt, ast.LtE: ast.GtE, ast.Gt: ast.Lt, ast.GtE: ast.LtE}
        if isinstance(b, Floored):
            if isinstance(a, Floored) or type(op) not in mirror:
                raise AnalysisError(f'{self.rel}:{n.lineno} comparison {unparse(n)} on the floored income is outside the subset')
            a, b, op = b, a, mirror[type(op)]()
        k = b.b if isinstance(b, Aff) and b.a == 0 else (frac(b) if isinstance(b, (int, float)) and not isinstance(b, bool) else None)
        if k is None or k.denominator != 1 or type(op) not in mirror:
            raise AnalysisError(f'{self.rel}:{n.lineno} comparison {unparse(n)} on the floored income is outside the subset')
        k = int(k)
        # floor(t/c) >= k  <=>  t >= k*c ;  floor(t/c) > k  <=>  t >= (k+1)*c
        neg = isinstance(op, (ast.Lt, ast.LtE))
        kk = k if isinstance(op, (ast.GtE, ast.Lt)) else k + 1
        res = self.split_cmp(a.inner, Aff(0, kk * a.c), ast.GtE(), dom, n)
        return [((not t) if neg else t, d) for (t, d) in res]

    def floor_pieces(self, F, dom, n):
        """[(k, sub-domain on which floor(inner/c) == k)]"""
        import math as _m
        a, b, c = F.inner.a, F.inner.b, F.c
        if a <= 0:
            raise AnalysisError(f'{self.rel}:{n.lineno} floor of a non-increasing function of the income')
        out = []
        for iv in dom:
            if iv.hi >= 10 ** 11:
                raise AnalysisError(f'{self.rel}:{n.lineno} table indexed by a floored income on an unbounded range')
            k_lo = _m.floor((a * iv.lo + b) / c)
            k_hi = _m.floor((a * iv.hi + b) / c)
            if k_hi - k_lo > 200000:
                raise AnalysisError(f'{self.rel}:{n.lineno} more than 200000 steps')
            for k in range(k_lo, k_hi + 1):
                lo = (k * c - b) / a
                hi = ((k + 1) * c - b) / a
                part = Interval(max(lo, iv.lo), min(hi, iv.hi), iv.lo_open if iv.lo >= lo else False, True if hi <= iv.hi else iv.hi_open)
                if hi > iv.hi:
                    part = Interval(max(lo, iv.lo), iv.hi, iv.lo_open if iv.lo >= lo else False, iv.hi_open)
                if not part.empty():
                    out.append((k, [part]))
        return out

    def index(self, base, k, n):
        if isinstance(k, Aff):
            if k.a != 0:
                raise AnalysisError(f'{self.rel}:{n.lineno} table indexed by the income itself')
            k = int(k.b)
        if isinstance(base, dict):
            for kk, vv in base.items():
                if kk == k:
                    return vv
            raise ProgramRaise(f'KeyError: {k!r} is not a key of {unparse(n.value, 40)}', n)
        try:
            return base[k]
        except (IndexError, KeyError) as e:
            raise ProgramRaise(f'{type(e).__name__}: {unparse(n, 50)} with index {k!r}', n)
        except Exception as e:
            raise AnalysisError(f'{self.rel}:{n.lineno} subscript failed: {e} ({unparse(n)} with index {k!r})')

    def _merge(self, res):
        t = [i for (tr, d) in res if tr for i in d]
        f = [i for (tr, d) in res if not tr for i in d]
        out = []
        if t:
            out.append((True, t))
        if f:
            out.append((False, f))
        return out

    def split_rounded(self, a, b, op, dom, n):
        if isinstance(b, Rounded):
            if isinstance(a, Rounded):
                raise AnalysisError(f'{self.rel}:{n.lineno} comparison of two rounded incomes is outside the subset')
            mirror = {ast.Lt: ast.Gt, ast.LtE: ast.GtE, ast.Gt: ast.Lt, ast.GtE: ast.LtE}
            if type(op) not in mirror:
                raise AnalysisError(f'{self.rel}:{n.lineno} comparison {unparse(n)} on the rounded income is outside the subset')
            a, b, op = b, a, mirror[type(op)]()
        c = b.b if isinstance(b, Aff) and b.a == 0 else (frac(b) if isinstance(b, (int, float)) and not isinstance(b, bool) else None)
        if c is None or c.denominator != 1 or not isinstance(op, (ast.Lt, ast.LtE, ast.Gt, ast.GtE)):
            raise AnalysisError(f'{self.rel}:{n.lineno} comparison {unparse(n)} on the rounded income is outside the subset')
        c = int(c)
        # round(t) >= k  <=>  t >= k - 1/2 when the half rounds up to k (k even), t > k - 1/2 otherwise
        neg = isinstance(op, (ast.Lt, ast.LtE))
        k = c if isinstance(op, (ast.GtE, ast.Lt)) else c + 1
        half = Aff(0, Fraction(2 * k - 1, 2))
        res = self.split_cmp(a.inner, half, ast.GtE() if k % 2 == 0 else ast.Gt(), dom, n)
        return [((not t) if neg else t, d) for (t, d) in res]

    def split_cmp(self, A, B, op, dom, n):
        # A op B  with A-B = a*x + b
        a = A.a - B.a
        b = A.b - B.b
        if a == 0:
            r = {ast.Lt: b < 0, ast.LtE: b <= 0, ast.Gt: b > 0, ast.GtE: b >= 0}[type(op)]
            return [(r, dom)]
        c = -b / a            # a*x + b  op 0   <=>   x op' c
        flip = a < 0
        kind = type(op)
        if flip:
            kind = {ast.Lt: ast.Gt, ast.LtE: ast.GtE, ast.Gt: ast.Lt, ast.GtE: ast.LtE}[kind]
        t, f = [], []
        for iv in dom:
            if kind is ast.Lt:
                lo, hi = iv.split_lt(c, True)
                if lo:
                    t.append(lo)
                if hi:
                    f.append(hi)
            elif kind is ast.LtE:
                lo, hi = iv.split_lt(c, False)
                if lo:
                    t.append(lo)
                if hi:
                    f.append(hi)
            elif kind is ast.GtE:
                lo, hi = iv.split_lt(c, True)
                if hi:
                    t.append(hi)
                if lo:
                    f.append(lo)
            else:  # Gt
                lo, hi = iv.split_lt(c, False)
                if hi:
                    t.append(hi)
                if lo:
                    f.append(lo)
        out = []
        if t:
            out.append((True, t))
        if f:
            out.append((False, f))
        return out
