"""Gate analysis for C09: partial evaluation of line definitions under the
assumption "this declaration is affirmative", with inter-line propagation."""
import collections

from .formx import field_closure
from .lineabs import LineEval, InputsTok, ValuesTok, E, _MISSING
from .interp import EnumMember


class GateAnalysis:
    def __init__(self, an, year):
        self.an = an
        self.cat = an.cat
        self.year = year
        self.defs = {(d.fr.name, d.name): d for d in an.defs.values() if d.year == year}
        # readers of every atom (from the unconditional analysis)
        self.readers = collections.defaultdict(list)
        self.line_reads = collections.defaultdict(set)      # line key -> set of line keys it may read
        for d in self.defs.values():
            for r in d.reads():
                self.readers[r.atom].append(d)
                if r.kind == 'v' and r.res is not None and r.res.form is not None and r.res.decl is not None:
                    self.line_reads[(d.fr.name, d.name)].add((self._fname(r.res), r.res.name))
        self.rev = collections.defaultdict(set)
        for k, vs in self.line_reads.items():
            for v in vs:
                self.rev[v].add(k)
        self._always = {}

    def _fname(self, res):
        if res.form.instance is not None:
            return res.form.name
        return res.form_name

    # ---- evaluation under an assumption, memoised per assumption
    def paths(self, d, assume, memo):
        key = (d.fr.name, d.name)
        if key in memo['paths']:
            return memo['paths'][key]
        memo['paths'][key] = None          # cycle marker
        ev = LineEval(self.cat, self.year, d.fr, assume=assume, line_oracle=lambda res, atom, e: self.oracle(res, atom, assume, memo))
        ps = ev.run(field_closure(d.rec), [d.rec, InputsTok(d.fr.rec), ValuesTok(d.fr.rec)])
        memo['paths'][key] = ps
        return ps

    def affected(self, assume, memo):
        """lines whose evaluation can depend on the assumed atoms: readers and
        everything that transitively reads them"""
        if 'affected' not in memo:
            seen = set()
            todo = []
            for atom in assume:
                for d in self.readers.get(atom, []):
                    todo.append((d.fr.name, d.name))
                if atom.startswith('v:'):
                    pass
            while todo:
                k = todo.pop()
                if k in seen:
                    continue
                seen.add(k)
                todo.extend(self.rev.get(k, ()))
            memo['affected'] = seen
        return memo['affected']

    def oracle(self, res, atom, assume, memo):
        """value of v[line] under the assumption when it is the same concrete
        constant on every path; _MISSING otherwise"""
        key = (self._fname(res), res.name)
        if key not in self.affected(assume, memo):
            return _MISSING
        d = self.defs.get(key)
        if d is None:
            return _MISSING
        if key in memo['const']:
            return memo['const'][key]
        memo['const'][key] = _MISSING
        ps = self.paths(d, assume, memo)
        if ps is None:
            return _MISSING
        vals = []
        for p in ps:
            if p.outcome.kind != 'ret':
                continue
            v = p.outcome.value
            if isinstance(v, E) or isinstance(v, (list, tuple, dict)):
                return _MISSING
            vals.append(v)
        if not vals:
            return _MISSING
        first = vals[0]
        if all(type(v) is type(first) and v == first for v in vals) and isinstance(first, (bool, int, float, str, type(None), EnumMember)):
            # the stored value goes through TypedField.value: None -> empty value
            if first is None:
                ty = d.rec.attrs.get('_empty_value')
                first = ty
            memo['const'][key] = first
            return first
        return _MISSING

    def always_aborts(self, key):
        """line aborts on every path with no assumption at all"""
        if key not in self._always:
            d = self.defs.get(key)
            self._always[key] = d is not None and bool(d.paths) and all(p.outcome.kind == 'raise' for p in d.paths)
        return self._always[key]

    def aborts(self, key, assume, memo, depth=0):
        """every path of the line, under the assumption, ends without a value:
        it raises, or it reads a line that itself aborts (or whose form has a
        required line that aborts)"""
        if key in memo['abort']:
            return memo['abort'][key]
        if key not in self.affected(assume, memo):
            r = self.always_aborts(key)
            memo['abort'][key] = r
            return r
        d = self.defs.get(key)
        if d is None or depth > 40:
            return False
        memo['abort'][key] = False        # cycles do not abort by themselves
        ps = self.paths(d, assume, memo)
        if not ps:
            return False
        r = all(self.path_aborts(p, d, assume, memo, depth) for p in ps)
        memo['abort'][key] = r
        return r

    def path_aborts(self, p, d, assume, memo, depth=0):
        if p.outcome.kind == 'raise':
            return True
        for r in p.reads:
            if r.kind != 'v' or r.in_loop or r.res is None or r.res.form is None or r.res.decl is None:
                continue
            k = (self._fname(r.res), r.res.name)
            if k == (d.fr.name, d.name):
                continue
            if self.aborts(k, assume, memo, depth + 1):
                return True
            # reading a line of another form adds that form: its required lines are scheduled
            if r.res.form is not d.fr and self.form_aborts(r.res.form, assume, memo, depth + 1):
                return True
        return False

    def form_aborts(self, fr, assume, memo, depth=0):
        k = ('form', fr.name)
        if k in memo['abort']:
            return memo['abort'][k]
        memo['abort'][k] = False
        r = any(self.aborts((fr.name, rec.attrs.get('_name')), assume, memo, depth + 1) for rec in fr.required)
        memo['abort'][k] = r
        return r

    # ---- the question asked about one reader of one declaration
    def new_memo(self):
        return {'paths': {}, 'const': {}, 'abort': {}}

    def classify_all(self, atom, value, context=None):
        """classification of every reader of the declaration (shared memo)"""
        assume = {atom: value}
        assume.update(context or {})
        memo = self.new_memo()
        out = {}
        for d in self.readers.get(atom, []):
            out[(d.fr.name, d.name)] = self.classify_reader(d, atom, value, assume, memo)
        # S3: a silent reader that is not a required line is still covered when every
        # path of every line that reads it aborts (the demander can never finish)
        changed = True
        while changed:
            changed = False
            for key, (c, detail) in list(out.items()):
                if c != 'silent':
                    continue
                d = self.defs[key]
                if d.rec in d.fr.required:
                    continue
                demanders = self.rev.get(key, set())
                if not demanders:
                    continue
                ok = True
                for dk in demanders:
                    dd = self.defs.get(dk)
                    if dd is None:
                        ok = False
                        break
                    ps = self.paths(dd, assume, memo) or []
                    for p in ps:
                        if any(r.kind == 'v' and r.res is not None and r.res.decl is d.rec for r in p.reads):
                            if not self.path_aborts(p, dd, assume, memo):
                                ok = False
                                break
                    if not ok:
                        break
                if ok:
                    out[key] = ('S3', f'every line that reads it ({sorted(".".join(x) for x in demanders)[:3]}) aborts')
                    changed = True
        return out

    def classify_reader(self, d, atom, value, assume=None, memo=None):
        """-> ('S1' | 'S2' | 'silent' | 'unread', detail)
        S1: every path that reads the declaration raises by itself
        S2: every such path ends in an abort through the lines it reads, or a
            required line of the reader's own form aborts"""
        if assume is None:
            assume = {atom: value}
        if memo is None:
            memo = self.new_memo()
        ps = self.paths(d, assume, memo)
        rel = [p for p in ps if self.really_reads(p, atom)]
        if not rel:
            return 'unread', ''
        if all(p.outcome.kind == 'raise' for p in rel):
            return 'S1', rel[0].outcome
        if all(self.path_aborts(p, d, assume, memo) for p in rel):
            return 'S2', 'aborts through a line it reads'
        if self.form_aborts(d.fr, assume, memo):
            culprit = next((rec.attrs.get('_name') for rec in d.fr.required if memo['abort'].get((d.fr.name, rec.attrs.get('_name')))), '?')
            return 'S2', f'required line {d.fr.name}.{culprit} aborts'
        bad = next(p for p in rel if not self.path_aborts(p, d, assume, memo))
        return 'silent', bad

    def really_reads(self, p, atom):
        for r in p.reads:
            if r.atom != atom:
                continue
            if not r.in_loop:
                return True
            # a read inside a per-instance loop happens only if the loop runs: on a path that has decided
            # "there is no copy" (not 0 < count) the copy's line is never consulted
            counts = set()
            def walk(x):
                if isinstance(x, E):
                    if x.op == 'idx':
                        counts.add(repr(x.args[1]))
                    for a in x.args:
                        walk(a)
                elif isinstance(x, (list, tuple)):
                    for a in x:
                        walk(a)
            walk(r.parts)
            empty = False
            for (c, pol, _n, _r) in p.guards:
                if isinstance(c, E) and c.op == 'lt' and c.args[0] == 0 and not isinstance(c.args[0], bool) and not pol and repr(c.args[1]) in counts:
                    empty = True
            if empty:
                continue
            return True
        return False
