"""Self-test variants (see selftest.py).  `edits` are exact text replacements on
the current tree; a variant whose anchor text is gone is stale and fails the
thorough run.  expect='fire': the listed properties must report a violation
whose rule starts with `rule`; expect='silent': behaviour preserving, no alarm."""

MUTANTS = []

S = 'habutax/solver.py'
F = 'habutax/form.py'
FI = 'habutax/fields.py'
IN = 'habutax/inputs.py'
VA = 'habutax/values.py'
CLI = 'habutax/__init__.py'
PF = 'habutax/pdf_filler.py'
PFD = 'habutax/pdf_fields.py'
Y23 = 'habutax/forms/ty2023/'
Y22 = 'habutax/forms/ty2022/'
Y21 = 'habutax/forms/ty2021/'


def M(id_, pids, rel, old, new, rule=None, what='', expect='fire', count=1, accept_error=False, more=()):
    MUTANTS.append({'id': id_, 'pids': pids if isinstance(pids, list) else [pids], 'edits': [(rel, old, new)] + list(more),
                    'rule': rule, 'what': what or id_, 'expect': expect, 'count': count, 'accept_error': accept_error})


# ------------------------------------------------------------------ core: C01
M('k1-drop-unimplemented-conjunct', ['C01'], S, " \\\n                and len(self._unimplemented_fields) == 0:", ":", 'K1',
  'success no longer requires an empty unimplemented list')
M('k1-drop-input-conjunct', ['C01'], S, "                and not self._input_dependencies.has_unmet() \\\n", "", 'K1',
  'success no longer requires "no unmet input dependency"')
M('k1-has_unmet-always-false', ['C01'], S, "        for dependency, dependents in self._unmet.items():\n            if len(dependents) > 0 and dependency not in self._met:\n                return True\n        return False",
  "        return False", 'K1', 'DependencyTracker.has_unmet() always answers False')
M('k1b-success-unconditional', ['C01'], CLI, "    if successful:\n        print(\"\\nSuccessfully solved!\")\n    else:",
  "    print(\"\\nSuccessfully solved!\")\n    if not successful:", 'K1b', 'CLI prints the success text regardless of the verdict')
M('k1b-drop-blocked-lines-report', ['C01'], CLI, "            for dependency, dependents in unmet_field_dependencies.items():\n                print(f'{dependency} (needed by: {\", \".join(dependents)})')",
  "            pass", 'K1b', 'CLI no longer names the blocked lines')
M('k2-unimplemented-not-recorded', ['C01'], S, "            self._unimplemented_fields.append(fni.field_name)", "            pass", 'K2',
  'FieldNotImplemented handler records nothing')
M('k2-missing-input-not-recorded', ['C01', 'C13'], S, "            self._input_dependencies.add_unmet(mi.input_name, field)", "            pass", 'K2',
  'MissingInput handler records nothing')
M('k2-wrong-waiter', ['C01', 'C13'], S, "            self._input_dependencies.add_unmet(mi.input_name, field)", "            self._input_dependencies.add_unmet(mi.input_name, self)", 'K2',
  'the wrong object is registered as the waiter of a missing input')
M('k2-catch-all-in-attempt', ['C01'], S, "            self._unimplemented_fields.append(fni.field_name)",
  "            self._unimplemented_fields.append(fni.field_name)\n        except Exception:\n            pass", 'K2', 'a catch-all handler swallows failing line definitions')
M('k2-catch-all-in-field-value', ['C01'], FI, "        v = self._value(inputs, values)\n", "        try:\n            v = self._value(inputs, values)\n        except Exception:\n            v = None\n", 'K2',
  'TypedField.value swallows the signalling exceptions of the line definition')
M('k2-try-in-line', ['C01'], Y23 + 'f1040.py', "            if i['number_dependents'] > 0:\n                return v['1040_s8812.14']\n            else:\n                return None",
  "            try:\n                return v['1040_s8812.14'] if i['number_dependents'] > 0 else None\n            except Exception:\n                return 0.0", 'K2', 'a line definition swallows the solver signals with try/except')
M('k3-not-implemented-returns', ['C01'], FI, "        raise FieldNotImplemented(self.name(), detailed=detailed)", "        return None", 'K3',
  'not_implemented() returns instead of raising')
M('k4-unknown-form-ignored', ['C01'], S, "            raise NotImplementedError(f'Form {form_name} is not supported.')", "            return", 'K4',
  'an unknown form name is silently ignored')
M('k5-clear-unimplemented', ['C01'], S, "        self._done_solving = True\n", "        self._done_solving = True\n        self._unimplemented_fields.clear()\n", 'K5',
  'the unimplemented list is cleared before the verdict')
M('k7-valuestore-default', ['C01', 'C03'], VA, "        try:\n            return self.values[key]\n        except KeyError as ke:\n            raise UnmetDependency(key) from ke", "        return self.values.get(key)", 'K7',
  'reading a line without a value yields None instead of raising')
M('k7-accessor-default', ['C01', 'C03', 'C05'], F, "        return self.mapping[key]", "        return self.mapping.get(key)", 'K7', 'FormAccessor returns a default for missing keys')
M('l1-len-of-values', ['C01', 'C03', 'C05', 'C11'], Y23 + 'f1040.py', "FloatField('30', lambda s, i, v: None),", "FloatField('30', lambda s, i, v: None if len(v) else None),", 'L1',
  'a line looks at len(v)')
M('l1-get-with-default', ['C01', 'C03', 'C11'], Y23 + 'f1040.py', "FloatField('26', lambda s, i, v: i['estimated_tax_payments']),", "FloatField('26', lambda s, i, v: i.get('estimated_tax_payments', 0.0)),", 'L1',
  'a line reads an input with a default')
M('rename-unimplemented-attr', ['C01', 'C03', 'C04', 'C06', 'C13'], S, "_unimplemented_fields", "_ni_lines", None, 'consistent rename of a solver attribute', 'silent', count=4)
M('rename-value-store-attr', ['C01', 'C03', 'C04', 'C06', 'C12'], S, "self._v", "self._values_", None, 'consistent rename of the value store attribute', 'silent', count=4)

# ------------------------------------------------------------------ C03 / C05
M('l2-memoise-on-field', ['C03', 'C05'], Y23 + 'f1040.py', "FloatField('26', lambda s, i, v: i['estimated_tax_payments']),",
  "FloatField('26', lambda s, i, v: setattr(s, 'cache', 1) or i['estimated_tax_payments']),", 'L2', 'a line writes an attribute on its field object')
M('l2-append-to-closure-list', ['C03', 'C05'], Y23 + 'f1040.py', "        def line_19(self, i, v):\n", "        seen = []\n        def line_19(self, i, v):\n            seen.append(1)\n", 'L2',
  'a line appends to a list captured from the constructor')
M('k6-store-bypasses-choke-point', ['C03', 'C12', 'C01'], S, "self._v[field.name()] = field.value(form_inputs, form_values)", "self._v[field.name()] = field._value(form_inputs, form_values)", 'K',
  'the solver stores the raw result of the value function')
M('k6-second-writer', ['C03'], S, "            self._field_dependencies.add_unmet(ud.dependency, field)\n", "            self._field_dependencies.add_unmet(ud.dependency, field)\n            self._v[field.name()] = None\n", 'K6',
  'a provisional value is stored while waiting for a dependency')
M('k6-delete-on-retry', ['C03'], S, "            return self._attempt_field(field)", "            self._v.pop(field.name(), None)\n            return self._attempt_field(field)", 'K6',
  'a stored value is deleted on retry')
M('k21b-no-rounding', ['C03', 'C12'], FI, "        return round(value, self._places)", "        return value", 'K21b', 'money lines are no longer rounded on the way into the store')
M('k16-iterate-solving-set', ['C05'], S, "        self._solving_fields |= set(field_names)\n", "        self._solving_fields |= set(field_names)\n        for name in self._solving_fields:\n            self._add_unattempted(self._field_map[name])\n", 'K16',
  'the set of lines being solved is iterated')
M('k16-random-tiebreak', ['C05'], S, "from habutax import values\n", "from habutax import values\nimport random\n", 'K16', 'the solver imports random')
M('k16-time-in-form', ['C05'], Y23 + 'f1098.py', "from habutax.form import", "import time\nfrom habutax.form import", 'K16', 'a form module imports time')
M('k8-answers-in-side-dict', ['C05', 'C13', 'C20'], S, "            self._i[missing.name()] = value\n", "            self._answers = {missing.name(): value}\n", 'K', 'prompted answers are kept in a side dict instead of the input store')
M('sort-key-changed', ['C05', 'C06'], S, "        self._unattempted_fields.sort(key=sort_keys)", "        self._unattempted_fields.sort(key=sort_keys, reverse=True)", None, 'a different (still deterministic) attempt order', 'silent')

# ------------------------------------------------------------------ C04
M('k13-schedules-all-lines', ['C04'], S, "self._add_unattempted(new_form.required_fields())", "self._add_unattempted(new_form.fields())", 'K13', 'adding a form schedules its optional lines too')
M('k13-input-only-falls-through', ['C04'], S, "        if input_only:\n            return\n", "", 'K13', 'loading a form for its inputs also schedules its required lines')
M('k13b-input-spec-adds-form-fully', ['C04'], S, "self._add_form(form_name, input_only=True)", "self._add_form(form_name)", 'K13b', 'reading an input of another form adds that whole form')
M('k12-handler-schedules-form-lines', ['C04', 'C06'], S, "                self._add_unattempted(self._field_map[ud.dependency])", "                self._add_unattempted(self.forms[ud.dependency.split('.')[0]].fields())", 'K12',
  'a discovered dependency schedules every line of its form')
M('k14-skip-blank-values', ['C04', 'C14'], VA, "            field = field_map[key]\n", "            field = field_map[key]\n            if not value:\n                continue\n", 'K14', 'blank values are left out of the solution')
M('k12-extra-scheduler', ['C04'], S, "        self._i.update_input_spec(self._input_map)\n", "        self._i.update_input_spec(self._input_map)\n        self._unattempted_fields.extend(new_form.fields())\n", 'K12',
  'the queue is extended outside _add_unattempted')

# ------------------------------------------------------------------ C06
M('k9-no-meet-after-store', ['C06'], S, "            self._field_dependencies.meet(field.name())\n", "", 'K9', 'a stored value is not announced to the tracker')
M('k9-input-meet-before-store', ['C06', 'C20'], S, "            self._i[missing.name()] = value\n            self._input_dependencies.meet(missing.name())\n",
  "            self._input_dependencies.meet(missing.name())\n            self._i[missing.name()] = value\n", 'K', 'the answer is stored after the tracker was told')
M('k10-refusal-reset', ['C06', 'C20'], S, "            self._refused_input = True", "            self._refused_input = False", 'K10', 'a refusal resets the flag to False')
M('k10-no-break-after-refusal', ['C06'], S, "                    if self._refused_input:\n                        break\n", "", 'K10', 'prompting continues after a refusal')
M('k12-reschedule-lines-being-solved', ['C06', 'C04'], S, "            if ud.dependency not in self._solving_fields:", "            if True:", 'K12', 'a dependency already being solved is scheduled again')
M('k15-live-generator', ['C06'], S, "for field in list(self._input_dependencies.met_dependents()):", "for field in self._input_dependencies.met_dependents():", 'K15',
  'solve() iterates over the live met_dependents() generator')
M('k15-sorted-instead-of-list', ['C06'], S, "for field in list(self._input_dependencies.met_dependents()):", "for field in sorted(self._input_dependencies.met_dependents(), key=sort_keys):", None,
  'sorted() instead of list(): still materialised', 'silent')

# ------------------------------------------------------------------ C11
M('k11-no-validation', ['C11'], IN, "        if not i.valid(string):\n            raise InvalidInput(key, string)\n", "", 'K11', 'the store converts without validating')
M('k11-fallback-default', ['C11'], IN, "        if not self.provides(i):\n            raise MissingInput(key)\n        string = self.config.get(i.section(), i.base_name())",
  "        string = self.config.get(i.section(), i.base_name(), fallback='')", 'K11', 'an absent input silently defaults to empty text')
M('k11-validate-stripped-copy', ['C11'], IN, "        if not i.valid(string):\n            raise InvalidInput(key, string)\n        return i.value(string)",
  "        if not i.valid(string):\n            raise InvalidInput(key, string)\n        string = string.split('#')[0]\n        return i.value(string)", 'K11', 'the text is modified between validation and conversion')
M('k11c-enum-valid-always-true', ['C11'], IN, "        try:\n            self.enum[string]\n        except KeyError as ke:\n            return False\n        return True", "        return True", 'K11c',
  'EnumInput.valid accepts every name')
M('k11d-no-finiteness', ['C11'], IN, "        if not math.isfinite(value):\n            raise ValueError(f'Invalid (non-finite) floating point value: {string}')\n", "", 'K11d', 'the finiteness test of FloatInput is removed')
M('k11-provides-other-option', ['C11'], IN, "        return self.config.has_option(input_obj.section(), input_obj.base_name())", "        return self.config.has_option(input_obj.section(), input_obj.name())", 'K11e',
  'provides() looks the input up under a different option name than the read')
M('k20-prompt-returns-unvalidated', ['C11', 'C20'], CLI, "    while value is None or not missing.valid(value):", "    while value is None:", 'K20', 'the prompt returns the first answer without validating it')
M('k11-isfinite-rewritten', ['C11'], IN, "        if not math.isfinite(value):", "        if math.isnan(value) or math.isinf(value):", None, 'finiteness test spelled with isnan/isinf', 'silent')

# ------------------------------------------------------------------ C12
M('k21a-isinstance', ['C12'], FI, "        elif type(v) is not self._type:", "        elif not isinstance(v, self._type):", 'K21a', 'isinstance lets a bool into an integer line')
M('k21a-no-type-error', ['C12'], FI, "            raise TypeError(f'Field named {self.name()} expected to produce type {self._type}, but found {type(v)}.')", "            v = self._type(v)", 'K21a',
  'a wrongly typed result is coerced instead of rejected')
M('k21d-integer-mirrored-as-float', ['C12'], F, "                fields.append(IntegerField(base_name, fn))", "                fields.append(FloatField(base_name, fn))", 'K21d', 'integer inputs are mirrored by money lines')
M('k21e-empty-float-none', ['C12'], FI, "        self._empty_value = 0.0", "        self._empty_value = None", 'K21e', 'a blank money line is stored as None')
M('k21a-eq-spelling', ['C12'], FI, "        elif type(v) is not self._type:", "        elif type(v) != self._type:", None, 'exact type test spelled with !=', 'silent')

# ------------------------------------------------------------------ C13
M('k17-prompt-all-declared-inputs', ['C13'], S, "        self._i.update_input_spec(self._input_map)\n", "        self._i.update_input_spec(self._input_map)\n        for i in new_form.inputs():\n            self._input_dependencies.add_unmet(i.name(), None)\n", 'K17',
  'every declared input of an added form is registered as missing')
M('k17-wrong-waiters-quoted', ['C13'], S, "needed_by = self._input_dependencies.unmet_dependents(input_name)", "needed_by = list(self._field_map.values())", 'K17', 'the prompt quotes all lines instead of the waiters')
M('k18-writes-back-a-copy', ['C13', 'C20'], CLI, "s = solver.Solver(input_store, forms.available_forms[args.year], prompt=prompt_fn)", "s = solver.Solver(inputs.InputStore(args.input_file), forms.available_forms[args.year], prompt=prompt_fn)", 'K18',
  'the solver works on a second store; write-back saves the untouched one')
M('k10-prompt-from-attempt-field', ['C13', 'C06'], S, "            self._input_dependencies.add_unmet(mi.input_name, field)", "            self._input_dependencies.add_unmet(mi.input_name, field)\n            self._prompt(self._input_map[mi.input_name], [field])", 'K10',
  'the prompt is called directly from the attempt method')

# ------------------------------------------------------------------ C14
M('k22a-reader-key-renamed', ['C14'], CLI, "solution.getint('habutax', 'tax_year')", "solution.getint('habutax', 'year')", 'K22a', 'fill-pdfs reads a key the solution does not write')
M('k22a-section-not-removed', ['C14'], CLI, "    solution.remove_section('habutax')\n", "", 'K22a', 'the metadata section is handed to the filler as a form')
M('k22b-to_string-two-places', ['C14'], FI, "        return f'{value:.{self._places}f}'", "        return f'{value:.2f}'", 'K22b', 'money text always has two decimals, whatever the declared places')
M('k22b-plain-enum', ['C14'], 'habutax/enum.py', "    return Enum(name, options, type=StringyEnum)", "    return Enum(name, options)", 'K22b', 'enumerations print as Class.member')
M('k22c-interpolation-back', ['C14'], VA, "configparser.ConfigParser(interpolation=None)", "configparser.ConfigParser()", 'K22c', 'the solution parser interpolates % again')
M('k22a-hoisted-constant', ['C14'], CLI, "solution.getint('habutax', 'tax_year')", "solution.getint(META_SECTION, 'tax_year')", None, 'section name hoisted into a module constant used by both sides', 'silent',
  more=[(CLI, "    solution['habutax'] = {", "    solution[META_SECTION] = {"), (CLI, "    solution.remove_section('habutax')", "    solution.remove_section(META_SECTION)"),
        (CLI, "__version__ = '0.2.1'\n", "__version__ = '0.2.1'\nMETA_SECTION = 'habutax'\n")])

# ------------------------------------------------------------------ C19
M('k23a-no-escaping', ['C19'], PF, "lines.append(f'<< /T ({_escape_fdf_string(k)}) /V ({_escape_fdf_string(v)}) >>')", "lines.append(f'<< /T ({k}) /V ({v}) >>')", 'K23a', 'values are written unescaped')
M('k23a-parentheses-only', ['C19'], PF, "str(text).replace('\\\\', '\\\\\\\\').replace('(', '\\\\(').replace(')', '\\\\)')", "str(text).replace('(', '\\\\(').replace(')', '\\\\)')", 'K23a', 'the backslash is not escaped')
M('k23a-backslash-last', ['C19'], PF, "str(text).replace('\\\\', '\\\\\\\\').replace('(', '\\\\(').replace(')', '\\\\)')", "str(text).replace('(', '\\\\(').replace(')', '\\\\)').replace('\\\\', '\\\\\\\\')", 'K23a',
  'the backslash is escaped last, doubling the escapes just added')
M('k23b-no-filter', ['C19'], PF, "filling_forms = [f for f in self.forms if f.needs_filing(self._values)]", "filling_forms = list(self.forms)", 'K23b', 'all forms of the solution are selected')
M('k23b-no-sort', ['C19'], PF, "        filling_forms.sort(key=lambda f: (f.jurisdiction, f.sequence_no))\n", "", 'K23b', 'forms are output in solution order')
M('k23b-sort-by-sequence-only', ['C19'], PF, "key=lambda f: (f.jurisdiction, f.sequence_no)", "key=lambda f: f.sequence_no", 'K23b', 'jurisdiction no longer takes part in the order')
M('k23c-truncate', ['C19'], PFD, "            raise PDFValueTooLong(self.pdf_field_name, self.field_name, self.max_length)", "            value = value[:self.max_length]", 'K23c', 'over-long text is truncated')
M('k23c-catch-all-in-fill', ['C19'], PF, "            except values.UnmetDependency:", "            except Exception:", 'K23c', '_fill_form swallows every exception of a mapping')
M('k23b-worksheet-files', ['C19'], Y23 + 'f1040_qualdiv_capgain_tax_wkst.py', "    def needs_filing(self, values):\n        return False", "    def needs_filing(self, values):\n        return True", 'K23b',
  'a worksheet without template claims to need filing')

# ------------------------------------------------------------------ C20
M('k19-writeback-after-try', ['C20'], CLI, "    finally:\n        # Ensure that even if an exception happens, any output the user already\n        # entered is saved as they requested\n        if args.writeback_input:\n            input_store.write(args.input_file)\n",
  "    finally:\n        pass\n    if args.writeback_input:\n        input_store.write(args.input_file)\n", 'K19', 'write-back happens only when no exception occurred')
M('k19-writeback-on-success-only', ['C20'], CLI, "        if args.writeback_input:\n            input_store.write(args.input_file)", "        if args.writeback_input and successful:\n            input_store.write(args.input_file)", 'K19',
  'write-back depends on success')
M('k19-swallowing-handler', ['C20'], CLI, "    except Exception as e:\n        raise e\n", "    except Exception as e:\n        print(e)\n        return\n", 'K19', 'the CLI swallows the exception')
M('k20-ctrl-c-not-handled', ['C20'], CLI, "        except KeyboardInterrupt:\n            return (None, False)", "        except EOFError:\n            return (None, False)", 'K20', 'Ctrl-C is not converted, end-of-input is swallowed')
M('k20-validate-after-delay', ['C20'], S, "            assert missing.valid(value)\n", "            assert missing.valid(value)\n            self._solving_fields.discard(missing.name())\n", 'K20', 'work is done between receiving and storing the answer')

# ------------------------------------------------------------------ forms: C10
M('r101-misspelt-input', ['C10'], Y23 + 'f1040.py', "            elif i['ordinary_dividends_incorrect']:", "            elif i['ordinary_dividend_incorrect']:", 'R10.1', 'misspelt input key on a rare branch')
M('r102-stale-line', ['C10'], Y23 + 'f1040.py', "                return v['8995.15']", "                return v['8995.15a']", 'R10.2', 'stale line name after a copy')
M('r102-colon-for-dot', ['C10'], Y22 + 'f1040_sa.py', "v['1040.11']", "v['1040:11']", 'R10.2', 'colon instead of dot in a qualified key', count=None)
M('r103-unknown-form', ['C10'], Y23 + 'f1040.py', "v['1040_s1.10'] if v['schedule_1_additional_income']", "v['1040_sched1.10'] if v['schedule_1_additional_income']", 'R10.3', 'reference to a form that does not exist')
M('r104-threshold-typo', ['C10'], Y23 + 'f1040.py', "if total > self.threshold('sched_b_required_interest'):", "if total > self.threshold('sched_b_required_interests'):", 'R10.4', 'misspelt threshold name')
M('r104-threshold-without-key', ['C10'], Y23 + 'f1040.py', "return self.threshold('standard_deduction', i['filing_status'])", "return self.threshold('standard_deduction')", 'R10.4', 'status-keyed threshold looked up without a key')
M('r105-wrong-year-enum', ['C10', 'C17'], Y23 + 'f1040_s2_need6251.py', "from habutax.enum import filing_status as status", "from habutax.enum import filing_status_2021 as status", 'R1', 'threshold tables keyed by another year\'s enumeration')
M('r105-missing-member', ['C10'], Y23 + 'f1040.py', "if i['filing_status'] == status.MarriedFilingJointly:\n                names.append", "if i['filing_status'] == status.MarriedJointly:\n                names.append", 'R10.5', 'enumeration member that does not exist')
M('r106-misspelt-method', ['C10'], Y23 + 'f1040.py', "FloatField('1e', lambda s, i, v: s.not_implemented() if i['dependent_care'] else None)", "FloatField('1e', lambda s, i, v: s.not_implmented() if i['dependent_care'] else None)", 'R10.6', 'misspelt method on the line object')
M('r106-helper-arity', ['C10'], Y23 + 'f1040.py', "                return standard_deduction(self, i)", "                return standard_deduction(self, i, v)", 'R10.6', 'helper closure called with one argument too many')
M('r107-undefined-name', ['C10'], Y23 + 'f1040.py', "            return figure_tax(v['15'], i['filing_status'])", "            return figure_taxes(v['15'], i['filing_status'])", 'R10.7', 'call of an undefined helper')
M('r108-wrong-year-import', ['C10', 'C07'], Y23 + 'f1040.py', "from habutax.forms.ty2023.f1040_figure_tax import figure_tax", "from habutax.forms.ty2022.f1040_figure_tax import figure_tax", None, '2023 Form 1040 uses the 2022 figure_tax')
M('r102-unbounded-dependents', ['C10'], Y23 + 'f1040_s8812.py', "s.not_implemented('More than four dependents are not supported') if i['1040.number_dependents'] > 4 else ", "", 'R10.2', 'sum over dependents without the guard on the count', count=2)
M('r109-form-before-added', ['C10'], Y23 + 'f1040_s8812.py', "IntegerField('6', lambda s, i, v: ", "IntegerField('6', lambda s, i, v: s.form('1040_sa').instance() if i['1040.number_dependents'] > 99 else ", 'R10', 'a line reaches into a form nothing guarantees to be loaded')
M('lambda-to-def', ['C10', 'C01', 'C03'], Y23 + 'f1040.py', "            FloatField('26', lambda s, i, v: i['estimated_tax_payments']),", "            FloatField('26', line_26),", None, 'a lambda turned into a def', 'silent',
  more=[(Y23 + 'f1040.py', "        def line_19(self, i, v):\n", "        def line_26(self, i, v):\n            return i['estimated_tax_payments']\n\n        def line_19(self, i, v):\n")])
M('rename-helper', ['C10'], Y23 + 'f1040.py', "possible_eic", "maybe_eic", None, 'consistent rename of a helper closure', 'silent', count=2)

# ------------------------------------------------------------------ C17
M('r172-stale-tax-year', ['C17'], Y23 + 'f1098.py', "    tax_year = 2023", "    tax_year = 2022", 'R17.2', 'copied form keeps last year\'s tax_year')
M('r172-duplicate-form-name', ['C17'], Y23 + 'f1099_g.py', '    form_name = "1099-g"', '    form_name = "1098"', 'R17.2', 'two forms share a name')
M('r172-dot-in-form-name', ['C17'], Y23 + 'f1099_g.py', '    form_name = "1099-g"', '    form_name = "1099.g"', 'R17', 'form name containing a dot')
M('r175-status-dropped', ['C17'], Y23 + 'f1040.py', "(status.Single, status.MarriedFilingSeparately): 13850.00,", "(status.Single,): 13850.00,", 'R17.5', 'a status is missing from a threshold table')
M('r175-status-twice', ['C17'], Y23 + 'f1040.py', "                status.HeadOfHousehold: 20800.00,", "                (status.HeadOfHousehold, status.Single): 20800.00,", 'R17.5', 'a status matches two entries of a threshold table')
M('r174-uppercase-line', ['C17'], Y23 + 'f1098.py', "StringInput('payer_borrower'", "StringInput('Payer_Borrower'", 'R17.4', 'upper-case input name', accept_error=True)
M('r174-duplicate-input', ['C17'], Y23 + 'f1040.py', "            StringInput('occupation', description=\"Your occupation\"),", "            StringInput('occupation', description=\"Your occupation\"),\n            StringInput('occupation', description=\"Your occupation again\"),", 'R17.4', 'an input declared twice')
M('r171-class-not-listed', ['C17'], Y23 + '__init__.py', "    Form8889,\n", "", 'R17.1', 'a form class dropped from available_forms')
M('r173-failing-assert', ['C17'], Y23 + 'f8606.py', "        assert instance in ['you', 'spouse']", "        assert instance in ['you', 'partner']", 'R17.3', 'a listed instance cannot be constructed')
M('r175-reordered-table', ['C17'], Y23 + 'f1040.py', "                (status.Single, status.MarriedFilingSeparately): 13850.00,\n                (status.MarriedFilingJointly, status.QualifyingSurvivingSpouse): 27700.00,",
  "                (status.MarriedFilingJointly, status.QualifyingSurvivingSpouse): 27700.00,\n                (status.Single, status.MarriedFilingSeparately): 13850.00,", None, 'threshold table entries reordered', 'silent')
M('r175-split-tuple-key', ['C17'], Y23 + 'f1040.py', "(status.Single, status.MarriedFilingSeparately): 13850.00,", "status.Single: 13850.00,\n                status.MarriedFilingSeparately: 13850.00,", None, 'a tuple key split into two entries', 'silent')

# ------------------------------------------------------------------ C18
M('r184-lines-swapped', ['C18'], Y23 + 'f1040.py', "f2_02[0]', '16'),", "f2_02[0]', '17'),", 'R18.4', 'two neighbouring boxes filled from each other\'s line',
  more=[(Y23 + 'f1040.py', "f2_03[0]', '17'),", "f2_03[0]', '16'),")])
M('r184-block-shifted', ['C18'], Y23 + 'f1040_s1.py', "f1_03[0]', '1'),", "f1_04[0]', '1'),", 'R18', 'mapping shifted by one box')
M('r183-export-value', ['C18'], Y23 + 'f1040.py', "c1_3[1]', 'filing_status', '2',", "c1_3[1]', 'filing_status', '3',", 'R18.3', 'wrong check-box export value')
M('r185-two-lines-one-box', ['C18'], Y23 + 'f1040.py', "f2_04[0]', '18'),", "f2_03[0]', '18'),", 'R18.5', 'two mappings target one box')
M('r183-max-length-dropped', ['C18'], Y23 + 'f1040.py', "'you_ssn', max_length=9),", "'you_ssn'),", 'R18.3', 'a template length limit is not declared')
M('r187-unknown-line', ['C18'], Y23 + 'f1040.py', "f2_24[0]', '35a'),", "f2_24[0]', '35z'),", 'R18.7', 'mapping from a line that does not exist')
M('r181-unknown-box', ['C18'], Y23 + 'f1040.py', "Page2[0].f2_24[0]', '35a'),", "Page2[0].f2_99[0]', '35a'),", 'R18.1', 'mapping to a box the template does not have')
M('r186-two-boxes-on', ['C18'], Y23 + 'f1040.py', "value_fn=lambda s, v, f: v == f.enum().HeadOfHousehold),", "value_fn=lambda s, v, f: v != f.enum().Single),", 'R18.6', 'two filing-status boxes checked together')
M('r182-kind', ['C18'], Y23 + 'f1040.py', "ButtonPDFField('topmostSubform[0].Page2[0].c2_6[0]', 'designee', '1'),", "TextPDFField('topmostSubform[0].Page2[0].c2_6[0]', 'designee'),", 'R18.2', 'text mapping onto a check box')
M('r189-sequence-number', ['C18'], Y23 + 'f1040_s3.py', "    sequence_no = 3", "    sequence_no = 4", 'R18.9', 'attachment sequence number differs from the printed one')
M('r188-filing-form-without-template', ['C18'], Y23 + 'f1040_s2_need6251.py', "    def needs_filing(self, values):\n        return False", "    def needs_filing(self, values):\n        return True", 'R18.8', 'a form without template can require filing')
M('r18-reordered-mappings', ['C18'], Y23 + 'f1040.py', "            TextPDFField('topmostSubform[0].Page2[0].f2_02[0]', '16'),\n            TextPDFField('topmostSubform[0].Page2[0].f2_03[0]', '17'),",
  "            TextPDFField('topmostSubform[0].Page2[0].f2_03[0]', '17'),\n            TextPDFField('topmostSubform[0].Page2[0].f2_02[0]', '16'),", None, 'two mappings listed in the other order', 'silent')

# ------------------------------------------------------------------ C07
FT = Y23 + 'f1040_figure_tax.py'
M('c07-bisect-left-row-edge', ['C07'], FT, '    for row in TAX_TABLE:\n        if taxable_amount >= row[0] and taxable_amount < row[1]:\n            return float(row[filing_status_column])\n\n    # If we got here, something went wrong\n    assert False, f"Failed to find a matching entry for {taxable_amount} in the tax table"\n', '    import bisect\n    ends = [row[1] for row in TAX_TABLE]\n    index = bisect.bisect_left(ends, taxable_amount)\n    assert taxable_amount >= 0 and index < len(TAX_TABLE), "Failed to find a matching entry in the tax table"\n    return float(TAX_TABLE[index][filing_status_column])\n', 'D2', 'table row found by bisect_left over the row ends: an income equal to a row end gets the row below (seed C07-C)')
M('c07-bisect-right-equivalent', ['C07'], FT, '    for row in TAX_TABLE:\n        if taxable_amount >= row[0] and taxable_amount < row[1]:\n            return float(row[filing_status_column])\n\n    # If we got here, something went wrong\n    assert False, f"Failed to find a matching entry for {taxable_amount} in the tax table"\n', '    import bisect\n    ends = [row[1] for row in TAX_TABLE]\n    index = bisect.bisect_right(ends, taxable_amount)\n    assert taxable_amount >= 0 and index < len(TAX_TABLE), "Failed to find a matching entry in the tax table"\n    return float(TAX_TABLE[index][filing_status_column])\n', None, 'table row found by bisect_right over the row ends: same function', 'silent')
M('c07-one-cell', ['C07'], FT, "    (75, 100, 9, 9, 9, 9),", "    (75, 100, 9, 9, 9, 8),", 'D2', 'one tax table cell altered')
M('c07-row-deleted', ['C07'], FT, "    (100, 125, 11, 11, 11, 11),\n", "", 'D1', 'one tax table row deleted')
M('c07-row-widened', ['C07'], FT, "    (100, 125, 11, 11, 11, 11),", "    (100, 135, 11, 11, 11, 11),", 'D', 'one tax table row widened')
M('c07-worksheet-rate', ['C07'], FT, "(462500, 693750, 0.35, 56211.00),", "(462500, 693750, 0.34, 56211.00),", 'D2', 'a worksheet multiplier altered')
M('c07-worksheet-subtrahend', ['C07'], FT, "(190750, 364200, 0.24, 13200.00),", "(190750, 364200, 0.24, 13300.00),", 'D', 'a worksheet subtraction amount altered')
M('c07-worksheet-edge', ['C07'], FT, "(190750, 364200, 0.24, 13200.00),", "(190750, 364300, 0.24, 13200.00),", 'D', 'a worksheet bracket edge altered')
M('c07-qss-as-single', ['C07'], FT, "    if filing_status is filing_status.Single:", "    if filing_status in [filing_status.Single, filing_status.QualifyingSurvivingSpouse]:", 'D', 'qualifying surviving spouse taxed as single')
M('c07-boundary-100000', ['C07'], FT, "    if taxable_amount < 100000:", "    if taxable_amount <= 100000:", 'D1', 'exactly 100000 sent to the table, which has no such row')
M('c07-column-shift', ['C07'], FT, "TAX_WORKSHEET_VALUES[filing_status_index-2]", "TAX_WORKSHEET_VALUES[filing_status_index-1]", 'D', 'worksheet column off by one', accept_error=True)
M('c07-wrong-argument', ['C07'], Y23 + 'f1040.py', "return figure_tax(v['15'], i['filing_status'])", "return figure_tax(v['15'], i['state'])", 'D4', 'figure_tax called with another input than the filing status')
M('c07-negated-test', ['C07'], FT, "    if taxable_amount < 100000:", "    if not taxable_amount >= 100000:", None, 'same test, spelled differently', 'silent')

# ------------------------------------------------------------------ C09
M('c09-gate-arm-deleted', ['C09'], Y23 + 'f1040.py', "FloatField('1e', lambda s, i, v: s.not_implemented() if i['dependent_care'] else None),", "FloatField('1e', lambda s, i, v: None),", 'R9', 'a gate line no longer looks at its declaration', accept_error=False)
M('c09-gate-inverted', ['C09'], Y23 + 'f1040.py', "FloatField('1f', lambda s, i, v: s.not_implemented() if i['adoption_benefits'] else None),", "FloatField('1f', lambda s, i, v: s.not_implemented() if not i['adoption_benefits'] else None),", 'R9.1', 'gate condition inverted')
M('c09-gate-returns-zero', ['C09'], Y23 + 'f1040.py', "FloatField('6a', lambda s, i, v: s.not_implemented() if i['social_security_benefits'] else None),", "FloatField('6a', lambda s, i, v: 0.0 if i['social_security_benefits'] else None),", None, 'one of three required readers proceeds, the other two still refuse: the solve still fails', 'silent')
M('c09-disjunct-dropped', ['C09'], Y23 + 'f1040.py', "if i['uncommon_tax'] or i['need_8615'] or i['schedule_d_required']:", "if i['uncommon_tax'] or i['schedule_d_required']:", 'R9.1', 'a disjunct dropped from a combined gate')
M('c09-silent-reader-elsewhere', ['C09'], Y23 + 'f1040_s1.py', "FloatField('3', lambda s, i, v: s.not_implemented() if i['business_income'] else None),", "FloatField('3', lambda s, i, v: s.not_implemented() if i['business_income'] else None),\n            BooleanField('has_business', lambda s, i, v: i['business_income']),", 'R9.2',
  'a new optional line reads a gate declaration and proceeds', accept_error=False)
M('c09-limit-dropped', ['C09'], Y23 + 'f1040.py', "                if v['11'] > income_limit:\n                    self.not_implemented()\n", "", 'R9.3', 'the QBI income limit no longer refuses')
M('c09-limit-inverted', ['C09'], Y23 + 'f1040_sb.py', "if i['1040.number_1099-int'] > NUM_FIELDS or i['1040.number_1099-div'] > NUM_FIELDS:", "if i['1040.number_1099-int'] < NUM_FIELDS or i['1040.number_1099-div'] > NUM_FIELDS:", 'R9.3', 'the payer-count limit is inverted')
M('c09-not-implemented-returns', ['C09'], FI, "        raise FieldNotImplemented(self.name(), detailed=detailed)", "        return None", 'R9', 'not_implemented() returns instead of raising')
M('c09-guards-merged-into-helper', ['C09'], Y23 + 'f1040.py', "FloatField('1e', lambda s, i, v: s.not_implemented() if i['dependent_care'] else None),", "FloatField('1e', lambda s, i, v: refuse_if(s, i['dependent_care'])),", None, 'gate guard moved into a helper closure', 'silent',
  more=[(Y23 + 'f1040.py', "        def line_19(self, i, v):\n", "        def refuse_if(self, cond):\n            if cond:\n                self.not_implemented()\n            return None\n\n        def line_19(self, i, v):\n")])

# ------------------------------------------------------------------ C08
M('c08-std-deduction-stale', ['C08'], Y23 + 'f1040.py', "(status.Single, status.MarriedFilingSeparately): 13850.00,", "(status.Single, status.MarriedFilingSeparately): 12950.00,", 'R8', 'last year\'s standard deduction left in place')
M('c08-statuses-swapped', ['C08'], Y23 + 'f1040_s2_need6251.py', "                status.MarriedFilingSeparately:                                   63250.0,\n            },\n            'line_8'", "                status.MarriedFilingSeparately:                                   81300.0,\n            },\n            'line_8'", 'R8.1', 'MFS gets the single AMT exemption')
M('c08-status-moved-between-keys', ['C08'], Y23 + 'f1040.py', "status.MarriedFilingJointly: 364200.00,\n                (status.Single, status.MarriedFilingSeparately, status.QualifyingSurvivingSpouse, status.HeadOfHousehold): 182100.00,",
  "(status.MarriedFilingJointly, status.QualifyingSurvivingSpouse): 364200.00,\n                (status.Single, status.MarriedFilingSeparately, status.HeadOfHousehold): 182100.00,", 'R8.1', 'qualifying surviving spouse moved to the joint QBI threshold')
M('c08-inline-constant-2021', ['C08'], Y21 + 'f1040_s2_need6251.py', "                return 57300.0", "                return 57300.0 + 100", 'R8.1', 'an inline 2021 constant altered')
M('c08-rate', ['C08'], Y23 + 'fnc_d_400.py', "0.0475", "0.0499", 'R8.1', 'last year\'s NC tax rate', count=None)
M('c08-wrong-key-input', ['C08', 'C02'], Y23 + 'f1040_qualdiv_capgain_tax_wkst.py', "FloatField('6', lambda s, i, v: s.threshold('line_6', i['1040.filing_status'])),", "FloatField('6', lambda s, i, v: s.threshold('line_6', v['1040.filing_status'])),", None,
  'lookup keyed by the filing-status line instead of the input: same member, same amounts', 'silent')
M('c08-use-site-changed', ['C08'], Y23 + 'f1040.py', "                if v['11'] > income_limit:", "                if v['9'] > income_limit:", 'R8.2', 'the QBI threshold is compared with total income instead of AGI')
M('c08-hsa-limit', ['C08'], Y23 + 'f8889.py', "'hsa_family_contribution_limit':     7750,", "'hsa_family_contribution_limit':     7300,", 'R8', 'last year\'s HSA family limit')
M('c08-chain-moved-to-thresholds', ['C08'], Y22 + 'f1040_s2_need6251.py', "(103050.0 if i['1040.filing_status'] == filing_status.MarriedFilingSeparately else 206100.0)", "bp(i['1040.filing_status'])", None, 'inline status chain moved into a helper', 'silent',
  more=[(Y22 + 'f1040_s2_need6251.py', "        def need_6251(self, i, v):\n", "        def bp(fs):\n            return 103050.0 if fs == filing_status.MarriedFilingSeparately else 206100.0\n\n        def need_6251(self, i, v):\n")])

# ------------------------------------------------------------------ C02
M('c02-operands-swapped', ['C02'], Y23 + 'f1040.py', "FloatField('11', lambda s, i, v: v['9'] - v['10']),", "FloatField('11', lambda s, i, v: v['10'] - v['9']),", 'R2', 'subtraction operands swapped')
M('c02-summand-dropped', ['C02'], Y23 + 'f1040.py', "v['1z'] + v['2b'] + v['3b'] + v['4b'] + v['5b'] + v['6b'] + v['7'] + v['8']", "v['1z'] + v['2b'] + v['3b'] + v['4b'] + v['5b'] + v['7'] + v['8']", 'R2.9', 'the gated (always zero) line 6b is dropped from total income: the value is unchanged, but line 9 no longer reads what its 2022 sibling reads (and line 6b, a gate, is no longer demanded)')
M('c02-real-summand-dropped', ['C02'], Y23 + 'f1040.py', "v['1z'] + v['2b'] + v['3b'] + v['4b'] + v['5b'] + v['6b'] + v['7'] + v['8']", "v['1z'] + v['2b'] + v['3b'] + v['4b'] + v['6b'] + v['7'] + v['8']", 'R2', 'a summand (taxable pensions) dropped from total income')
M('c02-min-to-max', ['C02'], Y23 + 'f1040_qualdiv_capgain_tax_wkst.py', "FloatField('10', lambda s, i, v: min(v['1'], v['4'])),", "FloatField('10', lambda s, i, v: max(v['1'], v['4'])),", 'R2', 'smaller-of turned into larger-of')
M('c02-min-dropped', ['C02'], Y22 + 'f1040_qualdiv_capgain_tax_wkst.py', "FloatField('10', lambda s, i, v: min(v['1'], v['4'])),", "FloatField('10', lambda s, i, v: v['4']),", 'R2', 'smaller-of dropped (seed C02-B)')
M('c02-rate', ['C02'], Y23 + 'f1040_qualdiv_capgain_tax_wkst.py', "FloatField('18', lambda s, i, v: v['17'] * 0.15),", "FloatField('18', lambda s, i, v: v['17'] * 0.20),", 'R2', 'wrong rate')
M('c02-carry-neighbour', ['C02'], Y23 + 'f1040.py', "FloatField('8', lambda s, i, v: v['1040_s1.10'] if v['schedule_1_additional_income'] else None),", "FloatField('8', lambda s, i, v: v['1040_s1.9'] if v['schedule_1_additional_income'] else None),", 'R2', 'carried from the neighbouring line')
M('c02-floor-dropped', ['C02'], Y23 + 'f1040.py', "FloatField('22', lambda s, i, v: max(0.0, v['18'] - v['21'])),", "FloatField('22', lambda s, i, v: v['18'] - v['21']),", 'R2', 'floor at zero dropped')
M('c02-floor-misplaced', ['C02'], Y22 + 'f1040.py', "FloatField('22', lambda s, i, v: max(0.0, v['18'] - v['21'])),", "FloatField('22', lambda s, i, v: max(0.0, v['18']) - v['21']),", 'R2', 'misplaced parenthesis (seed C15-A)')
M('c02-nc-wrong-line', ['C02'], Y23 + 'fnc_d_400.py', "v['25'] - v['19'] if v['25'] >= v['19'] else s.not_implemented()", "v['25'] - v['17'] if v['25'] >= v['19'] else s.not_implemented()", 'R2', 'NC overpayment uses line 17 for line 19 (seed C15-B)')
M('c02-guard-flipped', ['C02'], Y23 + 'f1040.py', "FloatField('34', lambda s, i, v: (v['33'] - v['24']) if v['33'] > v['24'] else None),", "FloatField('34', lambda s, i, v: (v['33'] - v['24']) if v['33'] < v['24'] else None),", 'R2', 'overpayment computed when payments are LESS than tax')
M('c02-reordered-summands', ['C02'], Y23 + 'f1040.py', "FloatField('14', lambda s, i, v: v['12'] + v['13']),", "FloatField('14', lambda s, i, v: float(v['13'] + v['12'])),", None, 'summands reordered and wrapped in float()', 'silent')
M('c02-guarded-floor', ['C02'], Y23 + 'f1040.py', "FloatField('22', lambda s, i, v: max(0.0, v['18'] - v['21'])),", "FloatField('22', lambda s, i, v: v['18'] - v['21'] if v['18'] > v['21'] else 0.0),", None, 'floor written as a guarded subtraction', 'silent')

# ------------------------------------------------------------------ rules added after round 4 of the seeded changes
M('k13c-unknown-line-tolerated', ['C06'], S, "                assert ud.dependency in self._field_map\n                self._add_unattempted(self._field_map[ud.dependency])\n", "                if ud.dependency in self._field_map:\n                    self._add_unattempted(self._field_map[ud.dependency])\n", 'K13c', 'an unknown line name no longer stops the solve: the form is re-added and its lines re-queued for ever (seed C06-H)')
M('k12c-copies-added-from-the-file', ['C04'], S, "        self._solving_fields |= set([f.name() for f in new_form.required_fields()])\n", "        self._solving_fields |= set([f.name() for f in new_form.required_fields()])\n        if form_instance is not None and form_instance.isdigit():\n            for section in self._i:\n                if section.startswith(form_name + ':') and section not in self.forms:\n                    self._add_form(section)\n", 'K12c', 'adding a numbered copy adds every other copy found in the input file, referred to or not (seed C04-G)')
M('k12c-answers-used-at-once', ['C03', 'C06'], S, "            self._input_dependencies.meet(missing.name())\n", "            self._input_dependencies.meet(missing.name())\n            for field in list(self._input_dependencies.met_dependents()):\n                self._attempt_field(field)\n", 'K12c', 'waiting lines are evaluated right after each answer, in the middle of a round of questions (seed C03-G)')
M('k18b-write-skipped-while-unwinding', ['C20'], 'habutax/inputs.py', "        with open(filename, 'w') as outfile:\n            self.config.write(outfile)\n", "        import sys, os\n        with open(filename + '.tmp', 'w') as outfile:\n            self.config.write(outfile)\n        if sys.exc_info()[0] is None:\n            os.replace(filename + '.tmp', filename)\n", 'K18b', 'write-back keeps the new file only when no exception is in flight (seed C20-G)')
M('k18b-atomic-write', ['C20'], 'habutax/inputs.py', "        with open(filename, 'w') as outfile:\n            self.config.write(outfile)\n", "        import os\n        with open(filename + '.tmp', 'w') as outfile:\n            self.config.write(outfile)\n        os.replace(filename + '.tmp', filename)\n", None, 'write to a temporary file and move it over the target unconditionally', 'silent')
M('k11h-ssn-isdigit', ['C11'], 'habutax/inputs.py', "        for n in ssn:\n            if n not in \"0123456789\":\n                return False\n        return True\n", "        return ssn.isdigit()\n", 'K11h', 'SSN digits tested with str.isdigit(): Unicode digits pass (seed C11-H)')
M('k23g-stale-box-text', ['C18', 'C19'], 'habutax/pdf_filler.py', "                assert field_name not in required_fields\n                string_value = \"\"\n", "                assert field_name not in required_fields\n", 'K23g', 'an uncomputed optional line leaves the text of the previous box in place (seed C18-G)', accept_error=True)
M('k22f-solution-through-a-filter', ['C14'], CLI, "            solution.write(outfile)\n", "            class _Tidy(object):\n                def __init__(self, f):\n                    self.f = f\n                def write(self, t):\n                    self.f.write('\\n'.join(l.rstrip() for l in t.splitlines()) + '\\n')\n            solution.write(_Tidy(outfile))\n", 'K22f', 'the solution is re-split by a tidying wrapper before it reaches the file (seed C14-H)')
M('r151-owed-blank-under-a-dollar', ['C15', 'C16'], Y22 + 'f1040.py', "FloatField('37', lambda s, i, v: None if v['33'] > v['24'] else v['24'] - v['33']),", "FloatField('37', lambda s, i, v: None if v['33'] > v['24'] or v['24'] - v['33'] < 1.0 else v['24'] - v['33']),", 'R15.1', 'a balance due under one dollar is left blank: overpayment minus amount owed no longer equals payments minus tax (seeds C15-H, C16-H)')
M('r161-count-of-another-form', ['C16'], Y23 + 'f1040_sa.py', "for n in range(i['1040.number_1099-div']))", "for n in range(i['1040.number_1099-int']))", 'R16.1', 'copies of Form 1099-DIV enumerated up to the number of Forms 1099-INT (seed C16-G)')
M('r102-enum-loop-instance', ['C10'], Y21 + 'f1040.py', "                    line_4b += v['8606:you.taxable_amount']\n", "                    for owner in enum.taxpayer_or_spouse:\n                        line_4b += v[f'8606:{owner}.taxable_amount'] * 0.5\n", 'R10', 'form instance built from an enumeration member name that is not an instance of Form 8606 (seed C10-G)', accept_error=True)

# ------------------------------------------------------------------ rules added after round 3 of the seeded changes
M('k10-unimplemented-stops-prompting', ['C05', 'C06', 'C13'], S, "            self._unimplemented_fields.append(fni.field_name)", "            self._unimplemented_fields.append(fni.field_name)\n            self._refused_input = True", 'K10', 'an unimplemented line stops all further questions: typed values are reported missing, file values are used (seed C05-E)')
M('k21e-enum-definition-wrapped', ['C12'], FI, "        super().__init__(name, value_fn, enum)\n", "        def by_name(s, i, v):\n            answer = value_fn(s, i, v)\n            return enum[answer] if isinstance(answer, str) and answer in enum.__members__ else answer\n        super().__init__(name, by_name, enum)\n", 'K21e', 'EnumField wraps the definition and converts option names to members before the type check (seed C12-F)')
M('k11g-optionxform', ['C11', 'C05', 'C13'], 'habutax/inputs.py', "            with open(input_config) as config_file:\n", "            self.config.optionxform = str\n            with open(input_config) as config_file:\n", 'K11g', 'case-preserving keys on the file-backed parser: Box_1 = ... is no longer found (seed C11-F)')
M('k22e-integer-via-float', ['C14'], FI, "class IntegerField(BasicTypedField):\n    def __init__(self, name, value_fn):\n        self._empty_value = 0\n        super().__init__(name, value_fn, int)\n", "class IntegerField(BasicTypedField):\n    def __init__(self, name, value_fn):\n        self._empty_value = 0\n        super().__init__(name, value_fn, int)\n\n    def from_string(self, string):\n        return int(float(string))\n", 'K22e', 'whole-number lines read back through a float (seed C14-F)')
M('k1b-blocked-lines-only-with-missing-inputs', ['C01'], CLI, "        if len(unmet_field_dependencies) > 0:\n            print(\"\\nThe following fields were needed but unable to be produced (likely due to unsupplied inputs or unimplemented behavior above):\")\n            for dependency, dependents in unmet_field_dependencies.items():\n                print(f'{dependency} (needed by: {\", \".join(dependents)})')\n", "            if len(unmet_field_dependencies) > 0:\n                print(\"\\nThe following fields were needed but unable to be produced (likely due to unsupplied inputs or unimplemented behavior above):\")\n                for dependency, dependents in unmet_field_dependencies.items():\n                    print(f'{dependency} (needed by: {\", \".join(dependents)})')\n", 'K1b', 'the blocked lines are reported only when an input is missing as well (seed C01-F)')
M('l2b-shared-generator', ['C03', 'C05'], Y22 + 'f1040_sb.py', "            FloatField('2', lambda s, i, v: sum([v[f'1_amount_{line}'] for line in range(NUM_FIELDS)])),", "            FloatField('2', lambda s, i, v: sum([v[amount] for amount in int_amounts])),", 'L2b', 'line 2 consumes a generator created once in the constructor (seed C03-F)', more=[(Y22 + 'f1040_sb.py', "        optional_fields = [\n", "        int_amounts = (f'1_amount_{line}' for line in range(NUM_FIELDS))\n        optional_fields = [\n")])
M('l2b-shared-list', ['C03', 'C05'], Y22 + 'f1040_sb.py', "            FloatField('2', lambda s, i, v: sum([v[f'1_amount_{line}'] for line in range(NUM_FIELDS)])),", "            FloatField('2', lambda s, i, v: sum([v[amount] for amount in int_amounts])),", None, 'the names are kept in a list created once (re-iterable)', 'silent', more=[(Y22 + 'f1040_sb.py', "        optional_fields = [\n", "        int_amounts = [f'1_amount_{line}' for line in range(NUM_FIELDS)]\n        optional_fields = [\n")])
M('k23f-line-names-remembered', ['C18', 'C19'], 'habutax/pdf_filler.py', "        fdf_map = {}\n        for pdf_field in form.pdf_fields():\n            field_name = pdf_field.field_name\n            if \".\" not in field_name:\n                field_name = f'{form.name()}.{field_name}'\n", "        if not hasattr(self, '_names'):\n            self._names = {}\n        if form.form_name not in self._names:\n            self._names[form.form_name] = [f.field_name if '.' in f.field_name else f'{form.name()}.{f.field_name}' for f in form.pdf_fields()]\n        fdf_map = {}\n        for pdf_field, field_name in zip(form.pdf_fields(), self._names[form.form_name]):\n", 'K23f', 'line names remembered per form class: the second copy of a form is filled from the first copy\'s lines (seed C18-F)')
M('k17b-eager-validation', ['C13', 'C11'], 'habutax/inputs.py', "    def update_input_spec(self, input_specs):\n", "    def update_input_spec(self, input_specs):\n        for key, i in input_specs.items():\n            if self.provides(i) and not i.valid(self.config.get(i.section(), i.base_name())):\n                raise InvalidInput(key, self.config.get(i.section(), i.base_name()))\n", 'K17b', 'every present value is validated when a form is registered: an unread malformed input fails the run (seed C13-E)')
M('r199-nc-schedule-filed-as-federal', ['C19'], Y22 + 'fnc_d_400_sa.py', "    jurisdiction = Jurisdiction.NC\n", "    jurisdiction = Jurisdiction.US\n", 'R19.9', 'NC Schedule A declares the federal jurisdiction and is filed inside the federal block (seed C19-E)')
M('r93-limit-gate-nested', ['C09'], Y23 + 'f1040_sb.py', "            if i['1040.number_1099-int'] > NUM_FIELDS or i['1040.number_1099-div'] > NUM_FIELDS:\n                self.not_implemented()\n", "                if i['1040.number_1099-int'] > NUM_FIELDS or i['1040.number_1099-div'] > NUM_FIELDS:\n                    self.not_implemented()\n", 'R9.3', 'the too-many-payers gate only applies when the listed payers exceed 1,500 (seed C09-E)')
M('r93-limit-gate-other-line', ['C09'], Y22 + 'f8889.py', "or v['2'] > v['13'] else v['13']),", "or v['2'] > v['8'] else v['13']),", 'R9.3', 'excess HSA contributions measured against line 8 instead of line 13 (seed C09-F)')

# ------------------------------------------------------------------ C19: truncation in a value function, text-ordered sequence numbers
M('r197-value-fn-truncates', ['C19'], Y23 + 'fnc_d_400.py', "TextPDFField('y_d400wf_lname2_PG2', 'your_last_name', max_length=10),", "TextPDFField('y_d400wf_lname2_PG2', 'your_last_name', max_length=10, value_fn=lambda s, v, f: v[:10]),", 'R19.7', 'a text box cuts the name to its length limit instead of refusing (seed C19-C)')
M('k23b-sequence-as-text', ['C19'], 'habutax/pdf_filler.py', "key=lambda f: (f.jurisdiction, f.sequence_no)", "key=lambda f: (f.jurisdiction, str(f.sequence_no))", 'K23b', 'forms ordered by the sequence number as text: 71 sorts before 8 (seed C19-D)')
M('k23b-attrgetter-key', ['C19'], 'habutax/pdf_filler.py', "key=lambda f: (f.jurisdiction, f.sequence_no)", "key=__import__('operator').attrgetter('jurisdiction', 'sequence_no')", None, 'same key through attrgetter', 'silent')

# ------------------------------------------------------------------ K22a (the recorded year's forms interpret the solution)
M('k22a-year-option-overrides', ['C14'], CLI, "    tax_year = solution.getint('habutax', 'tax_year')\n", "    tax_year = getattr(args, 'year', None)\n    if tax_year is None:\n        tax_year = solution.getint('habutax', 'tax_year')\n", 'K22a', 'a command-line year (which has a default) takes precedence over the year recorded in the solution (seed C14-D)')

# ------------------------------------------------------------------ K29 (the prompt quotes the waiting lines)
M('k29-instance-from-the-input', ['C13'], CLI, "        instance = f'Instance \\'{f.form().instance()}\\' of ' if f.form().instance() else ''\n", "", 'K29', 'the form-copy label of each quoted line is no longer computed per waiting line', more=[(CLI, "    duplicates = {}\n", "    duplicates = {}\n    instance = f'Instance \\'{missing.section()}\\' of '\n")])
M('k29-loop-variable-renamed', ['C13'], CLI, "    for f in needed_by:\n        form_desc = f.form().full_description()\n        field_basename = f.base_name()\n        instance = f'Instance \\'{f.form().instance()}\\' of ' if f.form().instance() else ''\n", "    for waiter in needed_by:\n        wform = waiter.form()\n        form_desc = wform.full_description()\n        field_basename = waiter.base_name()\n        instance = f'Instance \\'{wform.instance()}\\' of ' if wform.instance() else ''\n", None, 'loop variable renamed and the form hoisted into a local', 'silent')

# ------------------------------------------------------------------ K28 (threshold lookups keep no state) and constructor unpacking
M('k28-shared-threshold-memo', ['C17', 'C08'], 'habutax/form.py', "    def threshold(self, name, requested_key=None):\n", "    _memo = {}\n\n    def threshold(self, name, requested_key=None):\n        if (name, requested_key) in self._memo:\n            return self._memo[(name, requested_key)]\n        self._memo[(name, requested_key)] = self._threshold(name, requested_key)\n        return self._memo[(name, requested_key)]\n\n    def _threshold(self, name, requested_key=None):\n", 'K28', 'threshold lookups memoised in a dict shared by all forms, keyed without the form (seed C17-D)', accept_error=True)
M('r173-unpack-wrong-length', ['C17'], Y23 + 'f8889.py', "        you = \"you\" if instance == \"you\" else \"your spouse\"\n", "        you, _your = {'you': ('you', 'your'), 'spouse': ('your spouse',)}[instance]\n", 'R17.3', 'constructor unpacks a tuple of the wrong length for one allowed instance (seed C17-C)')

# ------------------------------------------------------------------ K11f (value() kinds)
M('k11f-enum-getattr', ['C11', 'C12'], 'habutax/inputs.py', "        return self.enum[string]\n", "        return getattr(self.enum, string)\n", None, 'enumeration member looked up with getattr: __doc__, mro ... are accepted (seed C11-D, value side)')
M('k11f-enum-valid-hasattr', ['C11'], 'habutax/inputs.py', "        try:\n            self.enum[string]\n        except KeyError as ke:\n            return False\n        return True\n", "        return hasattr(self.enum, string)\n", 'K11', 'membership tested with hasattr (seed C11-D, validator side)')
M('k11f-integer-returns-text', ['C11', 'C12'], 'habutax/inputs.py', "        if len(string) == 0:\n            return 0\n        return int(string)\n", "        if len(string) == 0:\n            return 0\n        int(string)\n        return string\n", None, 'integer input validates but returns the text')
M('k11f-enum-members-table', ['C11', 'C12'], 'habutax/inputs.py', "        return self.enum[string]\n", "        return self.enum.__members__[string]\n", None, 'member looked up in the members table', 'silent')

# ------------------------------------------------------------------ R8.5 (amounts printed per filing status on the template)
M('r85-2021-8812-33-hoh', ['C08', 'C02'], Y21 + 'f1040_s8812.py', "            elif i['1040.filing_status'] is filing_status.HeadOfHousehold:\n                return 50000.0\n", "            elif i['1040.filing_status'] is filing_status.HeadOfHousehold:\n                return 40000.0\n", None, '2021 Schedule 8812 line 33 for head of household differs from the amount printed in the box')
M('r85-2023-8812-9-qss', ['C08', 'C02'], Y23 + 'f1040_s8812.py', "                filing_status.MarriedFilingJointly: 400000.0,\n                (filing_status.Single, filing_status.MarriedFilingSeparately,\n                 filing_status.QualifyingSurvivingSpouse,\n", "                (filing_status.MarriedFilingJointly, filing_status.QualifyingSurvivingSpouse): 400000.0,\n                (filing_status.Single, filing_status.MarriedFilingSeparately,\n", None, 'qualifying surviving spouse moved to the joint phase-out threshold; the box prints 200,000 for all other statuses')

# ------------------------------------------------------------------ K27 (the failure report names every item)
M('k27-report-first-six', ['C01', 'C05'], CLI, "                print(f'{dependency} (needed by: {\", \".join(dependents)})')\n        if len(unmet_field_dependencies) > 0:", "                print(f'{dependency} (needed by: {\", \".join(dependents[:6])})')\n        if len(unmet_field_dependencies) > 0:", 'K27', 'only the first six waiting lines are named: which six depends on the attempt order (seed C05-D)')
M('k27-report-first-unimplemented', ['C01', 'C05'], CLI, "            for unimplemented in unimplemented_fields:\n", "            for unimplemented in unimplemented_fields[:1]:\n", 'K27', 'only the first unimplemented line is named')
M('k27-report-sorted-unique', ['C01', 'C05'], CLI, "                print(f'{dependency} (needed by: {\", \".join(dependents)})')\n        if len(unmet_field_dependencies) > 0:", "                print(f'{dependency} (needed by: {\", \".join(sorted(set(dependents)))})')\n        if len(unmet_field_dependencies) > 0:", None, 'dependents printed sorted and without repeats', 'silent')

# ------------------------------------------------------------------ K26 (the CLI requests exactly the named forms)
M('k26-form-option-default', ['C04'], CLI, "solve_parser.add_argument('--form', dest='forms', action='append', help=", "solve_parser.add_argument('--form', dest='forms', action='append', default=['1040'], help=", 'K26', 'argparse appends the named forms to a preset list: Form 1040 is solved although not requested (seed C04-D)')
M('k26-request-extended', ['C04'], CLI, "        successful = s.solve(args.forms)\n", "        successful = s.solve(args.forms + ['1040'])\n", 'K26', 'the CLI adds a form to the request')
M('k26-request-edited', ['C04'], CLI, "        successful = s.solve(args.forms)\n", "        args.forms.append('1040_sb')\n        successful = s.solve(args.forms)\n", 'K26', 'the CLI edits the request before solving')
M('k26-request-copied', ['C04'], CLI, "        successful = s.solve(args.forms)\n", "        successful = s.solve(list(args.forms))\n", None, 'the request is copied', 'silent')

# ------------------------------------------------------------------ K24e (waiter lists changed only by the tracker)
M('k24e-prompt-context-truncated', ['C01', 'C06'], S, "        value, supplied = self._prompt(missing, needed_by)\n", "        del needed_by[8:]\n        value, supplied = self._prompt(missing, needed_by)\n", 'K24e', 'the list handed to the prompt is the tracker\'s own list and is truncated in place (seed C01-C)')
M('k24e-prompt-sorts-in-place', ['C01', 'C06'], CLI, "    prompt = f'\\n----[ {missing.name()} ]----'\n", "    needed_by.sort(key=lambda f: f.name())\n    needed_by.pop()\n    prompt = f'\\n----[ {missing.name()} ]----'\n", 'K24e', 'the CLI prompt callback pops from the waiter list it was handed')
M('k24e-outside-access', ['C01', 'C06'], S, "            self._refused_input = True\n", "            self._refused_input = True\n            self._input_dependencies._unmet.clear()\n", 'K24e', 'the solver clears the tracker table directly', accept_error=True)
M('k24e-copy-then-truncate', ['C01', 'C06'], S, "        value, supplied = self._prompt(missing, needed_by)\n", "        needed_by = list(needed_by)\n        del needed_by[8:]\n        value, supplied = self._prompt(missing, needed_by)\n", None, 'a copy of the list is truncated for display', 'silent')

# ------------------------------------------------------------------ C10 R10.10 (declared type)
M('c10-int-product-for-float-line', ['C10'], Y21 + 'f1040_s8812.py', "FloatField('37', lambda s, i, v: v['32'] * 2000.0),", "FloatField('37', lambda s, i, v: v['32'] * 2000),", 'R10.10', 'int * int for a float line (F22 reverted)')
M('c10-empty-sum-int', ['C10'], Y23 + 'f1040_sa.py', "            return float(mortgage_interest_points)\n", "            return mortgage_interest_points\n", 'R10.10', 'sum over zero Forms 1098 is the int 0 (F27 reverted)')
M('c10-int-input-for-text-line', ['C10'], Y23 + 'fnc_d_400.py', "str(i['year_spouse_died']) if v['5'] else None", "i['year_spouse_died'] if v['5'] else None", 'R10.10', 'integer input returned by a text line (F28 reverted)')
M('c10-int-floor-for-float-line', ['C10'], Y23 + 'f1040.py', "FloatField('22', lambda s, i, v: max(0.0, v['18'] - v['21'])),", "FloatField('22', lambda s, i, v: max(0, v['18'] - v['21'])),", 'R10.10', 'max(0, x) returns the int 0 when the floor applies')
M('c10-bool-for-integer-line', ['C10'], Y23 + 'f1040_s8812.py', "IntegerField('4', lambda s, i, v: i['number_under_17']", "IntegerField('4', lambda s, i, v: i['number_under_17'] > 0", 'R10.10', 'comparison result returned by an integer line', accept_error=True)
M('c10-empty-sum-guarded', ['C10'], Y23 + 'f8995.py', "FloatField('6', lambda s, i, v: float(sum([v[f'1099-div:{n}.box_5'] for n in range(i['1040.number_1099-div'])]))),", "FloatField('6', lambda s, i, v: sum([v[f'1099-div:{n}.box_5'] for n in range(i['1040.number_1099-div'])]) if i['1040.number_1099-div'] > 0 else None),", None, 'empty sum excluded by a guard on the count instead of float()', 'silent')
M('c10-empty-sum-plus-float', ['C10'], Y23 + 'f8995.py', "FloatField('6', lambda s, i, v: float(sum([v[f'1099-div:{n}.box_5'] for n in range(i['1040.number_1099-div'])]))),", "FloatField('6', lambda s, i, v: 0.0 + sum([v[f'1099-div:{n}.box_5'] for n in range(i['1040.number_1099-div'])])),", None, 'empty sum promoted by adding 0.0', 'silent')

M('c02-next-multiple-off-by-one', ['C02'], Y23 + 'f1040_s8812.py', "            return ceil(res / 1000.0) * 1000.0\n", "            return (res // 1000.0 + 1) * 1000.0\n", 'R2', 'an exact multiple of $1,000 is rounded up one step too far (seed C02-D)')
M('c02-next-multiple-rewritten', ['C02'], Y23 + 'f1040_s8812.py', "            return ceil(res / 1000.0) * 1000.0\n", "            return -((-res) // 1000.0) * 1000.0\n", None, 'ceiling written with floor division of the negated amount', 'silent')
M('c02-ratio-not-capped', ['C02'], Y21 + 'f1040_s8812.py', "FloatField('36', lambda s, i, v: min(1.0, v['34'] / v['35']), places=3),", "FloatField('36', lambda s, i, v: v['34'] / v['35'], places=3),", 'R2', 'ratio line no longer capped at 1.000')
M('c02-ratio-as-multiple', ['C02'], Y21 + 'f1040_s8812.py', "FloatField('36', lambda s, i, v: min(1.0, v['34'] / v['35']), places=3),", "FloatField('36', lambda s, i, v: ceil((v['34'] / v['35']) / 1000.0) * 1000.0),", 'R2', 'ratio line computed as a multiple of 1000 (F23 reverted)')
M('c02-8812-14-larger', ['C02'], Y23 + 'f1040_s8812.py', "FloatField('14', lambda s, i, v: min(v['12'], v['13']) if v['8_gt_11'] else 0.0),", "FloatField('14', lambda s, i, v: max(v['12'], v['13']) if v['8_gt_11'] else 0.0),", 'R2', 'Schedule 8812 line 14 takes the larger of lines 12 and 13')

M('c02-carry-wrong-source-line', ['C02'], Y23 + 'f1040.py', "FloatField('8', lambda s, i, v: v['1040_s1.10'] if v['schedule_1_additional_income'] else None),", "FloatField('8', lambda s, i, v: v['1040_s1.9'] if v['schedule_1_additional_income'] else None),", 'R2', 'Form 1040 line 8 takes Schedule 1 line 9 although line 10 says "enter here and on Form 1040, line 8"')
M('c02-carry-wrong-8812-line', ['C02'], Y23 + 'f1040.py', "                return v['1040_s8812.27']\n", "                return v['1040_s8812.17']\n", 'R2.7', 'Form 1040 line 28 takes Schedule 8812 line 17 instead of line 27 (the additional child tax credit)')
M('c02-carry-halved', ['C02'], Y23 + 'f1040.py', "FloatField('20', lambda s, i, v: v['1040_s3.8'] if v['need_schedule_3_part_i'] else None),", "FloatField('20', lambda s, i, v: v['1040_s3.8'] * 0.5 if v['need_schedule_3_part_i'] else None),", 'R2', 'the amount carried from Schedule 3 line 8 is halved on Form 1040 line 20')
M('c02-carry-spouse-form-dropped', ['C02'], Y23 + 'f1040_s1.py', "            hsa_deduction += v['8889:spouse.hsa_deduction'] if spouse_hsa else 0.0\n", "            hsa_deduction += v['8889:you.hsa_deduction'] if spouse_hsa else 0.0\n", None, 'Schedule 1 line 13 takes the taxpayer\'s Form 8889 line 13 twice and never the spouse\'s')

M('c02-w2-wrong-box', ['C02'], Y23 + 'f8959.py', "FloatField('19', lambda s, i, v: float(sum([v[f'w-2:{n}.box_6'] for n in range(i['1040.number_w-2'])]))),", "FloatField('19', lambda s, i, v: float(sum([v[f'w-2:{n}.box_4'] for n in range(i['1040.number_w-2'])]))),", 'R2', 'Form 8959 line 19 totals W-2 box 4 (social security tax) instead of box 6 (Medicare tax)')
M('c02-listing-total-skips-first', ['C02'], Y23 + 'f1040_sb.py', "FloatField('2', lambda s, i, v: sum([v[f'1_amount_{line}'] for line in range(NUM_FIELDS)])),", "FloatField('2', lambda s, i, v: sum([v[f'1_amount_{line}'] for line in range(1, NUM_FIELDS)])),", 'R2', 'Schedule B line 2 leaves the first listed payer out of the total')

# ------------------------------------------------------------------ C15
M('c15-floor-misplaced', ['C15'], Y22 + 'f1040.py', "FloatField('22', lambda s, i, v: max(0.0, v['18'] - v['21'])),", "FloatField('22', lambda s, i, v: max(0.0, v['18']) - v['21']),", 'R15.2', 'misplaced parenthesis lets line 22 go negative (seed C15-A)')
M('c15-floor-removed', ['C15'], Y23 + 'f1040.py', "FloatField('15', lambda s, i, v: max(0.0, v['11'] - v['14'])), # Taxable income", "FloatField('15', lambda s, i, v: v['11'] - v['14']), # Taxable income", 'R15.2', 'taxable income can go negative')
M('c15-guard-flipped', ['C15'], Y23 + 'f1040.py', "FloatField('37', lambda s, i, v: None if v['33'] > v['24'] else v['24'] - v['33']),", "FloatField('37', lambda s, i, v: None if v['33'] < v['24'] else v['24'] - v['33']),", 'R15', 'amount owed produced when payments exceed tax (negative, and both halves positive)')
M('c15-operands-swapped', ['C15'], Y23 + 'f1040.py', "FloatField('34', lambda s, i, v: (v['33'] - v['24']) if v['33'] > v['24'] else None),", "FloatField('34', lambda s, i, v: (v['24'] - v['33']) if v['33'] > v['24'] else None),", 'R15', 'overpayment has the wrong sign')
M('c15-both-halves', ['C15'], Y23 + 'f1040.py', "FloatField('37', lambda s, i, v: None if v['33'] > v['24'] else v['24'] - v['33']),", "FloatField('37', lambda s, i, v: v['24'] - v['33'] if v['24'] >= v['33'] else None),", None, 'same split written from the other side (>= instead of not >)', 'silent')
M('c15-nc-wrong-line', ['C15'], Y23 + 'fnc_d_400.py', "v['25'] - v['19'] if v['25'] >= v['19'] else s.not_implemented()", "v['25'] - v['17'] if v['25'] >= v['19'] else s.not_implemented()", 'R15.1', 'NC overpayment no longer balances (seed C15-B)')
M('c15-refund-not-reduced', ['C15'], Y23 + 'f1040.py', "FloatField('35a', lambda s, i, v: v['34'] - v['36'] if v['34'] > 0.001 else None),", "FloatField('35a', lambda s, i, v: v['34'] if v['34'] > 0.001 else None),", 'R15.1', 'refund no longer reduced by the amount applied to next year')
M('c15-apply-unbounded', ['C15'], Y23 + 'f1040.py', "min(v['34'], max(0.0, i['apply_to_estimated_tax']))", "max(0.0, i['apply_to_estimated_tax'])", 'R15.2', 'amount applied to next year may exceed the overpayment: refund goes negative')

M('c15-nc-tax-floor-removed', ['C15', 'C02'], Y23 + 'fnc_d_400.py', "FloatField('15', lambda s, i, v: max(0.0, v['14'] * 0.0475), places=0), # NC Income Tax", "FloatField('15', lambda s, i, v: v['14'] * 0.0475, places=0), # NC Income Tax", None, 'NC income tax negative when NC taxable income is negative (F24 reverted)')
M('c15-nc-use-tax-reversed', ['C15', 'C02'], Y21 + 'fnc_d_400_consumer_use_tax_wkst.py', "round(v['2'] - v['3'], 0)", "round(v['3'] - v['2'], 0)", None, '2021 NC use tax worksheet subtracts the tax from the credit (F25 reverted)')
M('c15-nc-use-tax-credit-uncapped', ['C15'], Y21 + 'fnc_d_400_consumer_use_tax_wkst.py', "min(i['other_state_sales_tax'], v['2'])", "i['other_state_sales_tax']", 'R15.2', 'credit for tax paid to another state no longer capped at the use tax: relational proof lost')
M('c15-wkst-min-to-max', ['C15'], Y23 + 'f1040_qualdiv_capgain_tax_wkst.py', "FloatField('8', lambda s, i, v: min(v['5'], v['7'])),", "FloatField('8', lambda s, i, v: max(v['5'], v['7'])),", 'R15.2', 'capital-gain worksheet: smaller-of replaced by larger-of lets line 9 = line 7 - line 8 go negative (relational stage)')
M('c15-wkst-19-wrong-operand', ['C15'], Y23 + 'f1040_qualdiv_capgain_tax_wkst.py', "FloatField('19', lambda s, i, v: v['9'] + v['17']),", "FloatField('19', lambda s, i, v: v['9'] + v['16']),", 'R15.2', 'capital-gain worksheet line 19 adds line 16 instead of line 17: line 20 = line 10 - line 19 can go negative (needs the polyhedral case analysis)')
M('c15-8812-ratio-uncapped', ['C15'], Y21 + 'f1040_s8812.py', "FloatField('36', lambda s, i, v: min(1.0, v['34'] / v['35']), places=3),", "FloatField('36', lambda s, i, v: v['34'] / v['35'], places=3),", 'R15.2', 'repayment-protection ratio may exceed 1: line 39 = line 37 - line 38 goes negative')
M('c15-nc-floor-as-guard', ['C15', 'C02'], Y23 + 'fnc_d_400.py', "FloatField('15', lambda s, i, v: max(0.0, v['14'] * 0.0475), places=0), # NC Income Tax", "FloatField('15', lambda s, i, v: v['14'] * 0.0475 if v['14'] > 0 else 0.0, places=0), # NC Income Tax", None, 'floor written as a guarded product', 'silent')

M('c15-s3-capped-at-tax', ['C15'], Y23 + 'f1040_s3.py', "            return foreign_tax if foreign_tax > 0.001 else None\n", "            foreign_tax = min(foreign_tax, v['1040.16'])\n            return foreign_tax if foreign_tax > 0.001 else None\n", None, 'Schedule 3 line 1 limited to the tax (repair of the known finding F26): the repaired tree must be quiet', 'silent')

# ------------------------------------------------------------------ C16
M('c16-wkst-20-wrong-operand', ['C16'], Y23 + 'f1040_qualdiv_capgain_tax_wkst.py', "FloatField('20', lambda s, i, v: v['10'] - v['19']),", "FloatField('20', lambda s, i, v: v['4'] - v['19']),", 'R16.8', 'capital-gain worksheet line 20 starts from line 4 instead of line 10: more wages lower the tax, a larger deduction raises it (seed C16-C, 2023)')
M('c16-medical-floor-sign', ['C16'], Y23 + 'f1040_sa.py', "FloatField('3', lambda s, i, v: 0.075 * v['2']),", "FloatField('3', lambda s, i, v: -0.075 * v['2']),", 'R16.8', 'the medical-expense floor grows the deduction with income: the deduction no longer falls when wages grow', accept_error=True)
M('c16-min-as-conditional', ['C16', 'C02'], Y23 + 'f1040_qualdiv_capgain_tax_wkst.py', "FloatField('25', lambda s, i, v: min(v['23'], v['24'])),", "FloatField('25', lambda s, i, v: v['23'] if v['23'] < v['24'] else v['24']),", None, 'smaller-of written as a comparison: an input-dependent cut that is crossed continuously', 'silent')
M('c16-nc-withholding-owner-dropped', ['C16'], Y22 + 'fnc_d_400.py', "[enum.taxpayer_or_spouse.spouse, enum.taxpayer_spouse_or_both.spouse])", "[enum.taxpayer_or_spouse.spouse])", None, 'NC tax withheld on a 1099 owned by the spouse reaches neither line 20a nor 20b (seed C16-E)')
M('c16-nc-withholding-both-twice', ['C16'], Y23 + 'fnc_d_400.py', "[enum.taxpayer_or_spouse.spouse, enum.taxpayer_spouse_or_both.spouse])", "[enum.taxpayer_or_spouse.spouse, enum.taxpayer_spouse_or_both.spouse, enum.taxpayer_spouse_or_both.both])", 'R16.7', 'NC tax withheld on a jointly owned 1099 is counted on both line 20a and line 20b')
M('c16-election-threshold-differs', ['C16'], Y23 + 'f1040.py', "(v['1040_sa.17'] >= standard_deduction(s, i) or i['1040_sa.itemize_though_less'])", "(v['1040_sa.17'] >= standard_deduction(s, i) - 500.0 or i['1040_sa.itemize_though_less'])", 'R16.6', 'itemizing is chosen from 500 below the standard deduction: a larger Schedule A total can lower line 12')
M('c16-election-written-the-other-way', ['C16'], Y23 + 'f1040.py', "(v['1040_sa.17'] >= standard_deduction(s, i) or i['1040_sa.itemize_though_less'])", "(not (standard_deduction(s, i) > v['1040_sa.17']) or i['1040_sa.itemize_though_less'])", None, 'same comparison written from the other side', 'silent')
M('c16-first-copies-summed', ['C16'], Y22 + 'f1040.py', "            for n in range(i['number_1099-r']):\n                if not v[f'1099-r:{n}.box_7_ira_sep_simple']:", "            for n in range(i['number_1099-r']):\n                if n > 0 and not v[f'1099-r:{n}.box_7_ira_sep_simple']:", 'R16.1', 'copy number 0 is treated differently')
M('c16-index-weight', ['C16'], Y23 + 'f1040.py', "FloatField('2a', lambda s, i, v: float(sum([v[f'1099-int:{n}.box_8'] for n in range(i['number_1099-int'])]))),", "FloatField('2a', lambda s, i, v: float(sum([v[f'1099-int:{n}.box_8'] * (n + 1) for n in range(i['number_1099-int'])]))),", 'R16.1', 'the index is used in arithmetic')
M('c16-fixed-copy', ['C16'], Y23 + 'f1040.py', "FloatField('26', lambda s, i, v: i['estimated_tax_payments']),", "FloatField('26', lambda s, i, v: i['estimated_tax_payments'] + v['w-2:0.box_17'] * 0.0),", 'R16.2', 'a line addresses W-2 number 0 by position')
M('c16-withholding-dropped', ['C16'], Y23 + 'f1040.py', "            withholding = additional_medicare + i['other_federal_withholding']", "            withholding = additional_medicare if additional_medicare > 0.001 else i['other_federal_withholding']", 'R16.3', 'other withholding ignored when Form 8959 applies (seed C16-B)')
M('c16-withholding-into-income', ['C16'], Y23 + 'f1040.py', "FloatField('23', lambda s, i, v: s.not_implemented() if i['need_schedule_2'] else None),", "FloatField('23', lambda s, i, v: s.not_implemented() if i['need_schedule_2'] else v['25a'] * 0.0),", 'R16.4', 'total tax reads a withholding line')
M('c16-25d-summand', ['C16'], Y23 + 'f1040.py', "FloatField('25d', lambda s, i, v: v['25a'] + v['25b'] + v['25c']),", "FloatField('25d', lambda s, i, v: v['25a'] + v['25b']),", 'R16.3', 'line 25c dropped from total withholding')
M('c16-stale-you', ['C16'], Y23 + 'f1040.py', "                    line_4b += v['8606:spouse.taxable_amount']", "                    line_4b += v['8606:you.taxable_amount']", 'R16.5', 'spouse block carries the taxpayer\'s Form 8606 (seed C02-A)')
M('c16-loop-to-comprehension', ['C16'], Y23 + 'f1040.py', "            for n in range(i['number_w-2']):\n                if v[f'w-2:{n}.box_13_statutory']:\n                    self.not_implemented()\n", "            if any([v[f'w-2:{n}.box_13_statutory'] for n in range(i['number_w-2'])]):\n                self.not_implemented()\n", None, 'loop rewritten as any([...])', 'silent')

# ------------------------------------------------------------------ C17 inline switches
M('r175-inline-status-dropped', ['C17'], Y21 + 'f1040_s2_need6251.py', "            if i['1040.filing_status'] in [filing_status.Single, filing_status.HeadOfHousehold]:\n                return 73600.0", "            if i['1040.filing_status'] in [filing_status.Single]:\n                return 73600.0", 'R17.5', 'a status dropped from an inline 2021 chain falls into not_implemented()')
M('r175-inline-none', ['C17'], Y21 + 'f1040_s2_need6251.py', "            elif i['1040.filing_status'] == filing_status.MarriedFilingSeparately:\n                return 57300.0\n            else:\n                self.not_implemented()", "            elif i['1040.filing_status'] == filing_status.MarriedFilingSeparately:\n                return None", 'R17.5', 'a status yields nothing in a pure switch')
M('r186-nc-status-boxes', ['C18'], Y23 + 'fnc_d_400.py', "BooleanField('4', lambda s, i, v: i['1040.filing_status'] == enum.filing_status.HeadOfHousehold),", "BooleanField('4', lambda s, i, v: i['1040.filing_status'] != enum.filing_status.Single),", 'R18.6', 'NC filing-status box 4 is on for every status but single (two boxes on)')


# ------------------------------------------------------------------ round 5 of the seeded changes
M('l1-forms-map-membership', ['C03', 'C05'], Y23 + 'f8889.py',
  "s.not_implemented() if i['1040_s1.hsa_contribution_you'] and i['1040_s1.hsa_contribution_spouse'] and i['hdhp_plan_family'] else v['5']",
  "s.not_implemented() if '8889:spouse' in s.form().solver().forms and i['hdhp_plan_family'] else v['5']", 'L1',
  'a line asks which forms the solver has loaded so far (seed C03-J)')
M('l2-reversed-is-pure', ['C03', 'C05', 'C07'], Y21 + 'f1040_figure_tax.py', "    for row in TAX_TABLE:\n        if taxable_amount >= row[0] and taxable_amount < row[1]:",
  "    for row in reversed(TAX_TABLE):\n        if taxable_amount >= row[0] and taxable_amount < row[1]:", None, 'the table is scanned from the top: same function', expect='silent')
M('c07-round-before-lookup', ['C07'], Y21 + 'f1040_figure_tax.py', "    for row in TAX_TABLE:\n        if taxable_amount >= row[0] and taxable_amount < row[1]:",
  "    dollars = round(taxable_amount)\n    for row in TAX_TABLE:\n        if dollars >= row[0] and dollars < row[1]:", 'D2',
  'the amount is rounded to whole dollars before the row is looked up: x.50-x.99 at the end of a row lands in the next row (seed C07-J)')
M('c07-int-zero', ['C07'], Y22 + 'f1040_figure_tax.py', "    if taxable_amount < 100000:\n        return figure_tax_table(taxable_amount, filing_status_index)",
  "    if taxable_amount <= 0:\n        return 0\n    if taxable_amount < 100000:\n        return figure_tax_table(taxable_amount, filing_status_index)", 'D1',
  'figure_tax returns the int 0 for no income: the money line rejects it (seed C07-I)')
M('c07-float-zero', ['C07'], Y22 + 'f1040_figure_tax.py', "    if taxable_amount < 100000:\n        return figure_tax_table(taxable_amount, filing_status_index)",
  "    if taxable_amount <= 0:\n        return 0.0\n    if taxable_amount < 100000:\n        return figure_tax_table(taxable_amount, filing_status_index)", None,
  'an early 0.0 for no income: same function', expect='silent')
M('k21b-places-or-default', ['C12'], FI, "        self._places = places\n", "        self._places = places or 2\n", 'K21b', 'a declared 0 places becomes 2 (seed C12-I)')
M('k21b-places-none-default', ['C12'], FI, "    def __init__(self, name, value_fn, places=2):\n        self._empty_value = 0.0\n        self._places = places\n",
  "    def __init__(self, name, value_fn, places=None):\n        self._empty_value = 0.0\n        self._places = places if places is not None else 2\n", None,
  'None as "not declared": every declared value is kept', expect='silent')
M('k25-prose-line-in-template', ['C17'], CLI, "    print(f'# {f.full_description()}')\n", "    print(f'# {f.full_description()}')\n    print(f'Inputs of {f.name()}: see below')\n", 'K25',
  'list-form-inputs prints an uncommented line of prose (seed C17-I)')
M('k25-extra-comment-line', ['C17'], CLI, "    print(f'# {f.full_description()}')\n", "    print(f'# {f.full_description()}')\n    print(f'# tax year {f.tax_year}')\n", None,
  'one more comment line in the template', expect='silent')
M('r18-wrong-blank', ['C18', 'C19'], Y23 + 'f8959.py', "'f8959.pdf')", "'f8995.pdf')", 'R1', 'Form 8959 is filled into the blank of Form 8995 (seed C19-I)')
M('r18-nc-wrong-blank', ['C18', 'C19'], Y22 + 'fnc_d_400_sa.py', "'fnc_d-400_sa.pdf')", "'fnc_d-400_ss.pdf')", 'R1', 'NC Schedule A is filled into the blank of Schedule S')
M('r9-statutory-last-only', ['C09'], Y21 + 'f1040.py', "                if v[f'w-2:{n}.box_13_statutory']:\n                    statutory = True\n",
  "                statutory = v[f'w-2:{n}.box_13_statutory']\n", 'R9', 'only the last W-2 decides the statutory-employee gate (seed C09-J)')
M('r9-statutory-any', ['C09', 'C10', 'C03'], Y21 + 'f1040.py', "            for n in range(i['number_w-2']):\n                if v[f'w-2:{n}.box_13_statutory']:\n                    statutory = True\n",
  "            statutory = any(v[f'w-2:{n}.box_13_statutory'] for n in range(i['number_w-2']))\n", None, 'the latch written with any(): same gate', expect='silent')
M('k1b-solve-per-form', ['C01', 'C09'], CLI, "        successful = s.solve(args.forms)\n", "        successful = True\n        for form_name in args.forms:\n            successful = s.solve([form_name]) and successful\n", 'K1b',
  'the CLI solves the forms one by one on one Solver whose success flag is sticky (seed C09-I)')
M('k30-assert-on-names', ['C10'], S, "            assert i not in self._input_map\n", "            assert i.name() not in self._input_map\n", 'K30',
  'the never-firing assertion is "fixed" to test names: loading inputs first and lines later now trips it (seed C10-I)')
M('k31-walk-without-memory', ['C06'], S, "    def solution(self):\n",
  "    def _cycle_from(self, start, waiting_on):\n        current = waiting_on[start]\n        while current in waiting_on and current != start:\n            current = waiting_on[current]\n        return current == start\n\n    def solution(self):\n",
  'K31', 'a diagnostic walks the waits-on table until it is back at the start: never ends on a tail into a cycle (seed C06-I)')
M('k31-walk-with-memory', ['C06'], S, "    def solution(self):\n",
  "    def _cycle_from(self, start, waiting_on):\n        seen = set()\n        current = waiting_on[start]\n        while current in waiting_on and current != start and current not in seen:\n            seen.add(current)\n            current = waiting_on[current]\n        return current == start\n\n    def solution(self):\n",
  None, 'the same walk remembering where it has been', expect='silent')
M('k32-return-on-refusal', ['C01', 'C06', 'C11', 'C13'], S, "                    self._attempt_input(input_name, needed_by)\n                    if self._refused_input:\n                        break\n",
  "                    if not self._attempt_input(input_name, needed_by):\n                        self._done_solving = True\n                        return self._solved\n", 'K32',
  'solve() returns straight from the prompting loop when the user declines (seed C11-J)')
M('k10-break-on-the-answer', ['C06', 'C13', 'C20'], S, "                    self._attempt_input(input_name, needed_by)\n                    if self._refused_input:\n                        break\n",
  "                    if not self._attempt_input(input_name, needed_by):\n                        break\n", None, 'the loop tests the answer of _attempt_input instead of the flag it sets: same behaviour', expect='silent')
M('l2c-generator-twice', ['C02', 'C03', 'C05'], Y23 + 'f1040_sa.py',
  "            mortgage_interest_points = sum([v[f'1098:{n}.box_1'] for n in range(i['1040.number_1098'])])\n            mortgage_interest_points += sum([v[f'1098:{n}.box_6'] for n in range(i['1040.number_1098'])])\n",
  "            forms_1098 = (f'1098:{n}' for n in range(i['1040.number_1098']))\n            mortgage_interest_points = sum(v[f'{form}.box_1'] for form in forms_1098)\n            mortgage_interest_points += sum(v[f'{form}.box_6'] for form in forms_1098)\n",
  'L2c', 'one generator of form names feeds two sums: the second adds nothing (seed C02-I)')
M('l2c-list-twice', ['C02', 'C03', 'C05', 'C10', 'C15'], Y23 + 'f1040_sa.py',
  "            mortgage_interest_points = sum([v[f'1098:{n}.box_1'] for n in range(i['1040.number_1098'])])\n            mortgage_interest_points += sum([v[f'1098:{n}.box_6'] for n in range(i['1040.number_1098'])])\n",
  "            forms_1098 = [f'1098:{n}' for n in range(i['1040.number_1098'])]\n            mortgage_interest_points = sum(v[f'{form}.box_1'] for form in forms_1098)\n            mortgage_interest_points += sum(v[f'{form}.box_6'] for form in forms_1098)\n",
  None, 'a list of form names feeds two sums: same line', expect='silent')
M('r16-rows-keyed-by-payer', ['C16'], Y22 + 'f1040_sb.py',
  "lambda s, i, v: v[f'1099-int:{s.which_1099int}.box_1'] + v[f'1099-int:{s.which_1099int}.box_3'] if s.which_1099int < i['1040.number_1099-int'] else None)",
  "lambda s, i, v: (list({v[f'1099-int:{n}.payer']: v[f'1099-int:{n}.box_1'] + v[f'1099-int:{n}.box_3'] for n in range(i['1040.number_1099-int'])}.values()) + [None] * 14)[s.which_1099int])",
  'R16.1', 'Schedule B rows built from a mapping keyed by payer name: two copies with one payer collapse (seed C16-I)')
M('k24e-c04-del-needed-by', ['C04'], CLI, "def prompt_input(missing, needed_by):\n", "def prompt_input(missing, needed_by):\n    del needed_by[25:]\n", 'K24e',
  'the prompt shortens the list of waiting lines it was handed - the tracker\'s own list (seed C04-I)')


# ------------------------------------------------------------------ round 6 of the seeded changes
M('r17-module-level-input', ['C17', 'C05', 'C01'], Y23 + 'f1098.py', "            StringInput('box_8', description=\"Address or description of property securing mortgage\"),", "            _BOX8,", 'R17.7',
  'one input object of Form 1098 is created once at module level and shared by every copy (seeds C01-L, C17-L)',
  more=[(Y23 + 'f1098.py', "class Form1098(InputForm):", "_BOX8 = StringInput('box_8', description=\"Address or description of property securing mortgage\")\n\nclass Form1098(InputForm):")])
M('k7-store-rounds', ['C03', 'C12'], VA, "    def __setitem__(self, key, value):\n        self.values[key] = value\n",
  "    def __setitem__(self, key, value):\n        if isinstance(value, float):\n            value = round(value, 2)\n        self.values[key] = value\n", 'K7',
  'the value store rounds floats to cents behind the field\'s back: lines with 3 or 5 places are cut (seed C03-K)')
M('k7-store-asserts-key', ['C03', 'C12'], VA, "    def __setitem__(self, key, value):\n        self.values[key] = value\n",
  "    def __setitem__(self, key, value):\n        assert isinstance(key, str)\n        self.values[key] = value\n", None, 'an assertion on the key; the value is stored as given', expect='silent')
M('k12-evaluate-on-the-spot', ['C04', 'C06'], S, "                self._add_unattempted(self._field_map[ud.dependency])\n", "                self._attempt_field(self._field_map[ud.dependency])\n", 'K12',
  'the needed line is evaluated from inside the handler instead of queued (seed C06-L)')
M('r8-line-type-changed-under-reader', ['C08'], Y23 + 'f8889.py', "BooleanField('1', lambda s, i, v: i['hdhp_plan_family']),", "StringField('1', lambda s, i, v: 'family' if i['hdhp_plan_family'] else 'self-only'),", 'R8',
  'line 1 becomes a text line; the limit helper still tests it for truth, so the self-only limit is never applied (seed C08-K)')
M('k11i-lenient-decoding', ['C11', 'C13', 'C14', 'C20'], IN, "            with open(input_config) as config_file:", "            with open(input_config, encoding='utf-8', errors='ignore') as config_file:", 'K11i',
  'undecodable bytes are dropped before validation (seed C11-K)')
M('k11i-explicit-utf8', ['C11', 'C13', 'C14', 'C20'], IN, "            with open(input_config) as config_file:", "            with open(input_config, encoding='utf-8') as config_file:", 'K11i',
  'the read is pinned to UTF-8 while the write-back keeps the platform default: the mirror image of seed C13-R (the twin with both sides pinned is k11i-both-pinned-utf8)')
M('r17-description-in-allow-empty', ['C17', 'C11'], Y22 + 'f1099_r.py', "EnumInput('belongs_to', enum.taxpayer_or_spouse, description=\"To whom was this distribution paid?\"),",
  "EnumInput('belongs_to', enum.taxpayer_or_spouse, \"To whom was this distribution paid?\"),", 'R17.8', 'the description lands in allow_empty: blank answers become valid (seed C11-L)')
M('k34-fromkeys-shared-list', ['C01', 'C13'], S, "        unmet_dependencies = {}\n        for dep in dependency_tracker.unmet_dependencies():\n            dependents = [f.name() for f in dependency_tracker.unmet_dependents(dep)]\n            unmet_dependencies[dep] = dependents\n",
  "        unmet_dependencies = dict.fromkeys(dependency_tracker.unmet_dependencies(), [])\n        for dep in unmet_dependencies:\n            unmet_dependencies[dep] += [f.name() for f in dependency_tracker.unmet_dependents(dep)]\n", 'K34',
  'one list shared by all keys of the failure report (seed C13-K)')
M('k34-fromkeys-then-replace', ['C01', 'C13'], S, "        unmet_dependencies = {}\n        for dep in dependency_tracker.unmet_dependencies():\n",
  "        unmet_dependencies = dict.fromkeys(dependency_tracker.unmet_dependencies(), [])\n        for dep in list(unmet_dependencies):\n", None,
  'keys created first, every entry then replaced by its own list', expect='silent')
M('k18b-temp-file-elsewhere', ['C20', 'C13'], IN, "        with open(filename, 'w') as outfile:\n            self.config.write(outfile)\n",
  "        import tempfile, os\n        with tempfile.NamedTemporaryFile('w', delete=False) as outfile:\n            self.config.write(outfile)\n        os.replace(outfile.name, filename)\n", 'K18b',
  'atomic write through the system temp directory: the rename fails across file systems (seed C13-L)')
M('k18b-temp-file-alongside', ['C20', 'C13'], IN, "        with open(filename, 'w') as outfile:\n            self.config.write(outfile)\n",
  "        import tempfile, os\n        with tempfile.NamedTemporaryFile('w', delete=False, dir=os.path.dirname(os.path.abspath(filename))) as outfile:\n            self.config.write(outfile)\n        os.replace(outfile.name, filename)\n", None,
  'atomic write through a temporary file next to the target', expect='silent')
M('k22g-skip-forms-without-template', ['C14'], PF, "        form = self._form_map[form_name](instance=form_instance)\n        self.forms.append(form)\n",
  "        form = self._form_map[form_name](instance=form_instance)\n        if not form.pdf_file():\n            return\n        self.forms.append(form)\n", 'K22g',
  'sections of forms without a template are not read back (seed C14-K)')
M('k23b-cat-sorted-by-name', ['C19'], PF, "            cmd.extend(pdfs)\n", "            cmd.extend(sorted(set(pdfs)))\n", 'K23b', 'the filled forms are concatenated in file-name order (seed C19-L)')
M('k23b-cat-list-copy', ['C19'], PF, "            cmd.extend(pdfs)\n", "            cmd.extend(list(pdfs))\n", None, 'a copy of the list in the same order', expect='silent')
M('k19-finally-reads-verdict', ['C20'], CLI, "        if args.writeback_input:\n            input_store.write(args.input_file)\n",
  "        if args.writeback_input:\n            print('complete' if successful else 'partial')\n            input_store.write(args.input_file)\n", 'K19',
  'the finally block reads the verdict, unbound when solve() raised, before writing back (seed C20-L)')
M('k19-finally-message-after-write', ['C20'], CLI, "        if args.writeback_input:\n            input_store.write(args.input_file)\n",
  "        if args.writeback_input:\n            input_store.write(args.input_file)\n            print(f'input written back to {args.input_file}')\n", None,
  'a message after the write, using nothing bound in the try', expect='silent')
M('k22f-keep-old-sections', ['C04', 'C14'], CLI, "    # Attach tax year to solution\n", "    if args.solution and Path(args.solution).is_file():\n        previous = configparser.ConfigParser(interpolation=None)\n        previous.read(args.solution)\n        for section in previous.sections():\n            if section not in solution:\n                solution[section] = dict(previous[section])\n    # Attach tax year to solution\n",
  'K22f', 'sections of an earlier solution file are carried over into the new one (seed C04-K)')
M('r16-first-copy-returns', ['C16'], Y21 + 'f1040.py', "            for n in range(i['number_w-2']):\n                if v[f'w-2:{n}.box_5'] > 200000:\n                    return True\n            statuses = enum.filing_status_2021\n",
  "            for n in range(i['number_w-2']):\n                if v[f'w-2:{n}.box_5'] > 200000:\n                    return True\n                return False\n            statuses = enum.filing_status_2021\n", 'R16.1',
  'the loop over the W-2s returns in its first round: only copy 0 decides (seed C16-K)')
M('k23f-module-level-form-cache', ['C19', 'C14'], PF, "        form = self._form_map[form_name](instance=form_instance)\n",
  "        form = _FORMS.setdefault(full_form_name, self._form_map[form_name](instance=form_instance))\n", 'K2', 'form objects cached at module level, keyed without the tax year (seed C19-K)',
  more=[(PF, "class PDFFiller(object):", "_FORMS = {}\n\nclass PDFFiller(object):")])
M('r16-tax-function-dips', ['C16', 'C07'], Y23 + 'f1040_figure_tax.py', "22774.00", "22474.00", None,
  'a worksheet subtraction amount off by 300: the tax drops where the 32% row meets the 35% row (seed C16-L)')
M('r9-composite-gate-never-true', ['C09'], Y23 + 'f8889.py', "if i['1040_s1.hsa_contribution_you'] and i['1040_s1.hsa_contribution_spouse'] and i['hdhp_plan_family'] else v['5']",
  "if i['1040_s1.hsa_contribution_you'] and i['1040_s1.hsa_contribution_spouse'] and i['hdhp_plan_family'] and i['1040.filing_status'] == 'MarriedFilingJointly' else v['5']", 'R9.1',
  'a further conjunct that is never true (enumeration member compared with text) silences the both-spouses HSA refusal (seed C09-L)')


# ------------------------------------------------------------------ round 7 of the seeded changes
M('l3-recompute-line-11', ['C02', 'C03'], Y21 + 'f1040_recovery_rebate_credit_wkst.py', "(v['8'] * v['11']) if v['9_checkbox'] else v['8']", "(v['8'] * line_11(s, i, v)) if v['9_checkbox'] else v['8']", 'L3',
  'line 12 recomputes line 11 from its definition instead of reading the (rounded) line (seed C02-N)')
M('k22b-text-newlines-replaced', ['C14', 'C03'], FI, "class StringField(BasicTypedField):\n    def __init__(self, name, value_fn):\n        self._empty_value = \"\"\n        super().__init__(name, value_fn, str)\n",
  "class StringField(BasicTypedField):\n    def __init__(self, name, value_fn):\n        self._empty_value = \"\"\n        super().__init__(name, value_fn, str)\n\n    def to_string(self, value):\n        return str(value).replace(\"\\n\", \" \")\n", 'K22b',
  'text lines are written with their line breaks replaced (seed C03-M)')
M('k22b-float-sign-dropped', ['C14'], FI, "    def to_string(self, value):\n        return f'{value:.{self._places}f}'\n", "    def to_string(self, value):\n        if round(value, 2) == 0:\n            value = abs(value)\n        return f'{value:.{self._places}f}'\n", 'K22b',
  'the sign of amounts that are zero to the cent is dropped, also on lines kept to 5 places (seed C14-M)')
M('k22b-filler-normalises-text', ['C14'], PF, "            string = self._solution[form_name][field_name]\n", "            string = self._solution[form_name][field_name].strip()\n", 'K22b',
  'the filler strips the solution text before converting it (seed C14-N)')
M('k0-solve-form-by-form', ['C03', 'C04', 'C05', 'C06'], S, "        for form_name in form_names:\n            self._add_form(form_name)\n",
  "        for form_name in form_names:\n            self._add_form(form_name)\n            while len(self._unattempted_fields) > 0:\n                self._attempt_field(self._unattempted_fields.pop())\n", 'K0',
  'lines are attempted after each requested form is added, before the later ones are known (seed C05-N)', accept_error=True)
M('k10-invalid-answer-ignored', ['C06', 'C13'], S, "        if supplied:\n            assert missing.valid(value)\n", "        if supplied and not missing.valid(value):\n            return False\n        if supplied:\n", 'K10',
  'an invalid scripted answer is dropped without recording a refusal: the same question is asked for ever (seed C06-M)')
M('k24c-met-list-reset', ['C06'], S, "            else:\n                self._met.pop(0)\n                continue\n", "            else:\n                self._met.pop(0)\n                continue\n        self._met = []\n", 'K24c',
  'the drain resets the list of satisfied names at its end: names met during a suspended drain are forgotten (seed C06-N)')
M('c07-missing-status-key', ['C07'], Y21 + 'f1040_figure_tax.py', "    if taxable_amount < 100000:\n        return figure_tax_table(taxable_amount, filing_status_index)",
  "    if taxable_amount < 100000:\n        return figure_tax_table(taxable_amount, {2: 2, 3: 3, 4: 4}[filing_status_index])", 'D1',
  'a lookup table of the tax function has no entry for one status: KeyError below $100,000 (seed C07-M)')
M('k21a-normalise-before-type-test', ['C12'], FI, "        elif type(v) is not self._type:\n", "        v = v if not hasattr(v, '__round__') else v\n        if type(v) is not self._type:\n", 'K21a',
  'the answer is rebound before the type test (seed C12-M)')
M('r16-break-in-copy-loop', ['C16'], Y22 + 'f1040_sa.py', "            mortgage_interest_points = sum([v[f'1098:{n}.box_1'] for n in range(i['1040.number_1098'])])\n",
  "            mortgage_interest_points = 0.0\n            for n in range(i['1040.number_1098']):\n                if v[f'1098:{n}.box_7']:\n                    break\n                mortgage_interest_points += v[f'1098:{n}.box_1']\n", 'R16.1',
  'a loop over the 1098 copies that sums amounts is left with break at the first copy with box 7 ticked (seed C16-M)')
M('k20-answer-rewritten', ['C09', 'C11', 'C01'], CLI, "    return (value, True)\n", "    if value.strip().lower().startswith('y'):\n        value = 'yes'\n    return (value, True)\n", 'K20',
  'the validated answer is rewritten before it is returned (seed C09-N)')
M('r15-cents-line-in-whole-dollar-sum', ['C15'], Y21 + 'fnc_d_400.py', "FloatField('29', lambda s, i, v: i['2022_estimated_income_tax'], places=0),", "FloatField('29', lambda s, i, v: i['2022_estimated_income_tax']),", 'R15.4',
  'NC line 29 is kept to cents while the lines that add it are whole dollars (seed C15-N)')
M('r17-valid-instances-mutated', ['C17'], Y22 + 'f8889.py', "        assert instance in ['you', 'spouse']\n", "        assert instance in self.valid_instances\n        others = self.valid_instances\n        others.remove(instance)\n", 'R17.7',
  'the constructor removes its instance from the class-level list of allowed instances (seed C17-N)')
M('k35-lazy-config', ['C20', 'C13', 'C11'], IN, "    def write(self, filename):\n        with open(filename, 'w') as outfile:\n            self.config.write(outfile)\n",
  "    @property\n    def cfg(self):\n        c = configparser.ConfigParser(interpolation=None)\n        c.read(self._path)\n        return c\n\n    def write(self, filename):\n        with open(filename, 'w') as outfile:\n            self.cfg.write(outfile)\n", 'K35',
  'write-back goes through a property that loads the file on use - after open(..., "w") has truncated it (seed C20-M)')
M('k35-sections-lowercased', ['C20', 'C13', 'C11'], IN, "                self.config.read_file(config_file)\n", "                self.config.read_file(config_file)\n            for section in self.config.sections():\n                if section != section.lower():\n                    self.config[section.lower()] = self.config[section]\n                    self.config.remove_section(section)\n", 'K35',
  'sections are renamed to lower case on load: an existing lower-case section is cleared first (seed C20-N)')
M('l4-demand-inside-assert', ['C04'], Y23 + 'f1040_sb.py', "                v['7a']\n                v['7b']\n                v['8']\n", "                assert not (v['7a'] or v['7b'] or v['8'])\n", 'L4',
  'the demand-only reads of Part III are folded into an assert, which python -O strips (seed C04-N)')
_STEP_OLD = "def figure_tax_table(taxable_amount, filing_status_column):\n    for row in TAX_TABLE:\n        if taxable_amount >= row[0] and taxable_amount < row[1]:\n            return float(row[filing_status_column])\n"
_STEP_NEW = ("TAX_TABLE_STEP = %d\nTAX_TABLE_STEP_ROW = []\nfor _index, _row in enumerate(TAX_TABLE):\n    while len(TAX_TABLE_STEP_ROW) * TAX_TABLE_STEP < _row[1]:\n        TAX_TABLE_STEP_ROW.append(_index)\n\n"
             "def figure_tax_table(taxable_amount, filing_status_column):\n    step = int(taxable_amount // TAX_TABLE_STEP)\n    if 0 <= step < len(TAX_TABLE_STEP_ROW):\n        row = TAX_TABLE[TAX_TABLE_STEP_ROW[step]]\n        return float(row[filing_status_column])\n")
M('c07-step-index-25', ['C07'], Y22 + 'f1040_figure_tax.py', _STEP_OLD, _STEP_NEW % 25, 'D2',
  'the table scan is replaced by an index list with one entry per $25 built at import time: the three irregular rows under $25 collapse (seed C07-N)')
M('c07-step-index-5', ['C07'], Y22 + 'f1040_figure_tax.py', _STEP_OLD, _STEP_NEW % 5, None,
  'the same index list with one entry per $5, the common divisor of all row boundaries: same function', expect='silent')


# ------------------------------------------------------------------ round 8 of the seeded changes
M('k27-getter-regroups', ['C01', 'C13'], S, "        assert self._done_solving\n        return self._unmet_dependencies(self._field_dependencies)\n",
  "        assert self._done_solving\n        unmet = self._unmet_dependencies(self._field_dependencies)\n        stuck = set(n for ds in unmet.values() for n in ds)\n        return {d: ds for d, ds in unmet.items() if d not in stuck}\n", 'K27',
  'the getter of the blocked lines keeps only the roots of the blockage: lines blocked behind each other disappear (seed C01-P)')
M('l5-raw-answer-instead-of-the-flag-line', ['C02'], Y22 + 'f1040_s8812.py', "            if not v['1040.need_schedule_3_part_i']:\n", "            if not i['1040.need_schedule_3_part_i']:\n", 'L5',
  'the worksheet consults the raw answer instead of the line that also detects foreign tax by itself (seed C02-O)')
M('k36-default-list-appended', ['C04', 'C05'], S, "        for form_name in form_names:\n            self._add_form(form_name)\n",
  "        for form_name in form_names:\n            if '.' in form_name:\n                field_names.append(form_name)\n                continue\n            self._add_form(form_name)\n", 'K36',
  'solve() appends to its field_names parameter, whose default is the literal [] (seed C04-P)')
M('k32-pass-budget', ['C05', 'C06'], S, "            while len(self._unattempted_fields) > 0:\n                self._attempt_field(self._unattempted_fields.pop())\n",
  "            passes = getattr(self, '_passes', 0) + 1\n            self._passes = passes\n            if passes > 50:\n                raise RuntimeError('did not settle')\n            while len(self._unattempted_fields) > 0:\n                self._attempt_field(self._unattempted_fields.pop())\n", 'K32',
  'a cut-off on the number of rounds of the scheduling loop (seed C05-O)')
M('k20-typed-text-stripped', ['C05', 'C11'], CLI, "            value = input(prompt)\n", "            value = input(prompt).strip()\n", 'K20', 'the typed answer is stripped; the same text in the file is not (seed C05-P)')
M('r9-gate-line-no-longer-read', ['C09'], Y22 + 'f1040_s1.py', "v['1'] + v['2a'] + sum([v[f'{n}'] for n in range(3,8)]) + v['9']", "v['1'] + v['2a'] + v['3'] + v['4'] + v['5'] + v['7'] + v['9']", 'R9.6',
  'Schedule 1 line 10 no longer reads line 6, the only place the farm-income gate is evaluated (seed C09-P)')
M('k11j-raw-text-looked-up', ['C11', 'C13'], IN, "    def value(self, string):\n        string = super().value(string)\n        if len(string.strip()) == 0 and self.allow_empty:\n            return None\n        return self.enum[string]\n",
  "    def value(self, string):\n        if self.allow_empty and len(string.strip()) == 0:\n            return None\n        return self.enum[string]\n", 'K11j',
  'EnumInput.value looks the raw text up while valid() accepted the stripped text (seed C13-P)')
M('k22a-year-only-when-solved', ['C14'], CLI, "    # Attach tax year to solution\n    solution['habutax'] = {\n        'tax_year': args.year,\n        'version': __version__,\n    }\n\n    if successful:\n        print(\"\\nSuccessfully solved!\")\n",
  "    if successful:\n        print(\"\\nSuccessfully solved!\")\n        solution['habutax'] = {\n            'tax_year': args.year,\n            'version': __version__,\n        }\n", 'K22a',
  'a partial solution is written without its tax year (seed C14-O)')
M('k22a-year-with-fallback', ['C14'], CLI, "    tax_year = solution.getint('habutax', 'tax_year')\n", "    tax_year = solution.getint('habutax', 'tax_year', fallback=2021)\n", 'K22a', 'fill-pdfs falls back to a default year (seed C14-O)')
M('k22b-from_string-scaled-rounding', ['C14'], FI, "        return round(float(string), self._places)\n", "        scale = 10 ** self._places\n        return round(float(string) * scale) / scale\n", 'K22b',
  'amounts are read back with another rounding scheme than they were stored with (seed C14-P)')
M('k22b-from_string-local-variable', ['C14'], FI, "        return round(float(string), self._places)\n", "        amount = float(string)\n        return round(amount, self._places)\n", None,
  'the same rounding through a local variable', expect='silent')
M('k25b-name-column-cut', ['C17'], CLI, "    format_str =\"{:>{width}} | {:12} | {}\"\n", "    format_str =\"{:>{width}.{width}} | {:12} | {}\"\n", 'K25b', 'the name column of list-forms gets a precision (seed C17-O)')
M('k23c-choice-tested-in-upper-case', ['C19'], PFD, "        if value not in self._choices:\n", "        if value.upper() not in self._choices:\n", 'K23c', 'the choice test is made on an upper-cased copy (seed C19-P)')
M('k16-set-joined', ['C03', 'C05'], Y23 + 'f1040_s1.py', "            types = []\n", "            types = set()\n", 'K16', 'descriptions collected in a set and joined in set order (seed C03-P)',
  more=[(Y23 + 'f1040_s1.py', "                types.append(\"Refund of overpaid mortgage interest\")", "                types.add(\"Refund of overpaid mortgage interest\")"),
        (Y23 + 'f1040_s1.py', "                types.append(i['other_income_type'])", "                types.add(i['other_income_type'])")])
M('r17-dotted-input-name', ['C17'], Y23 + 'fnc_d_400_ss.py', "'section_1400z-2_gain'", "'section_1400z.2_gain'", 'R17', 'an input name with a dot: the constructor\'s own assertion refuses it (the form cannot be built)', count=None)
M('k9-meet-after-the-try', ['C06'], S, "            self._v[field.name()] = field.value(form_inputs, form_values)\n            self._field_dependencies.meet(field.name())\n",
  "            self._v[field.name()] = field.value(form_inputs, form_values)\n", 'K9', 'meet() moved behind the try: the FieldNotImplemented handler falls through to it (seed C06-P)',
  more=[(S, "            self._unimplemented_fields.append(fni.field_name)\n", "            self._unimplemented_fields.append(fni.field_name)\n        self._field_dependencies.meet(field.name())\n"),
        (S, "            self._field_dependencies.add_unmet(ud.dependency, field)\n        except inputs.MissingInput as mi:\n            self._input_dependencies.add_unmet(mi.input_name, field)\n",
            "            self._field_dependencies.add_unmet(ud.dependency, field)\n            return\n        except inputs.MissingInput as mi:\n            self._input_dependencies.add_unmet(mi.input_name, field)\n            return\n")])
M('k11d-subclass-converts-itself', ['C11'], IN, "class EnumInput(StringInput):\n", "class PercentInput(FloatInput):\n    def value(self, string):\n        return float(string.strip().rstrip('%'))\n\nclass EnumInput(StringInput):\n", 'K11d',
  'a subclass of FloatInput converts with float() itself and loses the finiteness test (seed C11-O)')
M('l6-list-edited-while-iterated', ['C16', 'C05', 'C03'], Y23 + 'f1040_s1.py', "            types = []\n", "            types = []\n            for t_ in types:\n                types.remove(t_)\n", 'L6',
  'a list is edited inside the loop that iterates over it (seed C16-O)')


# ------------------------------------------------------------------ behaviour-preserving twins for the rules of rounds 6-8
M('k0-note-inside-the-request-loop', ['C01', 'C03', 'C04', 'C05', 'C06'], S, "        for form_name in form_names:\n            self._add_form(form_name)\n",
  "        for form_name in form_names:\n            assert isinstance(form_name, str)\n            self._add_form(form_name)\n", None, 'an assertion inside the loop over the requested forms', expect='silent')
M('k10-early-return-on-refusal', ['C05', 'C06', 'C13', 'C20'], S,
  "        if supplied:\n            assert missing.valid(value)\n            self._i[missing.name()] = value\n            self._input_dependencies.meet(missing.name())\n        else:\n            self._refused_input = True\n        return supplied\n",
  "        if not supplied:\n            self._refused_input = True\n            return supplied\n        assert missing.valid(value)\n        self._i[missing.name()] = value\n        self._input_dependencies.meet(missing.name())\n        return supplied\n",
  None, '_attempt_input written with an early return for the refusal', expect='silent')
M('k35-explicit-read-mode', ['C11', 'C13', 'C20'], IN, "            with open(input_config) as config_file:", "            with open(input_config, 'r') as config_file:", None, 'explicit read mode', expect='silent')
M('k25b-left-justified-names', ['C17'], CLI, "    format_str =\"{:>{width}} | {:12} | {}\"\n", "    format_str =\"{:<{width}} | {:12} | {}\"\n", None, 'names padded on the other side', expect='silent')
M('k23c-choice-test-negated-in', ['C19'], PFD, "        if value not in self._choices:\n", "        if not (value in self._choices):\n", None, 'the same membership test written with not (... in ...)', expect='silent')
M('k16-set-sorted-before-join', ['C05'], Y23 + 'f1040_s1.py', "                return (\", \".join(types), sum(income))", "                return (\", \".join(sorted(set(types))), sum(income))", None,
  'a set that is sorted before it is joined', expect='silent')
M('l6-iterate-over-a-copy', ['C16', 'C05', 'C03'], Y23 + 'f1040_s1.py', "            types = []\n", "            types = []\n            for t_ in list(types):\n                types.remove(t_)\n", None,
  'the loop runs over a copy of the list it edits', expect='silent')
M('k36-default-copied-first', ['C04', 'C05'], S, "        for form_name in form_names:\n            self._add_form(form_name)\n",
  "        field_names = list(field_names)\n        for form_name in form_names:\n            if '.' in form_name:\n                field_names.append(form_name)\n                continue\n            self._add_form(form_name)\n", None,
  'the parameter is rebound to a fresh copy before it is appended to', expect='silent')
M('k27-getter-wraps-in-dict', ['C01', 'C13'], S, "        assert self._done_solving\n        return self._unmet_dependencies(self._field_dependencies)\n",
  "        assert self._done_solving\n        return dict(self._unmet_dependencies(self._field_dependencies))\n", None, 'the getter returns a copy of the full table', expect='silent')
M('k9-meet-in-the-else-clause', ['C01', 'C06', 'C13'], S, "            self._v[field.name()] = field.value(form_inputs, form_values)\n            self._field_dependencies.meet(field.name())\n        except values.UnmetDependency as ud:",
  "            self._v[field.name()] = field.value(form_inputs, form_values)\n            self._field_dependencies.meet(field.name())\n            pass\n        except values.UnmetDependency as ud:", None, 'a pass after the meet', expect='silent')
M('k21a-renamed-answer', ['C12'], FI, "        v = self._value(inputs, values)\n        if v is None or isinstance(v, str) and v.strip() == \"\":\n            return self._empty_value\n        elif type(v) is not self._type:\n            raise TypeError(f'Field named {self.name()} expected to produce type {self._type}, but found {type(v)}.')\n        return v\n",
  "        answer = self._value(inputs, values)\n        if answer is None or isinstance(answer, str) and answer.strip() == \"\":\n            return self._empty_value\n        elif type(answer) is not self._type:\n            raise TypeError(f'Field named {self.name()} expected to produce type {self._type}, but found {type(answer)}.')\n        return answer\n",
  None, 'the local variable of TypedField.value renamed', expect='silent')
M('k20-renamed-answer', ['C01', 'C05', 'C06', 'C09', 'C11', 'C20'], CLI, "    value = None\n\n    while value is None or not missing.valid(value):\n        try:\n            if value is not None:\n                prompt = \"Invalid input, try again?: \"\n            value = input(prompt)\n        except KeyboardInterrupt:\n            return (None, False)\n\n    return (value, True)\n",
  "    answer = None\n\n    while answer is None or not missing.valid(answer):\n        try:\n            if answer is not None:\n                prompt = \"Invalid input, try again?: \"\n            answer = input(prompt)\n        except KeyboardInterrupt:\n            return (None, False)\n\n    return (answer, True)\n",
  None, 'the local variable of prompt_input renamed', expect='silent')
M('k30-assert-with-message', ['C10'], S, "            assert i not in self._input_map\n", "            assert i not in self._input_map, 'input object registered twice'\n", None, 'a message on the (vacuous) assertion', expect='silent')
M('r17-flag-and-description-positional', ['C17', 'C11'], Y22 + 'f1099_r.py', "EnumInput('belongs_to', enum.taxpayer_or_spouse, description=\"To whom was this distribution paid?\"),",
  "EnumInput('belongs_to', enum.taxpayer_or_spouse, False, \"To whom was this distribution paid?\"),", None, 'allow_empty and the description both passed by position, in the right order', expect='silent')
M('k22b-string-to_string-spelled-out', ['C14', 'C03'], FI, "class StringField(BasicTypedField):\n    def __init__(self, name, value_fn):\n        self._empty_value = \"\"\n        super().__init__(name, value_fn, str)\n",
  "class StringField(BasicTypedField):\n    def __init__(self, name, value_fn):\n        self._empty_value = \"\"\n        super().__init__(name, value_fn, str)\n\n    def to_string(self, value):\n        return str(value)\n", None,
  'StringField spells out the inherited to_string', expect='silent')
M('k11d-subclass-delegates', ['C11'], IN, "class EnumInput(StringInput):\n", "class PercentInput(FloatInput):\n    def value(self, string):\n        return super().value(string.strip().rstrip('%'))\n\nclass EnumInput(StringInput):\n", None,
  'a subclass of FloatInput that strips a percent sign and delegates the conversion (and the finiteness test) to FloatInput', expect='silent')
M('r17-inputs-built-by-a-helper', ['C17', 'C05', 'C01'], Y23 + 'f1098.py', "            StringInput('box_8', description=\"Address or description of property securing mortgage\"),", "            _box8(),", None,
  'one input object is built by a module-level helper function on every call', expect='silent',
  more=[(Y23 + 'f1098.py', "class Form1098(InputForm):", "def _box8():\n    return StringInput('box_8', description=\"Address or description of property securing mortgage\")\n\nclass Form1098(InputForm):")])


# ------------------------------------------------------------------ round 9 of the seeded changes
M('r2-9-one-year-assigns-instead-of-adding', ['C02'], Y23 + 'f1040_s1.py', "            hsa_deduction += v['8889:spouse.hsa_deduction'] if spouse_hsa else 0.0\n",
  "            if spouse_hsa:\n                hsa_deduction = v['8889:spouse.hsa_deduction']\n", 'R2.9',
  'the 2023 Schedule 1 line 13 assigns the spouse\'s deduction instead of adding it; 2021 and 2022 still add (seed C02-R)')
M('k13-required-lines-only-the-first-time', ['C01', 'C04', 'C05', 'C13'], S, "        self._add_unattempted(new_form.required_fields())\n        self._solving_fields |= set([f.name() for f in new_form.required_fields()])\n",
  "        first_time = new_form.name() not in self.forms or True\n        if first_time and form_name:\n            self._add_unattempted(new_form.required_fields())\n            self._solving_fields |= set([f.name() for f in new_form.required_fields()])\n", 'K13',
  'the required lines are queued only under a further condition (seed C01-Q)')
M('l2c-demand-in-an-unconsumed-generator', ['C01', 'C04', 'C09'], Y22 + 'f1040_sb.py', "                v['7a']\n                v['7b']\n                v['8']\n", "                (v[line] for line in ('7a', '7b', '8'))\n", 'L2c',
  'the demand-only reads of Part III are written as a generator expression that nothing consumes (seed C01-R)')
M('k22f-file-gets-a-union', ['C03', 'C04', 'C14'], CLI, "        with open(args.solution, 'w') as outfile:\n            solution.write(outfile)\n",
  "        combined = configparser.ConfigParser(interpolation=None)\n        combined.read(args.solution)\n        combined.read_dict(solution)\n        with open(args.solution, 'w') as outfile:\n            combined.write(outfile)\n", 'K22f',
  'the solution file receives the union of its old contents and the new solution (seed C03-R)')
M('k38-solver-bool', ['C10', 'C11', 'C05'], S, "    def solution(self):\n", "    def __bool__(self):\n        return self._solved\n\n    def solution(self):\n", 'K38',
  'the solver becomes falsy until it has solved: Form.solver() asserts its truth (seed C10-R)')
M('k38-registry-borrowed', ['C10', 'C11', 'C05'], S, "        self._input_map = {}\n", "        self._input_map = input_config.input_specs\n", 'K38',
  'the solver registers inputs in the specification dict of the input store - the shared default of InputStore (seed C11-R)')
M('k11i-write-pinned-read-default', ['C11', 'C13', 'C20'], IN, "        with open(filename, 'w') as outfile:", "        with open(filename, 'w', encoding='utf-8') as outfile:", 'K11i',
  'the write-back is pinned to UTF-8 while the read keeps the platform default (seed C13-R)')
M('k11i-both-pinned-utf8', ['C11', 'C13', 'C20'], IN, "        with open(filename, 'w') as outfile:", "        with open(filename, 'w', encoding='utf-8') as outfile:", None,
  'read and write both pinned to UTF-8', expect='silent', more=[(IN, "            with open(input_config) as config_file:", "            with open(input_config, encoding='utf-8') as config_file:")])
M('k11i-latin1-both-ways', ['C20', 'C13'], IN, "        with open(filename, 'w') as outfile:", "        with open(filename, 'w', encoding='latin-1') as outfile:", 'K11i',
  'the input file is read and written as Latin-1: an answer outside that code page aborts the write after truncation (seed C20-Q)',
  more=[(IN, "            with open(input_config) as config_file:", "            with open(input_config, encoding='latin-1') as config_file:")])
M('k23c-sign-not-counted', ['C19'], PFD, "len(value) > self.max_length", "len(value.lstrip('-')) > self.max_length", 'K23c', 'the length test does not count a leading minus sign (seed C18-Q)')
M('k20-sigint-default', ['C20', 'C01'], CLI, "def main():\n", "def main():\n    import signal\n    signal.signal(signal.SIGINT, signal.SIG_DFL)\n", 'K20', 'Ctrl-C kills the process instead of raising KeyboardInterrupt (seed C20-R)')
M('c07-table-or-worksheet', ['C07'], Y21 + 'f1040_figure_tax.py', "    # If we got here, something went wrong\n    assert False\n\ndef figure_tax_worksheet", "    return None\n\ndef figure_tax_worksheet", 'D1',
  'the table lookup falls back with `or`: the $0 row is falsy, so incomes under $5 fall through to the worksheet (seed C07-Q)',
  more=[(Y21 + 'f1040_figure_tax.py', "    if taxable_amount < 100000:\n        return figure_tax_table(taxable_amount, filing_status_index)\n    return figure_tax_worksheet(taxable_amount, filing_status_index)",
         "    return (figure_tax_table(taxable_amount, filing_status_index)\n            or figure_tax_worksheet(taxable_amount, filing_status_index))")])
M('r17-mirror-lines-shared-by-copies', ['C17', 'C04', 'C05'], F, "        fields = []\n        for i in inputs:\n            base_name = i.base_name()\n",
  "        fields = []\n        for i in inputs:\n            base_name = i.base_name()\n            key = (child_cls, type(i), base_name, getattr(i, 'enum', None))\n            if key in InputForm._mirrored:\n                fields.append(InputForm._mirrored[key])\n                continue\n", 'R17.7',
  'the lines mirroring the inputs of an input form are cached per class and shared by all numbered copies (seed C04-Q)',
  more=[(F, "                raise TypeError(f'Unexpected input type in InputForm: {type(i)}')\n", "                raise TypeError(f'Unexpected input type in InputForm: {type(i)}')\n            InputForm._mirrored[key] = fields[-1]\n"),
        (F, "    input\"\"\"\n\n    def __init__(self,\n                 child_cls,", "    input\"\"\"\n\n    _mirrored = {}\n\n    def __init__(self,\n                 child_cls,")])


# ------------------------------------------------------------------ behaviour-preserving twins for the rules of round 9
M('r2-9-one-year-written-with-ifs', ['C02', 'C16'], Y23 + 'f1040_s1.py', "            hsa_deduction = v['8889:you.hsa_deduction'] if i['hsa_contribution_you'] else 0.0\n            hsa_deduction += v['8889:spouse.hsa_deduction'] if spouse_hsa else 0.0\n",
  "            hsa_deduction = 0.0\n            if i['hsa_contribution_you']:\n                hsa_deduction += v['8889:you.hsa_deduction']\n            if spouse_hsa:\n                hsa_deduction += v['8889:spouse.hsa_deduction']\n", None,
  'the 2023 line 13 written with if-blocks that still add: same combinations as its sibling years', expect='silent')
M('k22f-file-handle-renamed', ['C03', 'C04', 'C14'], CLI, "        with open(args.solution, 'w') as outfile:\n            solution.write(outfile)\n", "        with open(args.solution, 'w') as solution_file:\n            solution.write(solution_file)\n", None,
  'the file handle renamed', expect='silent')
M('k38-registry-dict-call', ['C10', 'C11', 'C05'], S, "        self._input_map = {}\n", "        self._input_map = dict()\n", None, 'the registry created with dict()', expect='silent')
M('k20-sigpipe-default', ['C20', 'C01'], CLI, "def main():\n", "def main():\n    import signal\n    signal.signal(signal.SIGPIPE, signal.SIG_DFL)\n", None, 'only SIGPIPE is reset: Ctrl-C still raises KeyboardInterrupt', expect='silent')
M('k23c-length-in-a-local', ['C19'], PFD, "        if self.max_length is not None and len(value) > self.max_length:\n", "        n_chars = len(value)\n        if self.max_length is not None and n_chars > self.max_length:\n", None,
  'the length kept in a local variable', expect='silent')

# ------------------------------------------------------------------ round 10 of the seeded changes
L5_22 = ("                if not v[f'1099-r:{n}.box_7_ira_sep_simple']:\n                    if v[f'1099-r:{n}.box_2b_taxable_not_determined']:\n                        self.not_implemented()\n"
         "                    distributions += v[f'1099-r:{n}.box_1']\n                    taxable_amount += v[f'1099-r:{n}.box_2a']\n")
M('r2-9-summand-leaves-its-condition', ['C02'], Y22 + 'f1040.py', "                    taxable_amount += v[f'1099-r:{n}.box_2a']\n", "                taxable_amount += v[f'1099-r:{n}.box_2a']\n", 'R2.9',
  'box 2a of every 1099-R is added to the 2022 line 5b, the IRA copies included (dedent; seed C02-S); 2023 still adds it for the pension copies only')
M('r9-7-break-at-the-first-ira-copy', ['C09'], Y22 + 'f1040.py', L5_22,
  "                if v[f'1099-r:{n}.box_7_ira_sep_simple']:\n                    break\n                if v[f'1099-r:{n}.box_2b_taxable_not_determined']:\n                    self.not_implemented()\n"
  "                distributions += v[f'1099-r:{n}.box_1']\n                taxable_amount += v[f'1099-r:{n}.box_2a']\n", 'R9.7',
  'the loop over the 1099-R copies stops at the first IRA copy: later copies are never tested for "taxable amount not determined" (seed C09-S)')
M('r9-7-continue-at-an-ira-copy', ['C09', 'C02', 'C16'], Y22 + 'f1040.py', L5_22,
  "                if v[f'1099-r:{n}.box_7_ira_sep_simple']:\n                    continue\n                if v[f'1099-r:{n}.box_2b_taxable_not_determined']:\n                    self.not_implemented()\n"
  "                distributions += v[f'1099-r:{n}.box_1']\n                taxable_amount += v[f'1099-r:{n}.box_2a']\n", None,
  'the same loop un-nested with `continue`: every copy is still visited', expect='silent')
M('r9-7-refusal-tests-reordered', ['C09', 'C02'], Y23 + 'f1040_s3.py', "            if i['other_foreign_gross_income'] or foreign_tax > self.threshold('form_1116_foreign_tax', i['1040.filing_status']):\n",
  "            limit = self.threshold('form_1116_foreign_tax', i['1040.filing_status'])\n            if foreign_tax > limit or i['other_foreign_gross_income']:\n", None,
  'the two refusal tests of Schedule 3 line 1 in the other order', expect='silent')
M('r2-9-break-at-the-first-ira-copy', ['C02', 'C16'], Y22 + 'f1040.py', L5_22,
  "                if v[f'1099-r:{n}.box_7_ira_sep_simple']:\n                    break\n                if v[f'1099-r:{n}.box_2b_taxable_not_determined']:\n                    self.not_implemented()\n"
  "                distributions += v[f'1099-r:{n}.box_1']\n                taxable_amount += v[f'1099-r:{n}.box_2a']\n", 'R2.9',
  'the same change seen by the sibling rule of C02/C16: copies after the first IRA copy are not added')
M('k0-second-copy-of-a-form-skipped', ['C01', 'C04', 'C05'], S, "        for form_name in form_names:\n            self._add_form(form_name)\n",
  "        requested = set()\n        for form_name in form_names:\n            name, _ = form.name_and_instance(form_name)\n            if name in requested:\n                continue\n            requested.add(name)\n            self._add_form(form_name)\n", 'K0',
  'a guard against a form requested twice is keyed by the bare form name: of w-2:0 and w-2:1 only the first requested is added (seed C05-T)')
M('k0-whole-name-requested-twice-skipped', ['C01', 'C04', 'C05'], S, "        for form_name in form_names:\n            self._add_form(form_name)\n",
  "        requested = set()\n        for form_name in form_names:\n            if form_name in requested:\n                continue\n            requested.add(form_name)\n            self._add_form(form_name)\n", None,
  'the same guard keyed by the whole requested name: only an exact repeat is skipped', expect='silent')
M('k39-year-also-at-the-top-level', ['C07', 'C14'], CLI, "    subparsers = parser.add_subparsers(required=True, help='sub-command help')\n    default_year = max(forms.available_forms.keys())\n",
  "    default_year = max(forms.available_forms.keys())\n    parser.add_argument('--year', choices=forms.available_forms.keys(), type=int, default=default_year)\n    subparsers = parser.add_subparsers(required=True, help='sub-command help')\n", 'K39',
  '--year is also accepted before the sub-command, where the sub-command\'s default replaces it (seed C07-T)')
M('k39-verbose-at-the-top-level', ['C07', 'C14'], CLI, "    subparsers = parser.add_subparsers(required=True, help='sub-command help')\n",
  "    parser.add_argument('--verbose', action='store_true', default=False)\n    subparsers = parser.add_subparsers(required=True, help='sub-command help')\n", None,
  'a top-level option no sub-command defines', expect='silent')
M('r10-0-slots-on-the-line-classes', ['C10', 'C17'], FI, "class Field(object):\n    def __init__(self, name):\n", "class Field(object):\n    __slots__ = ('_name', '_form')\n\n    def __init__(self, name):\n", 'R1',
  'every class of the StringField chain declares __slots__: Schedule B can no longer tag its generated lines with the copy they belong to (seed C10-S)',
  more=[(FI, "class TypedField(Field):\n    def __init__(self, name, value_fn, _type):\n", "class TypedField(Field):\n    __slots__ = ('_value', '_type', '_empty_value')\n\n    def __init__(self, name, value_fn, _type):\n"),
        (FI, "class BasicTypedField(TypedField):\n    def to_string(self, value):\n", "class BasicTypedField(TypedField):\n    __slots__ = ()\n\n    def to_string(self, value):\n"),
        (FI, "class StringField(BasicTypedField):\n    def __init__(self, name, value_fn):\n", "class StringField(BasicTypedField):\n    __slots__ = ()\n\n    def __init__(self, name, value_fn):\n")])
M('r10-0-slots-on-the-base-class-only', ['C10', 'C17'], FI, "class Field(object):\n    def __init__(self, name):\n", "class Field(object):\n    __slots__ = ('_name', '_form')\n\n    def __init__(self, name):\n", None,
  '__slots__ on the base class alone: the subclasses still have a __dict__', expect='silent')
M('r10-11-one-digit-copy-numbers-only', ['C10'], 'habutax/form.py', "    split_form_name = full_form_name.split(':')\n    form_instance = None\n    if len(split_form_name) == 2:\n        form_instance = split_form_name[1]\n    elif len(split_form_name) != 1:\n        raise RuntimeError(f'Unexpected form name: {full_form_name} (expected 0 or 1 colons)')\n    return split_form_name[0], form_instance\n",
  "    import re\n    match = re.fullmatch(r'(?P<name>[A-Za-z0-9_-]+)(?::(?P<instance>[A-Za-z_]+|[0-9]))?', full_form_name)\n    if match is None:\n        raise RuntimeError(f'Unexpected form name: {full_form_name}')\n    return match.group('name'), match.group('instance')\n", 'R10.11',
  'name_and_instance validates with a pattern that allows one digit of copy number: w-2:10 is "unexpected" (seed C10-T)')
M('r10-11-pattern-with-any-copy-number', ['C10'], 'habutax/form.py', "    split_form_name = full_form_name.split(':')\n    form_instance = None\n    if len(split_form_name) == 2:\n        form_instance = split_form_name[1]\n    elif len(split_form_name) != 1:\n        raise RuntimeError(f'Unexpected form name: {full_form_name} (expected 0 or 1 colons)')\n    return split_form_name[0], form_instance\n",
  "    import re\n    match = re.fullmatch(r'(?P<name>[^:]+)(?::(?P<instance>[^:]+))?', full_form_name)\n    if match is None:\n        raise RuntimeError(f'Unexpected form name: {full_form_name}')\n    return match.group('name'), match.group('instance')\n", None,
  'the same rewrite with a pattern that accepts what split(":") accepted', expect='silent')
M('k40-filler-tables-in-the-class-body', ['C14', 'C19', 'C04'], PF, "        # Instances of Forms in the solution, and fields belonging to those\n        # forms\n        self.forms = []\n        self._field_map = {}\n\n        # Values read from solution file\n        self._values = values.ValueStore()\n", "",
  'K40', 'the filler\'s tables move into the class body: every filler of the process shares them (seed C14-S)',
  more=[(PF, "class PDFFiller(object):\n", "class PDFFiller(object):\n    forms = []\n    _field_map = {}\n    _values = values.ValueStore()\n\n")])
M('k40-solver-trackers-in-the-class-body', ['C04', 'C05'], S, "        self._unimplemented_fields = []\n", "", 'K40', 'the list of unimplemented lines is one list for every solver of the process',
  more=[(S, "class Solver(object):\n", "class Solver(object):\n    _unimplemented_fields = []\n\n")])
M('k40-class-level-defaults-overridden', ['C14', 'C19', 'C04'], PF, "class PDFFiller(object):\n", "class PDFFiller(object):\n    _pdftk = 'pdftk'\n    forms = []\n\n", None,
  'class-level defaults that __init__ replaces with the instance\'s own objects', expect='silent')
M('k35-file-parsed-with-read', ['C11', 'C13', 'C20'], IN, "            with open(input_config) as config_file:\n                self.config.read_file(config_file)\n", "            self.config.read(input_config)\n", 'K35',
  'the store is filled with ConfigParser.read(), which skips a file it cannot open: supplied inputs are reported missing (seed C11-T)')
M('k35-file-handle-renamed', ['C11', 'C13', 'C20'], IN, "            with open(input_config) as config_file:\n                self.config.read_file(config_file)\n", "            with open(input_config) as fh:\n                self.config.read_file(fh)\n", None,
  'the file handle renamed', expect='silent')
M('k18b-write-validates-first', ['C20', 'C13'], IN, "    def write(self, filename):\n", "    def write(self, filename):\n        for name, spec in self.input_specs.items():\n            if self.provides(spec):\n                self[name]\n", 'K18b',
  'write() re-reads every stored value through its validator before opening the file: one invalid entry loses the session (seed C20-S)')
M('k18b-write-counts-sections', ['C20', 'C13'], IN, "    def write(self, filename):\n", "    def write(self, filename):\n        n_sections = len(self.config.sections())\n", None,
  'write() counts the sections first (reads nothing through a validator)', expect='silent')
M('r16-1-wages-summed-over-a-set', ['C16', 'C02'], Y22 + 'f1040.py', "            return sum([v[f'w-2:{n}.box_1'] for n in range(i['number_w-2'])]) if i['number_w-2'] > 0 else None\n",
  "            return sum({v[f'w-2:{n}.box_1'] for n in range(i['number_w-2'])}) if i['number_w-2'] > 0 else None\n", 'R',
  'box 1 of the W-2s is summed over a SET: two W-2s with the same wages count once (seed C16-S)')
M('r16-1-wages-summed-over-a-generator', ['C16', 'C02'], Y22 + 'f1040.py', "            return sum([v[f'w-2:{n}.box_1'] for n in range(i['number_w-2'])]) if i['number_w-2'] > 0 else None\n",
  "            return sum(v[f'w-2:{n}.box_1'] for n in range(i['number_w-2'])) if i['number_w-2'] > 0 else None\n", None,
  'the same sum over a generator expression', expect='silent')
M('k23g-filler-upper-cases-the-box-text', ['C18', 'C19'], PF, "                string_value = pdf_field.value(value, field)\n", "                string_value = pdf_field.value(value, field)\n                if form.jurisdiction.name == 'NC':\n                    string_value = string_value.upper()\n", 'K23g',
  'the filler upper-cases what the mapping returned for NC forms: check-box export values become states the template does not define (seed C18-T)')
M('k23g-box-text-variable-renamed', ['C18', 'C19'], PF, "                string_value = pdf_field.value(value, field)\n            except values.UnmetDependency:\n                assert field_name not in required_fields\n                string_value = \"\"\n            fdf_map[pdf_field.pdf_field_name] = string_value\n",
  "                box_text = pdf_field.value(value, field)\n            except values.UnmetDependency:\n                assert field_name not in required_fields\n                box_text = \"\"\n            fdf_map[pdf_field.pdf_field_name] = box_text\n", None,
  'the variable holding the box text renamed', expect='silent')
M('r19-11-schedule-filed-on-equality', ['C19'], 'habutax/forms/ty2022/fnc_d_400_sa.py', "        return values['nc_d-400_sa.10'] > values['nc_d-400_sa.nc_standard_deduction']\n", "        return values['nc_d-400_sa.10'] >= values['nc_d-400_sa.nc_standard_deduction']\n", 'R19.11',
  'D-400 Schedule A is filed when the itemized deductions EQUAL the standard deduction, while the D-400 itself takes the standard deduction then (seed C19-T)')
M('r19-11-decision-written-the-other-way-round', ['C19'], 'habutax/forms/ty2022/fnc_d_400_sa.py', "        return values['nc_d-400_sa.10'] > values['nc_d-400_sa.nc_standard_deduction']\n", "        return not (values['nc_d-400_sa.10'] <= values['nc_d-400_sa.nc_standard_deduction'])\n", None,
  'the same decision written as a negated <=', expect='silent')
M('r17-8-input-class-without-a-format-suggestion', ['C17'], IN, "class EnumInput(StringInput):\n", "class DateTextInput(Input):\n    def value(self, string):\n        return string.strip()\n\nclass EnumInput(StringInput):\n", 'R17.8',
  'a new input class that inherits the raising format_suggestion() stub is used by Schedule 1: its template and prompt crash (seed C17-T)',
  more=[('habutax/form.py', "                            SSNInput)\n", "                            SSNInput,\n                            DateTextInput)\n"),
        (Y22 + 'f1040_s1.py', "            StringInput('alimony_paid_date', description=", "            DateTextInput('alimony_paid_date', description=")])
M('r17-8-input-class-extending-string-input', ['C17'], IN, "class EnumInput(StringInput):\n", "class DateTextInput(StringInput):\n    pass\n\nclass EnumInput(StringInput):\n", None,
  'the new input class extends StringInput and so has everything the template prints', expect='silent',
  more=[('habutax/form.py', "                            SSNInput)\n", "                            SSNInput,\n                            DateTextInput)\n"),
        (Y22 + 'f1040_s1.py', "            StringInput('alimony_paid_date', description=", "            DateTextInput('alimony_paid_date', description=")])
M('d4-worksheet-taxes-line-1-twice', ['C07', 'C02'], Y22 + 'f1040_qualdiv_capgain_tax_wkst.py', "            FloatField('22', lambda s, i, v: figure_tax(v['5'], i['1040.filing_status'])),\n", "            FloatField('22', lambda s, i, v: figure_tax(v['1'], i['1040.filing_status'])),\n", None,
  'the 2022 worksheet line 22 is the tax on line 1 instead of line 5 (what the late-binding loop of seed C07-S amounts to)')
M('d4-worksheet-amount-through-a-local', ['C07', 'C02'], Y22 + 'f1040_qualdiv_capgain_tax_wkst.py', "            FloatField('22', lambda s, i, v: figure_tax(v['5'], i['1040.filing_status'])),\n", "            FloatField('22', lambda s, i, v: figure_tax(v['1040_qualdiv_capgain_tax_wkst.5'], i['1040.filing_status'])),\n", None,
  'line 5 named with its form', expect='silent')
M('k41-threshold-remembers-its-first-answer', ['C03'], 'habutax/form.py', "            for key, value in t.items():\n                if isinstance(key, type(requested_key)):\n                    if key == requested_key:\n                        return value\n",
  "            if name in self._picked:\n                return self._picked[name]\n            for key, value in t.items():\n                if isinstance(key, type(requested_key)):\n                    if key == requested_key:\n                        self._picked[name] = value\n                        return value\n", 'K41',
  'Form.threshold() remembers the entry of a keyed table that applied first and hands it to every later key (seed C03-S)',
  more=[('habutax/form.py', "class Form(object):\n", "class Form(object):\n    _picked = {}\n\n")])
M('k41-threshold-table-in-a-local', ['C03'], 'habutax/form.py', "            for key, value in t.items():\n                if isinstance(key, type(requested_key)):\n", "            entries = list(t.items())\n            for key, value in entries:\n                if isinstance(key, type(requested_key)):\n", None,
  'the entries of the table are listed in a local first', expect='silent')
M('k12c-field-form-adds-the-form', ['C04', 'C03', 'C06'], FI, "        else:\n            return self._form.solver().forms[form_name]\n",
  "        solver = self._form.solver()\n        if form_name not in solver.forms:\n            solver._add_form(form_name)\n        return solver.forms[form_name]\n", 'K12c',
  'Field.form(name) adds the named form to the solve when it is not loaded: its required lines appear in the solution although nobody read them (seed C04-T)')
M('k12c-field-form-through-a-local', ['C04', 'C03', 'C06'], FI, "        else:\n            return self._form.solver().forms[form_name]\n", "        solver = self._form.solver()\n        return solver.forms[form_name]\n", None,
  'the solver kept in a local', expect='silent')
M('k13-required-lines-in-a-local', ['C01', 'C04', 'C05', 'C13'], S, "        self._add_unattempted(new_form.required_fields())\n        self._solving_fields |= set([f.name() for f in new_form.required_fields()])\n",
  "        required = new_form.required_fields()\n        self._add_unattempted(required)\n        self._solving_fields |= {f.name() for f in required}\n", None,
  'the required lines kept in a local, the set built with a set comprehension', expect='silent')
M('k13-solving-set-replaced-by-the-last-form', ['C01', 'C04', 'C05', 'C06', 'C13'], S, "        self._add_unattempted(new_form.required_fields())\n        self._solving_fields |= set([f.name() for f in new_form.required_fields()])\n",
  "        required = new_form.required_fields()\n        self._add_unattempted(required)\n        self._solving_fields = {f.name() for f in required}\n", 'K',
  'the set of lines being solved is REPLACED by the required lines of the form just added (seed C06-T): lines of earlier forms are queued a second time when somebody reads them')
M('k24a-waiters-deduplicated-by-line-name', ['C13', 'C06', 'C01'], S, "        if dependency_name not in self._unmet:\n            self._unmet[dependency_name] = [dependent]\n        else:\n            self._unmet[dependency_name].append(dependent)\n",
  "        waiting = self._unmet.setdefault(dependency_name, [])\n        if dependent.base_name() not in [d.base_name() for d in waiting]:\n            waiting.append(dependent)\n", 'K24a',
  'a waiter is not recorded when a line of the same NAME (in another form) already waits for the input (seed C13-S)')
M('k24a-waiters-recorded-with-setdefault', ['C13', 'C06', 'C01'], S, "        if dependency_name not in self._unmet:\n            self._unmet[dependency_name] = [dependent]\n        else:\n            self._unmet[dependency_name].append(dependent)\n",
  "        self._unmet.setdefault(dependency_name, []).append(dependent)\n", None, 'the same bookkeeping written with setdefault', expect='silent')
M('r9-7-amounts-in-a-set-is-not-a-gate-matter', ['C09'], Y22 + 'f1040.py', "            return sum([v[f'w-2:{n}.box_1'] for n in range(i['number_w-2'])]) if i['number_w-2'] > 0 else None\n",
  "            return sum({v[f'w-2:{n}.box_1'] for n in range(i['number_w-2'])}) if i['number_w-2'] > 0 else None\n", None,
  'the wage total of a refusing line loses amounts (C02/C16 report it): every copy is still tested for the statutory-employee box', expect='silent')
M('r2-9-conditional-summand-as-an-expression', ['C02', 'C09'], Y22 + 'f1040.py', L5_22,
  "                ira = v[f'1099-r:{n}.box_7_ira_sep_simple']\n                if not ira and v[f'1099-r:{n}.box_2b_taxable_not_determined']:\n                    self.not_implemented()\n"
  "                distributions += 0.0 if ira else v[f'1099-r:{n}.box_1']\n                taxable_amount += 0.0 if ira else v[f'1099-r:{n}.box_2a']\n", None,
  'the pension copies selected with conditional expressions instead of an if block', expect='silent')
M('k41-validator-fills-a-local-list', ['C03'], IN, "        if len(ssn) != 9:\n            return False\n", "        seen = []\n        seen.append(len(ssn))\n        if seen[0] != 9:\n            return False\n", None,
  'a method of an input class fills a local list', expect='silent')
M('r19-11-decision-over-locals', ['C19'], 'habutax/forms/ty2023/fnc_d_400_sa.py', "        return values['nc_d-400_sa.10'] > values['nc_d-400_sa.nc_standard_deduction']\n",
  "        itemized = values['nc_d-400_sa.10']\n        standard = values['nc_d-400_sa.nc_standard_deduction']\n        return standard < itemized\n", None,
  'the two amounts kept in locals and compared the other way round', expect='silent')
M('k40-filler-tables-built-by-a-helper', ['C14', 'C19'], PF, "        self.forms = []\n        self._field_map = {}\n", "        self.forms, self._field_map = [], {}\n", None,
  'the two tables of the filler assigned in one statement', expect='silent')
M('k39-year-option-with-a-short-form', ['C07', 'C14'], CLI, "    solve_parser.add_argument(\n        '--year',\n", "    solve_parser.add_argument(\n        '-y', '--year',\n", None,
  'the solve sub-command also accepts -y', expect='silent')

# ------------------------------------------------------------------ round 11 of the seeded changes
M('k11d-only-infinity-rejected', ['C11', 'C01'], IN, "        if not math.isfinite(value):\n", "        if math.isinf(value):\n", 'K11d', 'the finiteness guard of FloatInput tests isinf alone: "nan" validates (seed C01-V)')
M('k11d-decimal-comma-accepted', ['C11', 'C09'], IN, "        value = float(string)\n        if not math.isfinite(value):\n", "        if ',' in string and '.' not in string:\n            string = string.replace(',', '.')\n        value = float(string)\n        if not math.isfinite(value):\n", 'K11d',
  'FloatInput rewrites a comma to a decimal point: "4,000" is read as 4.0 and passes every limit gate (seeds C09-U, C11-V)')
M('k11d-text-stripped-in-a-local', ['C11', 'C09'], IN, "        value = float(string)\n        if not math.isfinite(value):\n", "        text = string\n        value = float(text)\n        if not math.isfinite(value):\n", None,
  'the text handed to float() through a local', expect='silent')
M('k13-inputs-known-by-bare-form-name', ['C10', 'C13', 'C06', 'C01'], S, "        new_form = self._form_map[form_name](solver=self, instance=form_instance)\n",
  "        if input_only and form_name in getattr(self, '_specs_loaded', ()):\n            return\n        self._specs_loaded = getattr(self, '_specs_loaded', set()) | {form_name}\n        new_form = self._form_map[form_name](solver=self, instance=form_instance)\n", 'K13',
  'an input-only load returns early when a form of the same bare name was loaded before: the inputs of 8889:spouse stay unknown and the retry recurses without end (seeds C10-U, C13-U)')
M('k12-queue-deduplicated-by-sort-key', ['C06', 'C01', 'C04', 'C05'], S, "        if isinstance(unattempted, list):\n            self._unattempted_fields.extend(unattempted)\n        else:\n            self._unattempted_fields.append(unattempted)\n        self._unattempted_fields.sort(key=sort_keys)\n",
  "        if not isinstance(unattempted, list):\n            unattempted = [unattempted]\n        for field in unattempted:\n            if any(sort_keys(q) == sort_keys(field) for q in self._unattempted_fields):\n                continue\n            self._unattempted_fields.append(field)\n        self._unattempted_fields.sort(key=sort_keys)\n", 'K12',
  'a line whose sort key equals that of a queued line is not queued (box_12a / box_12_a): it is never evaluated and its waiters are never released (seed C06-U)')
M('k12-queue-filled-in-a-loop', ['C06', 'C01', 'C04', 'C05'], S, "        if isinstance(unattempted, list):\n            self._unattempted_fields.extend(unattempted)\n        else:\n            self._unattempted_fields.append(unattempted)\n        self._unattempted_fields.sort(key=sort_keys)\n",
  "        if not isinstance(unattempted, list):\n            unattempted = [unattempted]\n        for field in unattempted:\n            self._unattempted_fields.append(field)\n        self._unattempted_fields.sort(key=sort_keys)\n", None,
  'the queue filled element by element', expect='silent')
M('r16-1-points-of-the-last-1098-only', ['C16'], Y22 + 'f1040_sa.py', "            mortgage_interest_points = sum([v[f'1098:{n}.box_1'] for n in range(i['1040.number_1098'])])\n            mortgage_interest_points += sum([v[f'1098:{n}.box_6'] for n in range(i['1040.number_1098'])])\n",
  "            interest = 0.0\n            points = 0.0\n            for n in range(i['1040.number_1098']):\n                interest += v[f'1098:{n}.box_1']\n                points = v[f'1098:{n}.box_6']\n            mortgage_interest_points = interest + points\n", 'R16.1',
  'the points of the Forms 1098 are assigned instead of added in the loop over the copies: the last copy wins (seed C16-V)')
M('r16-1-points-added-in-one-loop', ['C16'], Y22 + 'f1040_sa.py', "            mortgage_interest_points = sum([v[f'1098:{n}.box_1'] for n in range(i['1040.number_1098'])])\n            mortgage_interest_points += sum([v[f'1098:{n}.box_6'] for n in range(i['1040.number_1098'])])\n",
  "            interest = 0.0\n            points = 0.0\n            for n in range(i['1040.number_1098']):\n                interest += v[f'1098:{n}.box_1']\n                points += v[f'1098:{n}.box_6']\n            mortgage_interest_points = interest + points\n", None,
  'the same totals added up in one loop', expect='silent')
M('l7-refusal-named-but-not-called', ['C01', 'C09'], Y22 + 'f8889.py', "                self.not_implemented()\n", "                self.not_implemented\n", 'L', 'the refusal of Form 8889 line 3 loses its call parentheses: nothing is refused (seed C01-U)')
M('k12-queue-kept-sorted-with-insort', ['C06', 'C01', 'C04', 'C05'], S, "        if isinstance(unattempted, list):\n            self._unattempted_fields.extend(unattempted)\n        else:\n            self._unattempted_fields.append(unattempted)\n        self._unattempted_fields.sort(key=sort_keys)\n",
  "        import bisect\n        if not isinstance(unattempted, list):\n            unattempted = [unattempted]\n        for field in unattempted:\n            bisect.insort(self._unattempted_fields, field, key=sort_keys)\n", None,
  'the queue kept sorted by inserting each line in place (nothing is skipped)', expect='silent')
M('k11d-float-of-the-stripped-text', ['C11', 'C09'], IN, "        value = float(string)\n        if not math.isfinite(value):\n", "        value = float(string.strip())\n        if not math.isfinite(value):\n", None,
  'the text stripped once more inside the conversion', expect='silent')
M('k13-unsupported-form-reported-first', ['C10', 'C13', 'C01'], S, "        if form_name not in self._form_map:\n            raise NotImplementedError(f'Form {form_name} is not supported.')\n",
  "        known = form_name in self._form_map\n        if not known:\n            raise NotImplementedError(f'Form {form_name} is not supported.')\n", None,
  'the membership test of the catalogue kept in a local', expect='silent')

# ------------------------------------------------------------------ "kept in a local first" twins over the core (the shape that tripped K13, K24a and K4)
M('tw-attempt-field-name-in-a-local', ['C01', 'C03', 'C04', 'C06', 'C12'], S, "            self._v[field.name()] = field.value(form_inputs, form_values)\n            self._field_dependencies.meet(field.name())\n",
  "            name = field.name()\n            self._v[name] = field.value(form_inputs, form_values)\n            self._field_dependencies.meet(name)\n", None, 'the name of the line kept in a local for the store and the announcement', expect='silent')
M('tw-prompt-answer-unpacked-later', ['C01', 'C06', 'C11', 'C13', 'C20'], S, "        value, supplied = self._prompt(missing, needed_by)\n", "        answer = self._prompt(missing, needed_by)\n        value, supplied = answer\n", None,
  'the pair returned by the prompt unpacked in a second statement', expect='silent')
M('tw-has-unmet-with-any', ['C01', 'C06', 'C13'], S, "        for dependency, dependents in self._unmet.items():\n            if len(dependents) > 0 and dependency not in self._met:\n                return True\n        return False\n",
  "        return any(len(dependents) > 0 and dependency not in self._met for dependency, dependents in self._unmet.items())\n", None, 'has_unmet() written with any()', expect='silent')
M('tw-store-spec-in-a-local-named-spec', ['C11', 'C13', 'C05', 'C01'], IN, "        i = self.input_specs[key]\n        if not self.provides(i):\n            raise MissingInput(key)\n        string = self.config.get(i.section(), i.base_name())\n        if not i.valid(string):\n            raise InvalidInput(key, string)\n        return i.value(string)\n",
  "        spec = self.input_specs[key]\n        if not self.provides(spec):\n            raise MissingInput(key)\n        text = self.config.get(spec.section(), spec.base_name())\n        if not spec.valid(text):\n            raise InvalidInput(key, text)\n        return spec.value(text)\n", None,
  'the locals of the input gate renamed', expect='silent')
M('tw-cli-store-renamed', ['C13', 'C20', 'C05', 'C11'], CLI, "    input_store = inputs.InputStore(args.input_file)\n    prompt_fn = prompt_input if args.prompt_missing else None\n    s = solver.Solver(input_store, forms.available_forms[args.year], prompt=prompt_fn)\n",
  "    store = inputs.InputStore(args.input_file)\n    prompt_fn = prompt_input if args.prompt_missing else None\n    s = solver.Solver(store, forms.available_forms[args.year], prompt=prompt_fn)\n", None,
  'the store variable of the CLI renamed', expect='silent', more=[(CLI, "            input_store.write(args.input_file)\n", "            store.write(args.input_file)\n")])
M('tw-meet-with-augmented-assignment', ['C01', 'C06'], S, "        self._met.append(dependency_name)\n", "        self._met += [dependency_name]\n", None, 'meet() written with +=', expect='silent')
M('tw-value-store-get-with-membership-test', ['C01', 'C03', 'C04', 'C06', 'C12'], VA, "        try:\n            return self.values[key]\n        except KeyError as ke:\n            raise UnmetDependency(key) from ke\n",
  "        if key not in self.values:\n            raise UnmetDependency(key)\n        return self.values[key]\n", None, 'the read of the value store written with a membership test instead of try/except', expect='silent')
M('tw-to-config-section-in-a-local', ['C03', 'C04', 'C14'], VA, "            if form_name not in config:\n                config[form_name] = {}\n            config[form_name][field_name] = field.to_string(value)\n",
  "            text = field.to_string(value)\n            if form_name not in config:\n                config[form_name] = {}\n            config[form_name][field_name] = text\n", None, 'the text of a solved value kept in a local before it is written', expect='silent')
M('tw-filler-reads-the-section-once', ['C14', 'C19', 'C18'], PF, "        for field_name in self._solution[form_name]:\n            full_name = f'{form_name}.{field_name}'\n            string = self._solution[form_name][field_name]\n",
  "        section = self._solution[form_name]\n        for field_name in section:\n            full_name = f'{form_name}.{field_name}'\n            string = section[field_name]\n", None, 'the section of the solution kept in a local while it is read back', expect='silent')
M('tw-fdf-lines-with-a-comprehension', ['C19', 'C18'], PF, "        lines = []\n        for k, v in data.items():\n            lines.append(f'<< /T ({_escape_fdf_string(k)}) /V ({_escape_fdf_string(v)}) >>')\n",
  "        lines = [f'<< /T ({_escape_fdf_string(k)}) /V ({_escape_fdf_string(v)}) >>' for k, v in data.items()]\n", None, 'the form-data lines built with a comprehension', expect='silent')
M('tw-typed-field-answer-renamed', ['C12', 'C03', 'C10'], FI, "        v = self._value(inputs, values)\n        if v is None or isinstance(v, str) and v.strip() == \"\":\n            return self._empty_value\n        elif type(v) is not self._type:\n            raise TypeError(f'Field named {self.name()} expected to produce type {self._type}, but found {type(v)}.')\n        return v\n",
  "        answer = self._value(inputs, values)\n        if answer is None or isinstance(answer, str) and answer.strip() == \"\":\n            return self._empty_value\n        if type(answer) is not self._type:\n            raise TypeError(f'Field named {self.name()} expected to produce type {self._type}, but found {type(answer)}.')\n        return answer\n", None,
  'the answer of the definition renamed and the elif written as if', expect='silent')
M('tw-text-box-value-in-a-fresh-local', ['C19', 'C18'], PFD, "        value = super().value(value, field_obj)\n        if self.max_length is not None and len(value) > self.max_length:\n            raise PDFValueTooLong(self.pdf_field_name, self.field_name, self.max_length)\n        return value\n",
  "        text = super().value(value, field_obj)\n        if self.max_length is not None and len(text) > self.max_length:\n            raise PDFValueTooLong(self.pdf_field_name, self.field_name, self.max_length)\n        return text\n", None,
  'the text of a box kept in a local of its own instead of rebinding the parameter', expect='silent')
M('tw-button-value-as-an-expression', ['C18', 'C19'], PFD, "        if value:\n            return self._true_value\n        else:\n            return 'Off'\n", "        return self._true_value if value else 'Off'\n", None,
  'the state of a check box chosen with a conditional expression', expect='silent')
M('tw-provides-through-locals', ['C11', 'C13', 'C06', 'C01'], IN, "        return self.config.has_option(input_obj.section(), input_obj.base_name())\n",
  "        section = input_obj.section()\n        option = input_obj.base_name()\n        return self.config.has_option(section, option)\n", None, 'provides() names section and option before asking the parser', expect='silent')
M('tw-cli-writeback-flag-in-a-local', ['C20', 'C13'], CLI, "    if args.writeback_input:\n        Path(args.input_file).touch()", "    writeback = args.writeback_input\n    if writeback:\n        Path(args.input_file).touch()", None,
  'the write-back switch kept in a local', expect='silent', more=[(CLI, "        if args.writeback_input:\n            input_store.write(args.input_file)\n", "        if writeback:\n            input_store.write(args.input_file)\n")])
M('tw-escape-with-a-loop-over-pairs', ['C19'], PF, "    return str(text).replace('\\\\', '\\\\\\\\').replace('(', '\\\\(').replace(')', '\\\\)')\n",
  "    out = str(text).replace('\\\\', '\\\\\\\\')\n    out = out.replace('(', '\\\\(')\n    out = out.replace(')', '\\\\)')\n    return out\n", None, 'the three replacements of the escaping function written one per statement', expect='silent')
M('tw-threshold-key-in-a-local', ['C08', 'C10', 'C02', 'C17', 'C15'], Y23 + 'f1040.py', "        def standard_deduction(self, i):\n            return self.threshold('standard_deduction', i['filing_status'])\n",
  "        def standard_deduction(self, i):\n            status = i['filing_status']\n            amount = self.threshold('standard_deduction', status)\n            return amount\n", None,
  'the filing status and the looked-up amount kept in locals', expect='silent')
M('tw-line-12-else-branches-reordered', ['C08', 'C10', 'C02', 'C09', 'C15'], Y23 + 'f1040.py', "            if v['itemizing']:\n                return v['1040_sa.17']\n            elif i['standard_deduction_exceptions']:\n                self.not_implemented()\n            else:\n                return standard_deduction(self, i)\n",
  "            if v['itemizing']:\n                return v['1040_sa.17']\n            if not i['standard_deduction_exceptions']:\n                return standard_deduction(self, i)\n            self.not_implemented()\n", None,
  'line 12 written with early returns: the refusal comes last', expect='silent')
M('tw-schedule-1-test-with-locals', ['C10', 'C02', 'C09', 'C03'], Y23 + 'f1040.py', "            return (mort_int_refund + state_income_refund) > 0.001 or i['schedule_1_additional_income']\n",
  "            refunds = mort_int_refund + state_income_refund\n            if refunds > 0.001:\n                return True\n            return i['schedule_1_additional_income']\n", None,
  'the disjunction written as an early return', expect='silent')
